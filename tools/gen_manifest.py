#!/usr/bin/env python3
"""Regenerate /verif/MANIFEST.json from the list of property binaries that exist."""
import json, os, sys
V = os.path.dirname(os.path.dirname(os.path.abspath(__file__)))
props = [json.loads(l) for l in open(f"{V}/properties.jsonl")]
TEXT = json.load(open(f"{V}/tools/manifest_text.json"))
checks, na = [], []
for p in props:
    pid = p["id"]
    if (os.path.exists(f"{V}/mc/props/src/bin/{pid.lower()}.rs") or os.path.exists(f"{V}/mc/props0/src/bin/{pid.lower()}.rs")) and pid in TEXT:
        t = TEXT[pid]
        checks.append({
            "property_id": pid,
            "quick_cmd": f"./check {pid} quick",
            "thorough_cmd": f"./check {pid} thorough",
            "evidence_file": f"/verif/evidence/{pid}.json",
            "replay_cmd_template": f"./check {pid} replay {{path}}",
            "engine": "mc",
            "level_claimed": {"category": "model_checking", "text": t["text"], "design_ref": t.get("design_ref", f"DESIGN.md section 3, {pid}")},
            "level_note": t["note"],
            "technique": t["technique"],
        })
    else:
        na.append({"property_id": pid, "reason": "no check built yet in this round (planned: bounded-exhaustive lock-step exploration, DESIGN.md section 3)"})
m = {
    "version": 1,
    "setup_cmd": "/verif/check --build",
    "hooks": {
        "guard": "cgmath_verif",
        "enable": "no hooks are needed: the harness links /repo's working tree as a cargo path dependency (features swizzle, serde, mint) and uses only its public API",
        "baseline_off_cmd": "cd /repo && cargo test --workspace --no-fail-fast --offline",
        "source_commits": [],
        "add_only": True,
    },
    "engines": [{
        "name": "mc",
        "path": "/verif/mc",
        "serves_properties": [c["property_id"] for c in checks],
        "kind_free_text": "own explicit-state engines (E1 exhaustive enumeration of indexed finite spaces incl. deviation-bounded ones; E2 level-synchronous BFS over operation chains); every transition calls the real cgmath function, monomorphised at an exact rational scalar (Ex) and at f64/f32/integers, in lock-step with an independent array model",
    }],
    "checks": checks,
    "not_applicable": na,
    "notes": "All checks rebuild their binary from /repo's current working tree (cargo path dependency via the committed symlink mc/subject -> /repo). Exit 0 = held on everything explored, 1 = VIOLATION line(s), 2 = machinery error (harness build failure, vacuity guard, engine fault). Known/fixed genuine defects: /verif/known_findings.json (five, each repaired by one unguarded `fix:` commit in /repo: e771f0a Angle::bisect, bedce0d InnerSpace::angle NaN, 8dfab34 Basis2::between_vectors, 1882b2b Quaternion::from_arc tolerance, ce0f648 Quaternion::from_arc default axis). The subject build is keyed on a content hash of /repo's Cargo.toml, build.rs and src/ (not on mtimes).",
}
json.dump(m, open(f"{V}/MANIFEST.json", "w"), indent=1)
print(f"{len(checks)} checks, {len(na)} not yet claimed")
