#!/usr/bin/env python3
"""Confirm a seeded change independently and file it under /verif/seeded/<id>/.

usage: verify_seed.py <PROPERTY> <seed-name> <dir with patch.diff, seed_demo.rs, notes.md> [cargo feature flags for the demo]

In a scratch copy of /repo (outside /repo and /verif):
  1. the patch applies to /repo's HEAD and the crate builds;
  2. the repository's own suite (cargo test --workspace --no-fail-fast --offline) still passes with it;
  3. the demonstration fails with the patch and passes without it.
Only then is the seed copied to /verif/seeded/<name>/ with a meta.json recording what was run.
"""
import json, os, shutil, subprocess, sys, time
prop, name, src = sys.argv[1], sys.argv[2], sys.argv[3]
feat = sys.argv[4:]
S = f"/var/tmp/seedchk-{name}"
def sh(cmd, cwd=None):
    return subprocess.run(cmd, shell=True, text=True, capture_output=True, cwd=cwd)
shutil.rmtree(S, ignore_errors=True)
os.makedirs(S)
sh(f"git -C /repo archive HEAD | tar -x -C {S}")
env = f"CARGO_TARGET_DIR={S}/target CARGO_NET_OFFLINE=true"
log = []
r = sh(f"patch -p1 < {src}/patch.diff", cwd=S)
log.append({"step": "apply patch to /repo HEAD", "ok": r.returncode == 0})
if r.returncode != 0:
    print("PATCH DOES NOT APPLY", r.stdout[-400:]); sys.exit(1)
r = sh(f"{env} cargo test --workspace --no-fail-fast --offline 2>&1 | grep -E '^test result|error(\\[|:)'", cwd=S)
passed = sum(int(l.split("ok. ")[1].split(" passed")[0]) for l in r.stdout.splitlines() if l.startswith("test result: ok."))
failed = [l for l in r.stdout.splitlines() if "FAILED" in l or l.startswith("error")]
log.append({"step": "repository suite with the change", "cmd": "cargo test --workspace --no-fail-fast --offline", "passed": passed, "failed_lines": failed[:5]})
suite_ok = passed >= 270 and not failed
shutil.copy(f"{src}/seed_demo.rs", f"{S}/tests/seed_demo.rs")
fl = " ".join(feat)
r = sh(f"{env} cargo test --offline {fl} --test seed_demo 2>&1 | tail -15", cwd=S)
demo_fails_with = "test result: FAILED" in r.stdout or "panicked" in r.stdout or "error: test failed" in r.stdout or "error[" in r.stdout
log.append({"step": "demonstration with the change", "cmd": f"cargo test --offline {fl} --test seed_demo", "fails": demo_fails_with, "tail": r.stdout[-300:]})
r = sh(f"patch -R -p1 < {src}/patch.diff", cwd=S)
r = sh(f"{env} cargo test --offline {fl} --test seed_demo 2>&1 | tail -6", cwd=S)
demo_passes_without = "test result: ok." in r.stdout and "FAILED" not in r.stdout
log.append({"step": "demonstration without the change", "passes": demo_passes_without, "tail": r.stdout[-200:]})
ok = suite_ok and demo_fails_with and demo_passes_without
print(json.dumps(log, indent=1))
shutil.rmtree(S, ignore_errors=True)
if not ok:
    print("NOT CONFIRMED"); sys.exit(1)
V = os.path.dirname(os.path.dirname(os.path.abspath(__file__)))
dst = f"{V}/seeded/{name}"
os.makedirs(dst, exist_ok=True)
for f in ("patch.diff", "seed_demo.rs", "notes.md"):
    shutil.copy(f"{src}/{f}", f"{dst}/{f}")
notes = open(f"{src}/notes.md").read()
meta = {"property": prop, "name": name, "origin": "independent sub-agent given only the property text and a scratch worktree of /repo",
        "needs_to_manifest": "see notes.md", "demo_features": feat, "confirmed_on": time.strftime("%Y-%m-%d"),
        "confirmation": log}
json.dump(meta, open(f"{dst}/meta.json", "w"), indent=1)
print("CONFIRMED ->", dst)
