//! C12 — points are an affine space over vectors; homogeneous coordinates.
use cgmath::EuclideanSpace;
use mc_props::*;

const P: &str = "C12";
fn key(s: &str) -> String {
    format!("{P}/{s}")
}
fn letters<D: Dom>() -> Vec<R> {
    if D::INTEGER {
        if D::SIGNED {
            (-3..=3).map(|i| (i, 1)).collect()
        } else {
            (0..=3).map(|i| (i, 1)).collect()
        }
    } else {
        alphabet::A1.to_vec()
    }
}
fn base<D: Dom>(n: usize, variant: usize) -> Vec<R> {
    if D::INTEGER {
        let pool: [i64; 7] = if D::SIGNED { [2, -3, 1, -2, 3, -1, 2] } else { [2, 3, 1, 2, 3, 1, 2] };
        (0..n).map(|i| (pool[(i * (variant + 1) + variant) % 7], 1)).collect()
    } else {
        alphabet::generic(n, variant)
    }
}
/// operands no detour through another number type survives (as in C03): integers whose products need nearly the full
/// width of the type, non-dyadic fractions elsewhere (every float operation on them rounds)
fn wide<D: Dom>(n: usize, variant: usize) -> Vec<R> {
    let half_bits: i64 = match D::NAME {
        "i8" | "u8" => 3,
        "i16" | "u16" => 6,
        "i32" | "u32" => 13,
        "i64" | "u64" | "isize" | "usize" => 28,
        _ => 0,
    };
    if D::INTEGER {
        let b = 1i64 << half_bits;
        let pool: [i64; 7] = [b + 1, -(b + 3), b - 1, -(b - 3), b / 2 + 1, -(b / 2 + 3), b + 5];
        (0..n).map(|i| { let x = pool[(i * (variant + 2) + variant + i / 7) % 7]; (if D::SIGNED { x } else { x.abs() }, 1) }).collect()
    } else {
        let dens: [i64; 5] = [3, 7, 9, 11, 13];
        alphabet::generic(n, variant).iter().enumerate().map(|(i, r)| (r.0, r.1 * dens[(i + variant) % 5])).collect()
    }
}
fn cmp<D: Dom, const N: usize>(ctx: &mut Ctx, k: &str, got: [D; N], exp: [D::M; N]) {
    if exp.iter().all(|m| D::representable(*m)) {
        eq_v::<D, N>(ctx, &key(k), got, exp);
    } else {
        ctx.branch("overflow-not-judged");
    }
}
fn same<D: Dom, const N: usize>(ctx: &mut Ctx, k: &str, got: [D; N], exp: [D; N]) {
    same_slice(ctx, &key(k), &got, &exp);
}

macro_rules! point_systems {
    ($fname:ident, $Pt:ident, $Vc:ident, $n:expr, $mkp:ident, $pa:ident, $mkv:ident, $va:ident) => {
        fn $fname<D: Dom>(rep: &mut Report) {
            const N: usize = $n;
            let l = letters::<D>();
            // slots: p, q, v, w, a
            let slots = 4 * N + 1;
            let k = rep.pick(2, 3);
            let dev = DevSpace::new(slots, l.len(), k);
            let a0: Vec<R> = if D::SIGNED { alphabet::A0.to_vec() } else { vec![(0, 1), (1, 1), (2, 1)] };
            let dims: Vec<usize> = vec![a0.len(); 4 * N];
            let full = alphabet::product_len(&dims) <= 10_000 || rep.thorough();
            let sp = SparseSpace::new(4 * N, 3, D::SIGNED);
            let n1 = if full { alphabet::product_len(&dims) } else { sp.len() };
            let nb = 3;
            rep.cases(
                concat!("affine/", stringify!($Pt)),
                D::NAME,
                &format!("(p,q,v,w): {}; 3 bases (p,q,v,w,a) x <= {k} deviations over {} letters; 6 sets of wide integers resp. non-dyadic fractions", if full { format!("all over {}^{}", a0.len(), 4 * N) } else { "all 0/+-1 with support <= 3".to_string() }, l.len()),
                n1 + nb * dev.len() + 6,
                Guard::states(50).distinct(20),
                |i, ctx| {
                    let r: Vec<R> = if i >= n1 + nb * dev.len() {
                        // six operand sets of wide integers / non-dyadic fractions
                        let j = i - n1 - nb * dev.len();
                        let mut r = wide::<D>(4 * N, j);
                        r.push([(2, 1), (3, 1), (5, 2)][j % 3]);
                        if D::INTEGER { let last = r.len() - 1; r[last] = [(2, 1), (3, 1), (5, 1)][j % 3]; }
                        r
                    } else if i < n1 {
                        let mut r: Vec<R> = if full {
                            alphabet::decode(i, &dims).iter().map(|&j| a0[j]).collect()
                        } else {
                            sp.get(i).iter().map(|&b| (b, 1)).collect()
                        };
                        r.push((2, 1));
                        r
                    } else {
                        let j = i - n1;
                        deviate(&base::<D>(slots, j / dev.len()), &dev.get(j % dev.len()), &l)
                    };
                    let p: [D; N] = vec_from_r(&r[0..N]);
                    let q: [D; N] = vec_from_r(&r[N..2 * N]);
                    let v: [D; N] = vec_from_r(&r[2 * N..3 * N]);
                    let w: [D; N] = vec_from_r(&r[3 * N..4 * N]);
                    let a: D = rq(r[4 * N]);
                    ctx.describe(|| format!("{}<{}> p={:?} q={:?} v={:?} w={:?} a={:?}", stringify!($Pt), D::NAME, p, q, v, w, a));
                    ctx.out(&r);
                    let (mp, mq, mv, mw) = (lift_v(p), lift_v(q), lift_v(v), lift_v(w));
                    let (cp, cq, cv, cw) = ($mkp(p), $mkp(q), $mkv(v), $mkv(w));
                    let zip = |x: [D; N], y: [D; N], f: &dyn Fn(D, D) -> D| -> [D; N] { std::array::from_fn(|i| f(x[i], y[i])) };
                    let map = |x: [D; N], f: &dyn Fn(D) -> D| -> [D; N] { std::array::from_fn(|i| f(x[i])) };
                    let ge = |x: [D; N], y: [D; N]| D::SIGNED || (0..N).all(|i| x[i] >= y[i]);
                    // point + vector, point - vector, point - point
                    cmp::<D, N>(ctx, "add_vector", $pa(cp + cv), model::vadd(mp, mv));
                    same::<D, N>(ctx, "add_vector", $pa(cp + cv), zip(p, v, &|x, y| x + y));
                    if ge(p, v) {
                        cmp::<D, N>(ctx, "sub_vector", $pa(cp - cv), model::vsub(mp, mv));
                        same::<D, N>(ctx, "sub_vector", $pa(cp - cv), zip(p, v, &|x, y| x - y));
                        let mut t = cp;
                        t -= cv;
                        same::<D, N>(ctx, "sub_assign", $pa(t), zip(p, v, &|x, y| x - y));
                    }
                    if ge(q, p) {
                        cmp::<D, N>(ctx, "sub_point", $va(cq - cp), model::vsub(mq, mp));
                        // p + (q - p) = q
                        // (an equation of numbers where the arithmetic is exact; closeness where every operation rounds)
                        if D::EXACT || D::INTEGER {
                            same::<D, N>(ctx, "law/p+(q-p)=q", $pa(cp + (cq - cp)), q);
                        } else {
                            cmp::<D, N>(ctx, "law/p+(q-p)=q", $pa(cp + (cq - cp)), model::vadd(mp, model::vsub(mq, mp)));
                        }
                    }
                    let mut t = cp;
                    t += cv;
                    same::<D, N>(ctx, "add_assign", $pa(t), zip(p, v, &|x, y| x + y));
                    // (p + v) - p = v ; (p + v) + w = p + (v + w)
                    if D::EXACT {
                        let pv = cp + cv;
                        if !D::INTEGER || model::vadd(mp, mv).iter().all(|m| D::representable(*m)) {
                            same::<D, N>(ctx, "law/(p+v)-p=v", $va(pv - cp), v);
                        }
                    } else {
                        cmp::<D, N>(ctx, "law/(p+v)-p=v", $va((cp + cv) - cp), model::vsub(model::vadd(mp, mv), mp));
                    }
                    cmp::<D, N>(ctx, "law/assoc", $pa((cp + cv) + cw), model::vadd(mp, model::vadd(mv, mw)));
                    cmp::<D, N>(ctx, "law/assoc", $pa(cp + (cv + cw)), model::vadd(mp, model::vadd(mv, mw)));
                    // to_vec / from_vec / origin
                    same::<D, N>(ctx, "to_vec", $va(cp.to_vec()), p);
                    same::<D, N>(ctx, "from_vec", $pa($Pt::from_vec(cv)), v);
                    same::<D, N>(ctx, "origin", $va($Pt::<D>::origin().to_vec()), [D::zero(); N]);
                    same::<D, N>(ctx, "origin", $pa($Pt::<D>::origin() + cv), v);
                    // scalar operations, component by component
                    same::<D, N>(ctx, "mul_scalar", $pa(cp * a), map(p, &|x| x * a));
                    let mut t = cp;
                    t *= a;
                    same::<D, N>(ctx, "mul_assign", $pa(t), map(p, &|x| x * a));
                    if !a.is_zero() {
                        same::<D, N>(ctx, "div_scalar", $pa(cp / a), map(p, &|x| x / a));
                        same::<D, N>(ctx, "rem_scalar", $pa(cp % a), map(p, &|x| x % a));
                        let mut t = cp;
                        t /= a;
                        same::<D, N>(ctx, "div_assign", $pa(t), map(p, &|x| x / a));
                        let mut t = cp;
                        t %= a;
                        same::<D, N>(ctx, "rem_assign", $pa(t), map(p, &|x| x % a));
                    }
                    // element-wise, point and scalar right-hand sides
                    same::<D, N>(ctx, "add_element_wise", $pa(cp.add_element_wise(cq)), zip(p, q, &|x, y| x + y));
                    same::<D, N>(ctx, "mul_element_wise", $pa(cp.mul_element_wise(cq)), zip(p, q, &|x, y| x * y));
                    same::<D, N>(ctx, "add_element_wise/scalar", $pa(cp.add_element_wise(a)), map(p, &|x| x + a));
                    same::<D, N>(ctx, "mul_element_wise/scalar", $pa(cp.mul_element_wise(a)), map(p, &|x| x * a));
                    let mut t = cp;
                    t.add_assign_element_wise(cq);
                    same::<D, N>(ctx, "add_assign_element_wise", $pa(t), zip(p, q, &|x, y| x + y));
                    let mut t = cp;
                    t.mul_assign_element_wise(cq);
                    same::<D, N>(ctx, "mul_assign_element_wise", $pa(t), zip(p, q, &|x, y| x * y));
                    let mut t = cp;
                    t.add_assign_element_wise(a);
                    same::<D, N>(ctx, "add_assign_element_wise/scalar", $pa(t), map(p, &|x| x + a));
                    let mut t = cp;
                    t.mul_assign_element_wise(a);
                    same::<D, N>(ctx, "mul_assign_element_wise/scalar", $pa(t), map(p, &|x| x * a));
                    if ge(p, q) {
                        same::<D, N>(ctx, "sub_element_wise", $pa(cp.sub_element_wise(cq)), zip(p, q, &|x, y| x - y));
                        let mut t = cp;
                        t.sub_assign_element_wise(cq);
                        same::<D, N>(ctx, "sub_assign_element_wise", $pa(t), zip(p, q, &|x, y| x - y));
                    }
                    if D::SIGNED || p.iter().all(|x| *x >= a) {
                        same::<D, N>(ctx, "sub_element_wise/scalar", $pa(cp.sub_element_wise(a)), map(p, &|x| x - a));
                        let mut t = cp;
                        t.sub_assign_element_wise(a);
                        same::<D, N>(ctx, "sub_assign_element_wise/scalar", $pa(t), map(p, &|x| x - a));
                    }
                    if q.iter().all(|x| !x.is_zero()) {
                        same::<D, N>(ctx, "div_element_wise", $pa(cp.div_element_wise(cq)), zip(p, q, &|x, y| x / y));
                        same::<D, N>(ctx, "rem_element_wise", $pa(cp.rem_element_wise(cq)), zip(p, q, &|x, y| x % y));
                        let mut t = cp;
                        t.div_assign_element_wise(cq);
                        same::<D, N>(ctx, "div_assign_element_wise", $pa(t), zip(p, q, &|x, y| x / y));
                        let mut t = cp;
                        t.rem_assign_element_wise(cq);
                        same::<D, N>(ctx, "rem_assign_element_wise", $pa(t), zip(p, q, &|x, y| x % y));
                    }
                    if !a.is_zero() {
                        same::<D, N>(ctx, "div_element_wise/scalar", $pa(cp.div_element_wise(a)), map(p, &|x| x / a));
                        same::<D, N>(ctx, "rem_element_wise/scalar", $pa(cp.rem_element_wise(a)), map(p, &|x| x % a));
                        let mut t = cp;
                        t.div_assign_element_wise(a);
                        same::<D, N>(ctx, "div_assign_element_wise/scalar", $pa(t), map(p, &|x| x / a));
                        let mut t = cp;
                        t.rem_assign_element_wise(a);
                        same::<D, N>(ctx, "rem_assign_element_wise/scalar", $pa(t), map(p, &|x| x % a));
                    }
                    // point . vector
                    let md = model::vdot(mp, mv);
                    if D::representable(md) {
                        eq_s::<D>(ctx, &key("dot"), EuclideanSpace::dot(cp, cv), md);
                    }
                    // midpoint(p, q) = p + (q - p)/2
                    // (an equation of numbers over the exact field; over the integers - not a field - where the midpoint is
                    // an integer, so that no rounding direction is demanded; closeness where every operation rounds)
                    let two = D::one() + D::one();
                    let even = (0..N).all(|i| ((q[i].f() - p[i].f()) / 2.0).fract() == 0.0);
                    if ge(q, p) {
                        if !D::INTEGER && D::EXACT || D::INTEGER && even {
                            same::<D, N>(ctx, "midpoint", $pa(cp.midpoint(cq)), zip(p, q, &|x, y| x + (y - x) / two));
                        }
                        if !D::INTEGER {
                            let half = model::vadd(mp, model::vdiv(model::vsub(mq, mp), D::M::int(2)));
                            cmp::<D, N>(ctx, "midpoint", $pa(cp.midpoint(cq)), half);
                        }
                    }
                },
            );
            // integers next to the ends of the type's range: the midpoint is representable although p + q is not
            if D::INTEGER {
                let bits = (1..=63).rev().find(|k| D::from_r((((1i128 << k) - 1) as i64, 1)).is_some()).unwrap();
                let m = ((1i128 << bits) - 1) as i64;
                let mut pool: Vec<i64> = vec![m, m - 2, m - 5, m - 10, m - 11];
                if D::SIGNED {
                    pool.extend([-m - 1, -m + 1, -m + 4, -m + 9, -m + 10]);
                }
                let np = pool.len();
                rep.cases(
                    concat!("midpoint/near-limits/", stringify!($Pt)),
                    D::NAME,
                    &format!("p, q with components from {:?} (pairs on the same side of zero, q >= p, q - p even)", pool),
                    np * np,
                    Guard::states(10).need("judged", 4),
                    |i, ctx| {
                        let (a, b) = (i / np, i % np);
                        let pr: [i64; N] = std::array::from_fn(|j| pool[(a + j) % 5 + 5 * (a / 5)]);
                        let qr: [i64; N] = std::array::from_fn(|j| pool[(b + j) % 5 + 5 * (b / 5)]);
                        ctx.out(&(pr, qr));
                        if a / 5 != b / 5 || (0..N).any(|j| qr[j] < pr[j] || (qr[j] - pr[j]) % 2 != 0) {
                            ctx.skip("other-side-or-odd");
                            return;
                        }
                        ctx.branch("judged");
                        let p: [D; N] = std::array::from_fn(|j| D::from_r((pr[j], 1)).unwrap());
                        let q: [D; N] = std::array::from_fn(|j| D::from_r((qr[j], 1)).unwrap());
                        ctx.describe(|| format!("{}<{}> p={:?} q={:?}", stringify!($Pt), D::NAME, p, q));
                        let want: [D; N] = std::array::from_fn(|j| D::from_r((pr[j] + (qr[j] - pr[j]) / 2, 1)).unwrap());
                        same::<D, N>(ctx, "midpoint/near-limits", $pa($mkp(p).midpoint($mkp(q))), want);
                    },
                );
            }
            // centroid of every list of length 1..=4 over a 4-point alphabet
            let pts: Vec<[D; N]> = (0..4).map(|j| vec_from_r::<D, N>(&base::<D>(N, j))).collect();
            // the same alphabet far from the origin (float tiers: 2^20 away in every coordinate), for the long lists: many
            // points *and* large coordinates
            let far: Vec<[D; N]> = pts.iter().map(|p| p.map(|x| if D::INTEGER || D::EXACT { x } else { x + rq::<D>((1 << 20, 1)) })).collect();
            let mut lists: Vec<Vec<usize>> = Vec::new();
            for len in 1..=4usize {
                for idx in 0..4usize.pow(len as u32) {
                    lists.push(alphabet::decode(idx, &vec![4; len]));
                }
            }
            // longer lists (a summation in blocks, a path that starts at some length): 40 lists of length 5..12
            for len in 5..=12usize {
                for v in 0..5usize {
                    lists.push((0..len).map(|j| (j * (v + 1) + v + j / 3) % 4).collect());
                }
            }
            // every length up to 160 (thorough: 700), two arrangements each: an implementation that sums in blocks, in
            // pairs or with a compensation has its seams somewhere (a block of 64: first wrong at 65)
            let longest = rep.pick(160, 700);
            for len in 13..=longest {
                for v in 0..2usize {
                    lists.push((0..len).map(|j| (j * (2 * v + 1) + v + j / 5) % 4).collect());
                }
            }
            // ... and a few lengths around and beyond 2^14 (a block size of a chunked summation; a remainder forgotten)
            for len in [16383usize, 16384, 16385, 20000, 32769, 65537] {
                lists.push((0..len).map(|j| (j * 3 + j / 7) % 4).collect());
            }
            rep.cases(
                concat!("centroid/", stringify!($Pt)),
                D::NAME,
                "every list of length 1..4 over a 4-point alphabet (340 lists), 40 lists of length 5..12 and two lists of every length 13..160 (thorough: ..700)",
                lists.len(),
                Guard::states(340).distinct(20),
                |i, ctx| {
                    let pts = if lists[i].len() > 12 && lists[i].len() % 3 == 0 { &far } else { &pts };
                    let list: Vec<$Pt<D>> = lists[i].iter().map(|&j| $mkp(pts[j])).collect();
                    if D::from_r((list.len() as i64, 1)).is_none() {
                        ctx.skip("the scalar type cannot hold n");
                        return;
                    }
                    ctx.describe(|| format!("centroid of {} points {:?} ...", list.len(), &list[..list.len().min(16)]));
                    ctx.out(&lists[i]);
                    let got = $pa($Pt::centroid(&list));
                    let n = list.len();
                    let mut sum = [D::M::zero(); N];
                    for &j in &lists[i] {
                        sum = model::vadd(sum, lift_v(pts[j]));
                    }
                    if D::INTEGER {
                        // not a field: the mean where it is an integer, else one of its two neighbours (no rounding
                        // direction is stated)
                        if sum.iter().all(|m| D::representable(*m)) {
                            ctx.t();
                            let ok = (0..N).all(|c| ((got[c].f() - sum[c].approx() / n as f64).abs() < 1.0) && (sum[c].approx() % n as f64 != 0.0 || got[c].f() * n as f64 == sum[c].approx()));
                            if !ok {
                                ctx.fail(&key("centroid"), || format!("centroid = {:?}, sum of the position vectors = {:?}, n = {n}", got, sum));
                            }
                        }
                    } else {
                        cmp::<D, N>(ctx, "centroid", got, model::vdiv(sum, D::M::int(n as i64)));
                    }
                },
            );
        }
    };
}
point_systems!(points1, Point1, Vector1, 1, mk_p1, p1, mk_v1, v1);
point_systems!(points2, Point2, Vector2, 2, mk_p2, p2, mk_v2, v2);
point_systems!(points3, Point3, Vector3, 3, mk_p3, p3, mk_v3, v3);

fn homogeneous<D: Dom>(rep: &mut Report) {
    let ks: Vec<R> = if D::INTEGER {
        if D::SIGNED {
            vec![(1, 1), (-1, 1)]
        } else {
            vec![(1, 1)]
        }
    } else {
        // ... and a ladder of tiny and huge homogeneous factors: a cut-off on |w| ("w is numerically zero") shows there
        vec![(-3, 1), (-1, 2), (1, 3), (2, 1), (7, 1), (1, 1), (1, 1 << 12), (-1, 1 << 24), (1, 1 << 40), (1 << 24, 1), (-3, 1 << 30)]
    };
    let l = letters::<D>();
    let dims: Vec<usize> = vec![l.len(); 3];
    let n1 = alphabet::product_len(&dims);
    let total = (n1 + 3) * ks.len();
    rep.cases(
        "homogeneous/Point3",
        D::NAME,
        &format!("all points over {}^3 and 3 generic ones x {} scale factors k", l.len(), ks.len()),
        total,
        Guard::states(20).distinct(10),
        |i, ctx| {
            let (pi, ki) = (i / ks.len(), i % ks.len());
            let r: Vec<R> = if pi < n1 { alphabet::decode(pi, &dims).iter().map(|&j| l[j]).collect() } else { base::<D>(3, pi - n1) };
            let p: [D; 3] = vec_from_r(&r);
            let k: D = rq(ks[ki]);
            ctx.describe(|| format!("Point3<{}> p={:?} k={:?}", D::NAME, p, k));
            ctx.out(&(r.clone(), ki));
            let cp = mk_p3(p);
            let h = cp.to_homogeneous();
            same_slice(ctx, &key("to_homogeneous"), &v4(h), &[p[0], p[1], p[2], D::one()]);
            let mh: [D::M; 4] = lift_v(v4(h * k));
            if !mh.iter().all(|m| D::representable(*m)) {
                return;
            }
            let back = p3(Point3::from_homogeneous(h * k));
            if D::EXACT {
                same_slice(ctx, &key("from_homogeneous"), &back, &p);
            } else {
                // (k p_i) * (1 / k): model with running error
                let inv = D::M::one() / mh[3];
                let exp: [D::M; 3] = std::array::from_fn(|j| lift_v(p)[j].with_err_of(mh[j] * inv));
                eq_v::<D, 3>(ctx, &key("from_homogeneous"), back, exp);
            }
        },
    );
}

fn all<D: Dom>(rep: &mut Report) {
    points1::<D>(rep);
    points2::<D>(rep);
    points3::<D>(rep);
    homogeneous::<D>(rep);
}

fn main() {
    let mut rep = Report::from_args(P);
    rep.assume("integer tiers: small alphabets; subtraction cases that would underflow an unsigned type and results that do not fit the type are not judged; from_homogeneous is judged for k = +-1 only (1/k must exist in the scalar type)");
    for_all_doms!(all, &mut rep);
    std::process::exit(rep.finish());
}
