//! C08 — transforms compose, invert and convert to matrices consistently.
use cgmath::{One, Rotation2, SquareMatrix, Transform};
use mc_props::*;

const P: &str = "C08";
fn key(s: &str) -> String {
    format!("{P}/{s}")
}
type H<F> = [[F; 4]; 4];

/// One of the six transform configurations, seen through its public API, with a model
/// (homogeneous 4x4 matrix over the model field, built from the value's *components*).
trait Cfg<T: Tier>: 'static {
    type Tr: Copy + Send + Sync + std::fmt::Debug;
    const NAME: &'static str;
    const DIM: usize;
    const DECOMPOSED: bool;
    fn gens(float: bool) -> Vec<Self::Tr>;
    /// float tiers: an element that differs from one() by about `d` in every free component - what an approximate
    /// "is this the identity?" test ignores
    fn near_one(d: f64) -> Self::Tr;
    fn comps(t: &Self::Tr) -> Vec<T>;
    fn h(t: &Self::Tr) -> H<T::M>;
    /// how far the rotation part is from a unit rotation (float tiers), 0 for matrices
    fn defect(_t: &Self::Tr) -> f64 {
        0.0
    }
    fn one() -> Self::Tr;
    fn concat(a: &Self::Tr, b: &Self::Tr) -> Self::Tr;
    fn concat_self(a: &Self::Tr, b: &Self::Tr) -> Self::Tr;
    fn mul(_a: &Self::Tr, _b: &Self::Tr) -> Option<Self::Tr> {
        None
    }
    fn inv(a: &Self::Tr) -> Option<Self::Tr>;
    fn tp(a: &Self::Tr, p: [T; 3]) -> [T; 3];
    fn tv(a: &Self::Tr, v: [T; 3]) -> [T; 3];
    fn inv_tv(a: &Self::Tr, v: [T; 3]) -> Option<[T; 3]>;
    /// cgmath's own conversion to a matrix (Decomposed only), embedded in 4x4
    fn to_matrix(_a: &Self::Tr) -> Option<[[T; 4]; 4]> {
        None
    }
    /// the statement's exact non-invertibility condition: zero scale / zero determinant
    fn degenerate(a: &Self::Tr) -> bool;
    fn scale(_a: &Self::Tr) -> Option<T> {
        None
    }
}

fn embed3<F: Field>(m: [[F; 3]; 3]) -> H<F> {
    model::embed::<F, 3, 4>(m)
}
/// 2-D homogeneous 3x3 (linear 2x2 + translation column) as a 4x4 acting on (x, y, 0, 1)
fn embed_h2<F: Field>(m: [[F; 3]; 3]) -> H<F> {
    let mut h = model::mident::<F, 4>();
    h[0][0] = m[0][0];
    h[0][1] = m[0][1];
    h[1][0] = m[1][0];
    h[1][1] = m[1][1];
    h[3][0] = m[2][0];
    h[3][1] = m[2][1];
    // a general 3x3 may also have a projective row; keep it so that nothing is dropped
    h[0][3] = m[0][2];
    h[1][3] = m[1][2];
    h[3][3] = m[2][2];
    h
}
fn dec_h<F: Field>(s: F, r: [[F; 3]; 3], d: [F; 3]) -> H<F> {
    let mut h = embed3(model::mscale(r, s));
    h[3] = [d[0], d[1], d[2], F::one()];
    h
}

fn rot_gens_q<T: Tier>() -> Vec<[T; 4]> {
    let all = alphabet::uq(0);
    all.iter().filter(|(_, d)| *d != 1).step_by(all.len() / 4).take(4).map(|(q, d)| std::array::from_fn(|j| T::q(q[j], *d))).collect()
}
fn scales<T: Tier>(float: bool) -> Vec<T> {
    if float {
        // 1.01e-6: just above the 1e-6 below which the statement leaves the inverse open; -0.0: a zero scale factor too
        [0.0, 1e-5, -1e-5, 0.3, -0.3, 2.0, -2.0, 1e3, 1.01e-6, -0.0].iter().map(|x| num_traits::cast::<f64, T>(*x).unwrap()).collect()
    } else {
        vec![T::int(1), T::int(2), T::q(1, 2), T::q(-3, 2), T::int(0)]
    }
}
fn disps<T: Tier>() -> Vec<[T; 3]> {
    let mut d: Vec<[T; 3]> = (0..3).map(|v| vec_from_r::<T, 3>(&alphabet::generic(3, v))).collect();
    // a far displacement (with the small rotations and scales among the generators: two extremes in one composition)
    d.push(vec_from_r::<T, 3>(&alphabet::generic(3, 3).iter().map(|r| (r.0 << 12, r.1)).collect::<Vec<_>>()));
    d
}

// ---- Decomposed<Vector3, Quaternion>
struct DQ;
impl<T: Tier> Cfg<T> for DQ {
    type Tr = Decomposed<Vector3<T>, Quaternion<T>>;
    const NAME: &'static str = "Decomposed<Vector3,Quaternion>";
    const DIM: usize = 3;
    const DECOMPOSED: bool = true;
    fn gens(float: bool) -> Vec<Self::Tr> {
        let (qs, ss, ds) = (rot_gens_q::<T>(), scales::<T>(float), disps::<T>());
        (0..ss.len().max(qs.len())).map(|i| Decomposed { scale: ss[i % ss.len()], rot: mk_q(qs[i % qs.len()]), disp: mk_v3(ds[i % ds.len()]) }).collect()
    }
    fn near_one(d: f64) -> Self::Tr {
        let c = |x: f64| num_traits::cast::<f64, T>(x).unwrap();
        Decomposed { scale: c(1.0 + 1.5 * d), rot: mk_q([T::one(), c(0.5 * d), c(-0.25 * d), c(d)]), disp: mk_v3([c(2.0 * d), c(-d), c(3.0 * d)]) }
    }
    fn comps(t: &Self::Tr) -> Vec<T> {
        let mut v = vec![t.scale];
        v.extend(qa(t.rot));
        v.extend(v3(t.disp));
        v
    }
    fn h(t: &Self::Tr) -> H<T::M> {
        dec_h(t.scale.lift(), model::qmat(lift_v(qa(t.rot))), lift_v(v3(t.disp)))
    }
    fn defect(t: &Self::Tr) -> f64 {
        (model::qnorm2(lift_v(qa(t.rot))).approx() - 1.0).abs()
    }
    fn one() -> Self::Tr {
        One::one()
    }
    fn concat(a: &Self::Tr, b: &Self::Tr) -> Self::Tr {
        a.concat(b)
    }
    fn concat_self(a: &Self::Tr, b: &Self::Tr) -> Self::Tr {
        let mut t = *a;
        t.concat_self(b);
        t
    }
    fn mul(a: &Self::Tr, b: &Self::Tr) -> Option<Self::Tr> {
        Some(*a * *b)
    }
    fn inv(a: &Self::Tr) -> Option<Self::Tr> {
        a.inverse_transform()
    }
    fn tp(a: &Self::Tr, p: [T; 3]) -> [T; 3] {
        p3(a.transform_point(mk_p3(p)))
    }
    fn tv(a: &Self::Tr, v: [T; 3]) -> [T; 3] {
        v3(a.transform_vector(mk_v3(v)))
    }
    fn inv_tv(a: &Self::Tr, v: [T; 3]) -> Option<[T; 3]> {
        a.inverse_transform_vector(mk_v3(v)).map(v3)
    }
    fn to_matrix(a: &Self::Tr) -> Option<[[T; 4]; 4]> {
        Some(m4(Matrix4::from(*a)))
    }
    fn degenerate(a: &Self::Tr) -> bool {
        a.scale == T::zero()
    }
    fn scale(a: &Self::Tr) -> Option<T> {
        Some(a.scale)
    }
}
// ---- Decomposed<Vector3, Basis3>
struct DB3;
impl<T: Tier> Cfg<T> for DB3 {
    type Tr = Decomposed<Vector3<T>, Basis3<T>>;
    const NAME: &'static str = "Decomposed<Vector3,Basis3>";
    const DIM: usize = 3;
    const DECOMPOSED: bool = true;
    fn gens(float: bool) -> Vec<Self::Tr> {
        let (qs, ss, ds) = (rot_gens_q::<T>(), scales::<T>(float), disps::<T>());
        (0..ss.len().max(qs.len())).map(|i| Decomposed { scale: ss[i % ss.len()], rot: Basis3::from(mk_q(qs[i % qs.len()])), disp: mk_v3(ds[i % ds.len()]) }).collect()
    }
    fn near_one(d: f64) -> Self::Tr {
        let c = |x: f64| num_traits::cast::<f64, T>(x).unwrap();
        Decomposed { scale: c(1.0 + 1.5 * d), rot: Basis3::from(mk_q([T::one(), c(0.5 * d), c(-0.25 * d), c(d)])), disp: mk_v3([c(2.0 * d), c(-d), c(3.0 * d)]) }
    }
    fn comps(t: &Self::Tr) -> Vec<T> {
        let mut v = vec![t.scale];
        v.extend(flat_m(basis3_arr(t.rot)));
        v.extend(v3(t.disp));
        v
    }
    fn h(t: &Self::Tr) -> H<T::M> {
        dec_h(t.scale.lift(), lift_m(basis3_arr(t.rot)), lift_v(v3(t.disp)))
    }
    fn defect(t: &Self::Tr) -> f64 {
        let r = lift_m(basis3_arr(t.rot));
        let g = model::mmul(model::mtranspose(r), r);
        let id = model::mident::<T::M, 3>();
        (0..3).flat_map(|c| (0..3).map(move |rr| (c, rr))).map(|(c, rr)| (g[c][rr].approx() - id[c][rr].approx()).abs()).fold(0.0, f64::max)
    }
    fn one() -> Self::Tr {
        One::one()
    }
    fn concat(a: &Self::Tr, b: &Self::Tr) -> Self::Tr {
        a.concat(b)
    }
    fn concat_self(a: &Self::Tr, b: &Self::Tr) -> Self::Tr {
        let mut t = *a;
        t.concat_self(b);
        t
    }
    fn mul(a: &Self::Tr, b: &Self::Tr) -> Option<Self::Tr> {
        Some(*a * *b)
    }
    fn inv(a: &Self::Tr) -> Option<Self::Tr> {
        a.inverse_transform()
    }
    fn tp(a: &Self::Tr, p: [T; 3]) -> [T; 3] {
        p3(a.transform_point(mk_p3(p)))
    }
    fn tv(a: &Self::Tr, v: [T; 3]) -> [T; 3] {
        v3(a.transform_vector(mk_v3(v)))
    }
    fn inv_tv(a: &Self::Tr, v: [T; 3]) -> Option<[T; 3]> {
        a.inverse_transform_vector(mk_v3(v)).map(v3)
    }
    fn to_matrix(a: &Self::Tr) -> Option<[[T; 4]; 4]> {
        Some(m4(Matrix4::from(*a)))
    }
    fn degenerate(a: &Self::Tr) -> bool {
        a.scale == T::zero()
    }
    fn scale(a: &Self::Tr) -> Option<T> {
        Some(a.scale)
    }
}
// ---- Decomposed<Vector2, Basis2>
struct DB2;
impl<T: Tier> Cfg<T> for DB2 {
    type Tr = Decomposed<Vector2<T>, Basis2<T>>;
    const NAME: &'static str = "Decomposed<Vector2,Basis2>";
    const DIM: usize = 2;
    const DECOMPOSED: bool = true;
    fn gens(float: bool) -> Vec<Self::Tr> {
        let (ss, ds) = (scales::<T>(float), disps::<T>());
        // rotations: lattice codes in the exact tier (a lattice is selected by the caller), radians otherwise
        let angles: Vec<T> = if float { [0.7, -1.9, 2.6, 0.0].iter().map(|x| num_traits::cast::<f64, T>(*x).unwrap()).collect() } else { vec![T::int(1), T::int(-2), T::int(3), T::int(0)] };
        let mut g: Vec<Self::Tr> = (0..ss.len().max(angles.len()))
            .map(|i| Decomposed { scale: ss[i % ss.len()], rot: <Basis2<T> as Rotation2>::from_angle(Rad(angles[i % angles.len()])), disp: mk_v2([ds[i % ds.len()][0], ds[i % ds.len()][1]]) })
            .collect();
        // a Basis2 of determinant -1 (what look_at / look_at_stable build on one side of `up`): orthogonal, inverse = transpose,
        // but not its own adjugate
        g.push(Decomposed { scale: T::q(3, 2), rot: Basis2::look_at_stable(mk_v2([T::q(3, 5), T::q(4, 5)]), true), disp: mk_v2([ds[1][0], ds[1][1]]) });
        g
    }
    fn near_one(d: f64) -> Self::Tr {
        let c = |x: f64| num_traits::cast::<f64, T>(x).unwrap();
        Decomposed { scale: c(1.0 + 1.5 * d), rot: <Basis2<T> as Rotation2>::from_angle(Rad(c(d))), disp: mk_v2([c(2.0 * d), c(-d)]) }
    }
    fn comps(t: &Self::Tr) -> Vec<T> {
        let mut v = vec![t.scale];
        v.extend(flat_m(basis2_arr(t.rot)));
        v.extend(v2(t.disp));
        v
    }
    fn h(t: &Self::Tr) -> H<T::M> {
        let r2 = lift_m(basis2_arr(t.rot));
        let r3 = model::embed::<T::M, 2, 3>(r2);
        let d = lift_v(v2(t.disp));
        dec_h(t.scale.lift(), r3, [d[0], d[1], T::M::zero()]).tap2d(t.scale.lift())
    }
    fn defect(t: &Self::Tr) -> f64 {
        let r = lift_m(basis2_arr(t.rot));
        let g = model::mmul(model::mtranspose(r), r);
        ((g[0][0].approx() - 1.0).abs()).max(g[0][1].approx().abs()).max((g[1][1].approx() - 1.0).abs())
    }
    fn one() -> Self::Tr {
        One::one()
    }
    fn concat(a: &Self::Tr, b: &Self::Tr) -> Self::Tr {
        a.concat(b)
    }
    fn concat_self(a: &Self::Tr, b: &Self::Tr) -> Self::Tr {
        let mut t = *a;
        t.concat_self(b);
        t
    }
    fn mul(a: &Self::Tr, b: &Self::Tr) -> Option<Self::Tr> {
        Some(*a * *b)
    }
    fn inv(a: &Self::Tr) -> Option<Self::Tr> {
        a.inverse_transform()
    }
    fn tp(a: &Self::Tr, p: [T; 3]) -> [T; 3] {
        let r = p2(a.transform_point(mk_p2([p[0], p[1]])));
        [r[0], r[1], T::zero()]
    }
    fn tv(a: &Self::Tr, v: [T; 3]) -> [T; 3] {
        let r = v2(a.transform_vector(mk_v2([v[0], v[1]])));
        [r[0], r[1], T::zero()]
    }
    fn inv_tv(a: &Self::Tr, v: [T; 3]) -> Option<[T; 3]> {
        a.inverse_transform_vector(mk_v2([v[0], v[1]])).map(|r| [r.x, r.y, T::zero()])
    }
    fn to_matrix(a: &Self::Tr) -> Option<[[T; 4]; 4]> {
        let m: Matrix3<T> = Matrix3::from(*a);
        let l = m3(m);
        let mut h = [[T::zero(); 4]; 4];
        for i in 0..4 {
            h[i][i] = T::one();
        }
        h[0][0] = l[0][0];
        h[0][1] = l[0][1];
        h[1][0] = l[1][0];
        h[1][1] = l[1][1];
        h[3][0] = l[2][0];
        h[3][1] = l[2][1];
        h[0][3] = l[0][2];
        h[1][3] = l[1][2];
        h[3][3] = l[2][2];
        Some(h)
    }
    fn degenerate(a: &Self::Tr) -> bool {
        a.scale == T::zero()
    }
    fn scale(a: &Self::Tr) -> Option<T> {
        Some(a.scale)
    }
}
/// the 2-D model lives in the x-y plane: the z axis of the 4x4 is left as the identity
trait Tap2d<F> {
    fn tap2d(self, s: F) -> Self;
}
impl<F: Field> Tap2d<F> for H<F> {
    fn tap2d(mut self, _s: F) -> Self {
        self[2] = [F::zero(), F::zero(), F::one(), F::zero()];
        self
    }
}
// ---- Matrix4
struct M4C;
impl<T: Tier> Cfg<T> for M4C {
    type Tr = Matrix4<T>;
    const NAME: &'static str = "Matrix4";
    const DIM: usize = 3;
    const DECOMPOSED: bool = false;
    fn gens(float: bool) -> Vec<Self::Tr> {
        let rot: Matrix4<T> = Matrix4::from(mk_q(rot_gens_q::<T>()[1]));
        let d = disps::<T>();
        let mut shear = Matrix4::<T>::identity();
        shear.z.x = T::q(3, 2);
        let mut sing = Matrix4::from_nonuniform_scale(T::int(2), T::int(0), T::q(-1, 2));
        sing.w = mk_v4([d[1][0], d[1][1], d[1][2], T::one()]);
        // a projective matrix (bottom row not 0 0 0 1): points go through the homogeneous divide
        let mut proj = Matrix4::<T>::identity();
        proj.z.w = T::q(1, 4);
        proj.x.w = T::q(-1, 8);
        proj.w.w = T::int(2);
        let mut g = vec![
            Matrix4::from_translation(mk_v3(d[0])) * rot * Matrix4::from_scale(T::q(-3, 2)),
            shear,
            Matrix4::from_translation(mk_v3(d[2])) * Matrix4::from_nonuniform_scale(T::int(2), T::int(-1), T::q(1, 2)),
            sing,
            proj,
            // a rigid motion (scale 1) and a pure translation: the shapes a "rigid transform" fast path would test for
            Matrix4::from_translation(mk_v3(d[1])) * rot,
            Matrix4::from_translation(mk_v3(d[2])),
        ];
        if float {
            // determinant 2^-60: far below machine epsilon, not zero (pointless in the exact tier)
            g.push(Matrix4::from_scale(T::q(1, 1 << 20)));
        }
        g
    }
    fn near_one(d: f64) -> Self::Tr {
        let c = |x: f64| num_traits::cast::<f64, T>(x).unwrap();
        // affine: the bottom row stays 0 0 0 1
        let g: [[T; 4]; 4] = mat_from_r(&alphabet::generic(16, 2));
        mk_m4(std::array::from_fn(|cc| std::array::from_fn(|r| (if cc == r { T::one() } else { T::zero() }) + if r == 3 { T::zero() } else { c(d * g[cc][r].f() / 8.0) })))
    }
    fn comps(t: &Self::Tr) -> Vec<T> {
        flat_m(m4(*t))
    }
    fn h(t: &Self::Tr) -> H<T::M> {
        lift_m(m4(*t))
    }
    fn one() -> Self::Tr {
        One::one()
    }
    fn concat(a: &Self::Tr, b: &Self::Tr) -> Self::Tr {
        Transform::<Point3<T>>::concat(a, b)
    }
    fn concat_self(a: &Self::Tr, b: &Self::Tr) -> Self::Tr {
        let mut t = *a;
        Transform::<Point3<T>>::concat_self(&mut t, b);
        t
    }
    fn inv(a: &Self::Tr) -> Option<Self::Tr> {
        Transform::<Point3<T>>::inverse_transform(a)
    }
    fn tp(a: &Self::Tr, p: [T; 3]) -> [T; 3] {
        p3(Transform::<Point3<T>>::transform_point(a, mk_p3(p)))
    }
    fn tv(a: &Self::Tr, v: [T; 3]) -> [T; 3] {
        v3(Transform::<Point3<T>>::transform_vector(a, mk_v3(v)))
    }
    fn inv_tv(a: &Self::Tr, v: [T; 3]) -> Option<[T; 3]> {
        Transform::<Point3<T>>::inverse_transform_vector(a, mk_v3(v)).map(v3)
    }
    fn degenerate(a: &Self::Tr) -> bool {
        // float tiers: "zero determinant" is what determinant() itself reports (C02 decides the exact dichotomy)
        if T::EXACT {
            model::mdet(lift_m(m4(*a))).is_zero()
        } else {
            a.determinant() == T::zero()
        }
    }
}
// ---- Matrix3 as a 3-D linear transform
struct M3P3;
impl<T: Tier> Cfg<T> for M3P3 {
    type Tr = Matrix3<T>;
    const NAME: &'static str = "Matrix3<Point3>";
    const DIM: usize = 3;
    const DECOMPOSED: bool = false;
    fn gens(float: bool) -> Vec<Self::Tr> {
        let rot: Matrix3<T> = Matrix3::from(mk_q(rot_gens_q::<T>()[2]));
        let mut shear = Matrix3::<T>::identity();
        shear.z.x = T::q(3, 2);
        let g: Matrix3<T> = mk_m3(mat_from_r::<T, 3>(&alphabet::generic(9, 1)));
        let mut sing = g;
        sing.z = sing.x + sing.x;
        let mut g = vec![rot * T::q(-3, 2), shear, Matrix3::from_diagonal(mk_v3([T::int(2), T::int(-1), T::q(1, 2)])), sing, rot];
        if float {
            g.push(Matrix3::from_value(T::q(1, 1 << 20)));
            // singular whatever the rounding: a zero line (the other singular generator is "numerically zero, not judged" there)
            g.push(Matrix3::from_diagonal(mk_v3([T::int(2), T::int(0), T::q(-1, 2)])));
        }
        g
    }
    fn near_one(d: f64) -> Self::Tr {
        let c = |x: f64| num_traits::cast::<f64, T>(x).unwrap();
        let g: [[T; 3]; 3] = mat_from_r(&alphabet::generic(9, 2));
        mk_m3(std::array::from_fn(|cc| std::array::from_fn(|r| (if cc == r { T::one() } else { T::zero() }) + c(d * g[cc][r].f() / 8.0))))
    }
    fn comps(t: &Self::Tr) -> Vec<T> {
        flat_m(m3(*t))
    }
    fn h(t: &Self::Tr) -> H<T::M> {
        embed3(lift_m(m3(*t)))
    }
    fn one() -> Self::Tr {
        One::one()
    }
    fn concat(a: &Self::Tr, b: &Self::Tr) -> Self::Tr {
        Transform::<Point3<T>>::concat(a, b)
    }
    fn concat_self(a: &Self::Tr, b: &Self::Tr) -> Self::Tr {
        let mut t = *a;
        Transform::<Point3<T>>::concat_self(&mut t, b);
        t
    }
    fn inv(a: &Self::Tr) -> Option<Self::Tr> {
        Transform::<Point3<T>>::inverse_transform(a)
    }
    fn tp(a: &Self::Tr, p: [T; 3]) -> [T; 3] {
        p3(Transform::<Point3<T>>::transform_point(a, mk_p3(p)))
    }
    fn tv(a: &Self::Tr, v: [T; 3]) -> [T; 3] {
        v3(Transform::<Point3<T>>::transform_vector(a, mk_v3(v)))
    }
    fn inv_tv(a: &Self::Tr, v: [T; 3]) -> Option<[T; 3]> {
        Transform::<Point3<T>>::inverse_transform_vector(a, mk_v3(v)).map(v3)
    }
    fn degenerate(a: &Self::Tr) -> bool {
        if T::EXACT {
            model::mdet(lift_m(m3(*a))).is_zero()
        } else {
            a.determinant() == T::zero()
        }
    }
}
// ---- Matrix3 as a 2-D homogeneous transform
struct M3P2;
impl<T: Tier> Cfg<T> for M3P2 {
    type Tr = Matrix3<T>;
    const NAME: &'static str = "Matrix3<Point2>";
    const DIM: usize = 2;
    const DECOMPOSED: bool = false;
    fn gens(float: bool) -> Vec<Self::Tr> {
        let d = disps::<T>();
        // affine 2-D maps (third row 0 0 1), so that the homogeneous divide is trivial
        let lin = |a: [[T; 2]; 2], t: [T; 2]| -> Matrix3<T> { Matrix3::from_translation(mk_v2(t)) * Matrix3::from(mk_m2(a)) };
        let mut g = vec![
            lin([[T::q(3, 5), T::q(4, 5)], [T::q(-4, 5), T::q(3, 5)]], [d[0][0], d[0][1]]) * Matrix3::from_scale(T::q(-3, 2)),
            lin([[T::one(), T::zero()], [T::q(3, 2), T::one()]], [T::zero(), T::zero()]),
            lin([[T::int(2), T::zero()], [T::zero(), T::q(-1, 2)]], [d[2][0], d[2][1]]),
            lin([[T::int(2), T::int(1)], [T::int(4), T::int(2)]], [d[1][0], d[1][1]]),
            // a rigid motion, and a projection onto a line (a zero column: singular whatever the rounding)
            lin([[T::q(3, 5), T::q(4, 5)], [T::q(-4, 5), T::q(3, 5)]], [d[1][0], d[1][1]]),
            lin([[T::one(), T::zero()], [T::zero(), T::zero()]], [d[2][0], d[2][1]]),
        ];
        if float {
            // determinant far below machine epsilon, not zero; entries whose fourth powers are still normal numbers (8.5)
            let tiny = if T::NAME == "F" { T::q(1, 1 << 12) } else { T::q(1, 1 << 30) };
            g.push(lin([[tiny, T::zero()], [T::zero(), tiny]], [d[0][0], d[0][1]]));
        }
        g
    }
    fn near_one(d: f64) -> Self::Tr {
        let c = |x: f64| num_traits::cast::<f64, T>(x).unwrap();
        // affine in 2-D: the bottom row stays 0 0 1
        let g: [[T; 3]; 3] = mat_from_r(&alphabet::generic(9, 2));
        mk_m3(std::array::from_fn(|cc| std::array::from_fn(|r| (if cc == r { T::one() } else { T::zero() }) + if r == 2 { T::zero() } else { c(d * g[cc][r].f() / 8.0) })))
    }
    fn comps(t: &Self::Tr) -> Vec<T> {
        flat_m(m3(*t))
    }
    fn h(t: &Self::Tr) -> H<T::M> {
        embed_h2(lift_m(m3(*t)))
    }
    fn one() -> Self::Tr {
        One::one()
    }
    fn concat(a: &Self::Tr, b: &Self::Tr) -> Self::Tr {
        Transform::<Point2<T>>::concat(a, b)
    }
    fn concat_self(a: &Self::Tr, b: &Self::Tr) -> Self::Tr {
        let mut t = *a;
        Transform::<Point2<T>>::concat_self(&mut t, b);
        t
    }
    fn inv(a: &Self::Tr) -> Option<Self::Tr> {
        Transform::<Point2<T>>::inverse_transform(a)
    }
    fn tp(a: &Self::Tr, p: [T; 3]) -> [T; 3] {
        let r = p2(Transform::<Point2<T>>::transform_point(a, mk_p2([p[0], p[1]])));
        [r[0], r[1], T::zero()]
    }
    fn tv(a: &Self::Tr, v: [T; 3]) -> [T; 3] {
        let r = v2(Transform::<Point2<T>>::transform_vector(a, mk_v2([v[0], v[1]])));
        [r[0], r[1], T::zero()]
    }
    fn inv_tv(a: &Self::Tr, v: [T; 3]) -> Option<[T; 3]> {
        Transform::<Point2<T>>::inverse_transform_vector(a, mk_v2([v[0], v[1]])).map(|r| [r.x, r.y, T::zero()])
    }
    fn degenerate(a: &Self::Tr) -> bool {
        if T::EXACT {
            model::mdet(lift_m(m3(*a))).is_zero()
        } else {
            a.determinant() == T::zero()
        }
    }
}

/// image of a point (w = 1, with the homogeneous divide) or of a vector (w = 0, linear part only);
/// `None` when the point is sent (numerically) to infinity: w = 0 after projection is outside
/// the statement and not judged
fn apply_h_opt<F: Field>(h: H<F>, p: [F; 3], w: F) -> Option<[F; 3]> {
    apply_h_u(h, p, w, 1e-12)
}
/// `u`: unit roundoff of the tier being judged: the homogeneous weight must be well above the
/// rounding noise of its own evaluation, otherwise the point is numerically at infinity
fn apply_h_u<F: Field>(h: H<F>, p: [F; 3], w: F, u: f64) -> Option<[F; 3]> {
    let r = model::mvec(h, [p[0], p[1], p[2], w]);
    // (a weight that is 1 by construction, not one that merely evaluates to 1: a bottom row that cancels to 0 0 0 1
    // carries the rounding of that cancellation, and the divide by it carries it on)
    if w.is_zero() || (r[3] == F::one() && r[3].err() == 0.0) {
        return Some([r[0], r[1], r[2]]);
    }
    let scale = r.iter().fold(0.0f64, |a, x| a.max(x.approx().abs()));
    let wv = r[3].approx();
    let noise = 4096.0 * u * (r[3].err() + wv.abs());
    if !(wv.is_finite() && scale.is_finite()) || wv.abs() <= noise || wv.abs() <= 1e-9 * scale.max(1e-300) || r[3].is_zero() {
        return None;
    }
    Some([r[0] / r[3], r[1] / r[3], r[2] / r[3]])
}
fn apply_h<F: Field>(h: H<F>, p: [F; 3], w: F) -> [F; 3] {
    apply_h_opt(h, p, w).unwrap_or([F::zero(); 3])
}
/// bottom row (0, 0, 0, 1): no projective part
fn affine<F: Field>(h: &H<F>) -> bool {
    h[0][3].is_zero() && h[1][3].is_zero() && h[2][3].is_zero() && h[3][3] == F::one()
}
fn probes<T: Tier>(dim: usize) -> Vec<[T; 3]> {
    (0..3)
        .map(|v| {
            let mut p = vec_from_r::<T, 3>(&alphabet::generic(3, v + 1));
            if dim == 2 {
                p[2] = T::zero();
            }
            p
        })
        .collect()
}

fn slack_of<T: Tier, C: Cfg<T>>(ts: &[&C::Tr]) -> f64 {
    if T::EXACT {
        1.0
    } else {
        let d: f64 = ts.iter().map(|t| C::defect(t)).sum();
        4.0 + 16.0 * d / (T::U * K_TOL)
    }
}

/// all per-state laws
fn invariant<T: Tier, C: Cfg<T>>(ctx: &mut Ctx, s: &C::Tr, gens: &[C::Tr]) {
    let hs = C::h(s);
    let slack = slack_of::<T, C>(&[s]);
    let ps = probes::<T>(C::DIM);
    let (one, zero) = (T::M::one(), T::M::zero());
    ctx.out(&keys(&C::comps(s)));
    for p in &ps {
        match apply_h_u(hs, lift_v(*p), one, T::U) {
            Some(img) => {
                eq_vc::<T, 3>(ctx, &key(&format!("{}/transform_point", C::NAME)), C::tp(s, *p), img, slack);
            }
            None => ctx.branch("point-at-infinity-not-judged"),
        }
        // directions are transformed by the linear part; for a projective matrix the image of a direction
        // also has a w component that transform_vector drops, so composition laws on vectors are
        // stated (and judged) for affine transforms only
        eq_vc::<T, 3>(ctx, &key(&format!("{}/transform_vector", C::NAME)), C::tv(s, *p), apply_h(hs, lift_v(*p), zero), slack);
        same_slice(ctx, &key(&format!("{}/one-is-neutral", C::NAME)), &C::tp(&C::one(), *p), p);
        same_slice(ctx, &key(&format!("{}/one-is-neutral", C::NAME)), &C::tv(&C::one(), *p), p);
    }
    // conversion of a Decomposed value to a matrix
    if let Some(m) = C::to_matrix(s) {
        eq_mc::<T, 4>(ctx, &key(&format!("{}/to-matrix", C::NAME)), m, hs, slack);
    }
    // inverse
    let inv = C::inv(s);
    // matrices in the float tiers: whether a determinant "is zero" is decided by the model's enclosure, not by how the
    // implementation's own determinant() happens to round - outside the noise an inverse is demanded, inside it nothing is
    let deg = if !T::EXACT && C::scale(s).is_none() {
        let md = model::mdet(hs);
        let zero_line = (0..4).any(|i| (0..4).all(|j| hs[i][j].approx() == 0.0)) || (0..4).any(|j| (0..4).all(|i| hs[i][j].approx() == 0.0));
        if md.approx().abs() > T::tol(md, slack) {
            false
        } else if zero_line {
            // a zero row or column: every term of every expansion of the determinant is an exact zero
            true
        } else {
            ctx.branch("determinant-numerically-zero-not-judged");
            let _ = C::degenerate(s);
            return;
        }
    } else {
        C::degenerate(s)
    };
    let judged = match C::scale(s) {
        // the statement leaves 0 < |scale| <= 1e-6 open
        Some(sc) => T::EXACT || sc == T::zero() || sc.f().abs() > 1e-6,
        None => true,
    };
    if !judged {
        ctx.branch("scale-band-not-judged");
        return;
    }
    if deg {
        ctx.branch("degenerate");
        ctx.check(inv.is_none(), &key(&format!("{}/inverse/none-when-degenerate", C::NAME)), || format!("inverse_transform() of {:?} is Some", s));
        ctx.check(C::inv_tv(s, ps[0]).is_none(), &key(&format!("{}/inverse_vector/none-when-degenerate", C::NAME)), || "inverse_transform_vector() is Some".to_string());
        return;
    }
    // (float matrices: `deg` is what determinant() itself reports, so a non-degenerate matrix - however
    // small its determinant - must have an inverse; the exact zero/non-zero dichotomy is C02's)
    ctx.branch("invertible");
    let inv = match inv {
        Some(i) => i,
        None => {
            ctx.fail(&key(&format!("{}/inverse/some-when-invertible", C::NAME)), || format!("inverse_transform() of {:?} is None", s));
            return;
        }
    };
    let hi = match model::minverse_adj(hs) {
        Some(h) => h,
        None => return,
    };
    // Option-shaped clauses first: they do not depend on conditioning
    ctx.check(C::inv_tv(s, ps[0]).is_some(), &key(&format!("{}/inverse_vector/some-when-invertible", C::NAME)), || "inverse_transform_vector() is None for an invertible transform".to_string());
    // outside the float domain (DESIGN 8.5): a product of four entries would underflow or overflow
    if !T::EXACT {
        let mags: Vec<f64> = model::mflat(hs).iter().map(|x| x.approx().abs()).filter(|x| *x > 0.0).collect();
        let (mn, mx) = (mags.iter().cloned().fold(f64::INFINITY, f64::min), mags.iter().cloned().fold(0.0, f64::max));
        let (lo, hi) = (T::min_positive_value().f() * 1e3, T::max_value().f() / 1e3);
        if mn.powi(4) < lo || mx.powi(4) > hi || mn.powi(3) * mx < lo {
            ctx.skip("outside the float domain: products of four entries are not normal numbers");
            return;
        }
    }
    // ill-conditioned: the error bound of the reference inverse is no longer small against the inverse itself
    let worst = model::mflat(hi).iter().map(|x| T::tol(*x, slack)).fold(0.0, f64::max);
    let size = model::mflat(hi).iter().map(|x| x.approx().abs()).fold(0.0, f64::max);
    if worst > 0.05 * size.max(1e-300) {
        ctx.skip("ill-conditioned (float tier)");
        return;
    }
    // the inverse's own model matrix is the inverse of the model matrix
    eq_mc::<T, 4>(ctx, &key(&format!("{}/inverse/is-the-inverse", C::NAME)), lower_m::<T, 4>(C::h(&inv)), hi, slack * 4.0);
    for p in &ps {
        // undoes the transform on points and vectors
        let fwd_p = C::tp(s, *p);
        let fwd_v = C::tv(s, *p);
        let fwd_m = match apply_h_u(hs, lift_v(*p), one, T::U) {
            Some(x) => x,
            None => continue,
        };
        let back_p = match apply_h_u(hi, fwd_m, one, T::U) {
            Some(x) => x,
            None => continue,
        };
        let back_v = apply_h(hi, apply_h(hs, lift_v(*p), zero), zero);
        let want_p: [T::M; 3] = std::array::from_fn(|j| p[j].lift().with_err_of(back_p[j]));
        let want_v: [T::M; 3] = std::array::from_fn(|j| p[j].lift().with_err_of(back_v[j]));
        eq_vc::<T, 3>(ctx, &key(&format!("{}/inverse/undoes-point", C::NAME)), C::tp(&inv, fwd_p), want_p, slack * 4.0);
        if !affine(&hs) {
            ctx.branch("projective-vector-clauses-not-judged");
            continue;
        }
        eq_vc::<T, 3>(ctx, &key(&format!("{}/inverse/undoes-vector", C::NAME)), C::tv(&inv, fwd_v), want_v, slack * 4.0);
        match C::inv_tv(s, fwd_v) {
            Some(r) => {
                eq_vc::<T, 3>(ctx, &key(&format!("{}/inverse_vector/agrees", C::NAME)), r, want_v, slack * 4.0);
            }
            None => ctx.fail(&key(&format!("{}/inverse_vector/agrees", C::NAME)), || "inverse_transform_vector() is None for an invertible transform".to_string()),
        }
    }
    if let (Some(mi), true) = (C::to_matrix(&inv), true) {
        // converting commutes with inverting
        eq_mc::<T, 4>(ctx, &key(&format!("{}/to-matrix/commutes-with-inverse", C::NAME)), mi, hi, slack * 4.0);
    }
    let _ = gens;
}

fn system<T: Tier, C: Cfg<T>>(rep: &mut Report) {
    let depth = rep.pick(3, 4);
    system_from::<T, C>(rep, false, depth);
    if !T::EXACT {
        system_from::<T, C>(rep, true, 1);
    }
}
/// `near`: start from elements next to one() instead of from the generators (float tiers): every action then has a
/// nearly-identity operand on one side and a generator on the other, and the invariant inverts the nearly-identity ones
fn system_from<T: Tier, C: Cfg<T>>(rep: &mut Report, near: bool, depth: usize) {
    let gens = C::gens(!T::EXACT);
    let ng = gens.len();
    let mk = |t: C::Tr| Keyed { key: keys(&C::comps(&t)), val: t };
    let inits: Vec<Keyed<C::Tr>> = if near { [T::U / 64.0, 2f64.powi(-30), 2f64.powi(-22), -(2f64.powi(-26))].iter().map(|d| mk(C::near_one(*d))).collect() } else { gens.iter().map(|g| mk(*g)).collect() };
    let g2 = gens.clone();
    let nact = 4 * ng + 1;
    rep.bfs(
        &if near { format!("{}/nearly-one", C::NAME) } else { C::NAME.to_string() },
        T::NAME,
        &if near { format!("4 elements within u/64 ... 2^-22 of one() x the same actions against the {ng} generators; depth {depth}") } else { format!("{ng} generators; actions concat(s,g), concat(g,s), s*g, concat_self(s,g) for every generator, inverse_transform; depth {depth}") },
        inits,
        nact,
        depth,
        if near { Guard::states(20).need("invertible", 4) } else { Guard::states(30).need("invertible", 10).need("degenerate", 1).inconclusive(0.05) },
        move |st, act, ctx| {
            let s = &st.val;
            let hs = C::h(s);
            let (kind, gi) = (act / ng, act % ng);
            if act == 4 * ng {
                // inverse (laws are checked by the invariant on the successor and on this state)
                // float tiers: the "inverse" of a matrix whose determinant is zero as far as floating point can tell is
                // whatever two roundings leave (huge, infinite or NaN entries): not a state of the search
                if !T::EXACT && C::scale(s).is_none() {
                    let md = model::mdet(hs);
                    if md.approx().abs() <= T::tol(md, slack_of::<T, C>(&[s])) {
                        ctx.skip("inverse of a numerically singular matrix");
                        return None;
                    }
                }
                return C::inv(s).filter(|i| C::comps(i).iter().all(|x| x.f().abs() < 1e9)).map(|i| {
                    ctx.t();
                    mk(i)
                });
            }
            let g = &gens[gi];
            let hg = C::h(g);
            let slack = slack_of::<T, C>(&[s, g]);
            let (res, want) = match kind {
                0 => (C::concat(s, g), model::mmul(hs, hg)),
                1 => (C::concat(g, s), model::mmul(hg, hs)),
                2 => match C::mul(s, g) {
                    Some(r) => (r, model::mmul(hs, hg)),
                    None => return None,
                },
                _ => (C::concat_self(s, g), model::mmul(hs, hg)),
            };
            ctx.branch(["concat(s,g)", "concat(g,s)", "s*g", "concat_self"][kind]);
            // the composed transform's model matrix is the product of the model matrices ...
            eq_mc::<T, 4>(ctx, &key(&format!("{}/concat/matrix-of-composition", C::NAME)), lower_m::<T, 4>(C::h(&res)), want, slack * 4.0);
            // ... and applying it is applying the right operand first
            let (first, second) = if kind == 1 { (s, g) } else { (g, s) };
            for p in probes::<T>(C::DIM) {
                let step_p = C::tp(second, C::tp(first, p));
                let step_v = C::tv(second, C::tv(first, p));
                let mv = apply_h(want, lift_v(p), T::M::zero());
                // points: judged unless some stage sends the probe to infinity
                let stage1 = apply_h_u(C::h(first), lift_v(p), T::M::one(), T::U);
                let stage2 = stage1.and_then(|q| apply_h_u(C::h(second), q, T::M::one(), T::U));
                if let (Some(mp), Some(sp)) = (apply_h_u(want, lift_v(p), T::M::one(), T::U), stage2) {
                    eq_vc::<T, 3>(ctx, &key(&format!("{}/concat/point", C::NAME)), C::tp(&res, p), mp, slack * 4.0);
                    // the step-wise route has its own conditioning (the intermediate homogeneous divide):
                    // its error bound is the one the model accumulates along that route
                    let via: [T::M; 3] = std::array::from_fn(|j| mp[j].with_err_of(sp[j]));
                    eq_vc::<T, 3>(ctx, &key(&format!("{}/concat/point-stepwise", C::NAME)), step_p, via, slack * 4.0);
                } else {
                    ctx.branch("point-at-infinity-not-judged");
                }
                eq_vc::<T, 3>(ctx, &key(&format!("{}/concat/vector", C::NAME)), C::tv(&res, p), mv, slack * 4.0);
                if affine(&hs) && affine(&hg) {
                    eq_vc::<T, 3>(ctx, &key(&format!("{}/concat/vector-stepwise", C::NAME)), step_v, mv, slack * 4.0);
                }
            }
            if let (Some(ms), Some(mg), Some(mr)) = (C::to_matrix(s), C::to_matrix(g), C::to_matrix(&res)) {
                // converting commutes with composing
                let prod = if kind == 1 { mk_m4(mg) * mk_m4(ms) } else { mk_m4(ms) * mk_m4(mg) };
                eq_mc::<T, 4>(ctx, &key(&format!("{}/to-matrix/commutes-with-concat", C::NAME)), m4(prod), want, slack * 4.0);
                eq_mc::<T, 4>(ctx, &key(&format!("{}/to-matrix/commutes-with-concat", C::NAME)), mr, want, slack * 4.0);
            }
            if ctx.failed() {
                return None;
            }
            if C::comps(&res).iter().any(|x| !(x.f().abs() < 1e9)) {
                return None;
            }
            Some(mk(res))
        },
        move |st, ctx| invariant::<T, C>(ctx, &st.val, &g2),
        |st| format!("{:?}", st.val),
    );
}

fn all<T: Tier>(rep: &mut Report) {
    system::<T, DQ>(rep);
    system::<T, DB3>(rep);
    if T::EXACT {
        set_lattice(Some(0));
    }
    system::<T, DB2>(rep);
    set_lattice(None);
    system::<T, M4C>(rep);
    system::<T, M3P3>(rep);
    system::<T, M3P2>(rep);
}

fn main() {
    let mut rep = Report::from_args(P);
    rep.assume("each transform is modelled by the homogeneous matrix built from its components (scale * rotation | displacement), independent of cgmath's own conversion; composition = matrix product, inverse = Cramer's rule / Gauss-Jordan on that matrix");
    rep.assume("float tiers: scales {0, +-1e-5, +-0.3, +-2, 1e3}; the band 0 < |scale| <= 1e-6 is explored but not judged; Matrix3<Point2> generators are affine (third row 0 0 1)");
    all::<Ex>(&mut rep);
    all::<f64>(&mut rep);
    all::<f32>(&mut rep);
    std::process::exit(rep.finish());
}
