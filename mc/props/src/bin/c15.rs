//! C15 — between_vectors / from_arc: the shortest rotation taking a onto b.
use cgmath::{Rotation, Rotation2};
use mc_props::*;
use std::f64::consts::PI;

const P: &str = "C15";
fn key(s: &str) -> String {
    format!("{P}/{s}")
}

/// rational orthonormal frames from rational unit quaternions: (a, n) with a ⟂ n
fn frames(level: usize) -> Vec<([Ex; 3], [Ex; 3])> {
    let mut out = Vec::new();
    for (q, d) in alphabet::uq(level) {
        let qe: [Ex; 4] = std::array::from_fn(|j| Ex::q(q[j], d));
        let m = model::qmat(qe);
        out.push((m[0], m[2]));
    }
    out
}

// ------------------------------------------------------------------ exact tier
fn exact3(rep: &mut Report) {
    type T = Ex;
    let fr = frames(if rep.quick() { 0 } else { 1 });
    for li in 0..3 {
        let lat = &ex::lattices()[li];
        let reach = (lat.reach() / 2).min(6);
        // even codes 2k so that the half angle k is on the lattice
        let ks: Vec<i64> = (-reach..=reach).filter(|k| ((2 * *k) as f64 * lat.delta).abs() < PI && *k != 0).collect();
        let lens: [(R, R); 3] = [((1, 1), (1, 1)), ((3, 1), (1, 2)), ((1, 5), (7, 1))];
        set_lattice(Some(li));
        rep.cases(
            &format!("exact3/t={}/{}", lat.p, lat.q),
            "X",
            &format!("{} rational frames x rotation codes 2k, k in {:?} x 3 length pairs (from_arc)", fr.len(), ks),
            fr.len() * ks.len(),
            Guard::states(50).distinct(50).inconclusive(0.02),
            |i, ctx| {
                let (fi, k) = (i / ks.len(), ks[i % ks.len()]);
                let (a, n) = fr[fi];
                let cs2 = ex::lattice_cs(2 * k);
                let b = model::rodrigues(n, cs2, a);
                ctx.describe(|| format!("a={:?} axis={:?} angle code {} b={:?}", a, n, 2 * k, b));
                ctx.out(&(fi, k));
                let (ca, cb) = (mk_v3(a), mk_v3(b));
                // Quaternion
                let q: Quaternion<T> = Rotation::between_vectors(ca, cb);
                same_slice(ctx, &key("between_vectors/Quaternion/maps-a-to-b"), &v3(q.rotate_vector(ca)), &b);
                // rotation angle = angle(a,b) = 2k delta about +-n: q = (cos k delta, sin k delta * n) up to the sign of k
                let (c1, s1) = ex::lattice_cs(k.abs());
                let nn = if k > 0 { n } else { model::vneg(n) };
                same_slice(ctx, &key("between_vectors/Quaternion/angle-and-axis"), &qa(q), &[c1, s1 * nn[0], s1 * nn[1], s1 * nn[2]]);
                same_slice(ctx, &key("between_vectors/Quaternion/axis-perpendicular"), &[model::vdot(v3(q.v), a), model::vdot(v3(q.v), b)], &[T::int(0), T::int(0)]);
                // Basis3
                let r: Basis3<T> = Rotation::between_vectors(ca, cb);
                same_slice(ctx, &key("between_vectors/Basis3/maps-a-to-b"), &v3(r.rotate_vector(ca)), &b);
                same_slice(ctx, &key("between_vectors/Basis3/same-rotation"), &flat_m(basis3_arr(r)), &flat_m(model::axis_angle_mat(n, cs2)));
                // from_arc on arbitrary lengths
                for (l1, l2) in lens {
                    let (l1, l2): (T, T) = (rq(l1), rq(l2));
                    let (src, dst) = (mk_v3(model::vscale(a, l1)), mk_v3(model::vscale(b, l2)));
                    let fa = Quaternion::from_arc(src, dst, None);
                    same_slice(ctx, &key("from_arc/unit"), &[fa.magnitude2()], &[T::int(1)]);
                    same_slice(ctx, &key("from_arc/maps-src-to-dst"), &v3(fa.rotate_vector(ca)), &b);
                    same_slice(ctx, &key("from_arc/smaller-angle"), &qa(fa), &qa(q));
                    let fb = Quaternion::from_arc(src, dst, Some(mk_v3(n)));
                    same_slice(ctx, &key("from_arc/fallback-unused"), &qa(fb), &qa(q));
                }
            },
        );
        set_lattice(None);
    }
    // exactly parallel and antiparallel pairs
    let fr2 = fr.clone();
    rep.cases(
        "exact3/parallel",
        "X",
        &format!("{} rational unit vectors: (a, a) and (a, -a)", fr2.len()),
        fr2.len() * 2,
        Guard::states(20).distinct(5).inconclusive(0.9).need("antiparallel-judged", 3),
        |i, ctx| {
            let (a, _n) = fr2[i / 2];
            let anti = i % 2 == 1;
            let b = if anti { model::vneg(a) } else { a };
            ctx.describe(|| format!("a={:?} b={:?}", a, b));
            ctx.out(&(i / 2, anti));
            let (ca, cb) = (mk_v3(a), mk_v3(b));
            if !anti {
                let q: Quaternion<T> = Rotation::between_vectors(ca, cb);
                same_slice(ctx, &key("between_vectors/Quaternion/parallel-is-identity"), &qa(q), &[T::int(1), T::int(0), T::int(0), T::int(0)]);
                let fa = Quaternion::from_arc(mk_v3(model::vscale(a, T::int(3))), mk_v3(model::vscale(b, T::q(1, 2))), None);
                same_slice(ctx, &key("from_arc/parallel-is-identity"), &qa(fa), &[T::int(1), T::int(0), T::int(0), T::int(0)]);
                let r: Basis3<T> = Rotation::between_vectors(ca, cb);
                same_slice(ctx, &key("between_vectors/Basis3/parallel-is-identity"), &flat_m(basis3_arr(r)), &flat_m(model::mident::<T, 3>()));
            } else {
                ctx.branch("antiparallel");
                // half turn about an axis perpendicular to a (normalisation of the axis may be irrational -> domain exit)
                let q: Quaternion<T> = Rotation::between_vectors(ca, cb);
                ctx.branch("antiparallel-judged");
                same_slice(ctx, &key("between_vectors/Quaternion/antiparallel-half-turn"), &[q.s, model::vdot(v3(q.v), a), model::vdot(v3(q.v), v3(q.v))], &[T::int(0), T::int(0), T::int(1)]);
                same_slice(ctx, &key("between_vectors/Quaternion/maps-a-to-b"), &v3(q.rotate_vector(ca)), &b);
            }
        },
    );
}

fn exact2(rep: &mut Report) {
    type T = Ex;
    let us = alphabet::uv2();
    for li in 0..3 {
        let lat = &ex::lattices()[li];
        let reach = lat.reach().min(10);
        let ks: Vec<i64> = (-reach..=reach).filter(|k| (*k as f64 * lat.delta).abs() < PI).collect();
        set_lattice(Some(li));
        rep.cases(
            &format!("exact2/t={}/{}", lat.p, lat.q),
            "X",
            &format!("{} rational unit vectors x rotation codes {:?} (both orientations)", us.len(), ks),
            us.len() * ks.len(),
            Guard::states(50).distinct(50).need("clockwise", 10).need("counter-clockwise", 10),
            |i, ctx| {
                let (ui, k) = (i / ks.len(), ks[i % ks.len()]);
                let (un, ud) = us[ui];
                let a: [T; 2] = [T::q(un[0], ud), T::q(un[1], ud)];
                let cs = ex::lattice_cs(k);
                let b = model::mvec(model::rot2(cs), a);
                let cls = if k > 0 { "counter-clockwise" } else if k < 0 { "clockwise" } else { "parallel" };
                ctx.branch(cls);
                ctx.describe(|| format!("a={:?} b={:?} (b is a turned by code {k}: {cls})", a, b));
                ctx.out(&(ui, k));
                let r: Basis2<T> = Rotation::between_vectors(mk_v2(a), mk_v2(b));
                same_slice(ctx, &key(&format!("between_vectors/Basis2/maps-a-to-b/{cls}")), &v2(r.rotate_vector(mk_v2(a))), &b);
                same_slice(ctx, &key(&format!("between_vectors/Basis2/short-way/{cls}")), &flat_m(basis2_arr(r)), &flat_m(model::rot2(cs)));
            },
        );
        set_lattice(None);
    }
}

// ------------------------------------------------------------------ float tiers
fn unit3(v: [f64; 3]) -> [f64; 3] {
    let n = (v[0] * v[0] + v[1] * v[1] + v[2] * v[2]).sqrt();
    [v[0] / n, v[1] / n, v[2] / n]
}
fn cross_f(a: [f64; 3], b: [f64; 3]) -> [f64; 3] {
    [a[1] * b[2] - a[2] * b[1], a[2] * b[0] - a[0] * b[2], a[0] * b[1] - a[1] * b[0]]
}
fn dot_f(a: [f64; 3], b: [f64; 3]) -> f64 {
    a[0] * b[0] + a[1] * b[1] + a[2] * b[2]
}
fn norm_f(a: [f64; 3]) -> f64 {
    dot_f(a, a).sqrt()
}
/// angle between two directions, well conditioned everywhere
fn angle_f(a: [f64; 3], b: [f64; 3]) -> f64 {
    let (a, b) = (unit3(a), unit3(b));
    let d = [a[0] - b[0], a[1] - b[1], a[2] - b[2]];
    let s = [a[0] + b[0], a[1] + b[1], a[2] + b[2]];
    2.0 * norm_f(d).atan2(norm_f(s))
}

fn float3<T: Tier>(rep: &mut Report) {
    let us = alphabet::uv3(true);
    let n = us.len();
    // pairs: all (a, b) from the list, plus near-(anti)parallel partners built in f64
    // inside the allowances (1e-9), between them (1e-6), outside both (1e-3), and just outside each (2e-7 / 5e-7 for unit
    // vectors, 2e-4 / 5e-4 for from_arc): a wider "treat as parallel" band than the statement allows shows there
    let near: Vec<f64> = if rep.thorough() {
        // thorough: a dense ladder through and between the two allowances and out to a tenth of a radian
        vec![1e-12, 1e-10, 1e-9, 1e-8, 5e-8, 1.5e-7, 2e-7, 5e-7, 1e-6, 3e-6, 1e-5, 3e-5, 8e-5, 1.2e-4, 2e-4, 5e-4, 1e-3, 3e-3, 1e-2, 3e-2, 0.1]
    } else {
        vec![1e-9, 2e-7, 5e-7, 1e-6, 2e-4, 5e-4, 1e-3]
    };
    let n_near = if T::NAME == "D" { n * near.len() * 2 } else { 0 };
    let total = n * n + n_near;
    let lens: [f64; 4] = [1e-3, 0.2, 3.0, 1e3];
    rep.cases(
        "float3",
        T::NAME,
        &format!("all {n}x{n} pairs of rational unit vectors{}; from_arc with every pair of lengths from {:?} and fallback in {{None, perpendicular}}", if n_near > 0 { format!(" + near-parallel/antiparallel partners at {:?} rad", near) } else { String::new() }, lens),
        total,
        Guard::states(100).distinct(100).need("generic", 50),
        |i, ctx| {
            let (af, bf): ([f64; 3], [f64; 3]) = if i < n * n {
                let (x, y) = (us[i / n], us[i % n]);
                (std::array::from_fn(|j| x.0[j] as f64 / x.1 as f64), std::array::from_fn(|j| y.0[j] as f64 / y.1 as f64))
            } else {
                let j = i - n * n;
                let (ai, rest) = (j / (near.len() * 2), j % (near.len() * 2));
                let th = near[rest / 2];
                let x = us[ai];
                let a: [f64; 3] = unit3(std::array::from_fn(|j| x.0[j] as f64 / x.1 as f64));
                let helper = if a[0].abs() < 0.9 { [1.0, 0.0, 0.0] } else { [0.0, 1.0, 0.0] };
                let p = unit3(cross_f(a, helper));
                let b: [f64; 3] = unit3(std::array::from_fn(|j| a[j] * th.cos() + p[j] * th.sin()));
                if rest % 2 == 0 { (a, b) } else { (a, [-b[0], -b[1], -b[2]]) }
            };
            let a: [T; 3] = std::array::from_fn(|j| num_traits::cast::<f64, T>(af[j]).unwrap());
            let b: [T; 3] = std::array::from_fn(|j| num_traits::cast::<f64, T>(bf[j]).unwrap());
            let (af, bf): ([f64; 3], [f64; 3]) = (std::array::from_fn(|j| a[j].f()), std::array::from_fn(|j| b[j].f()));
            ctx.describe(|| format!("a={:?} b={:?}", a, b));
            ctx.out(&(a.map(|x| x.key()), b.map(|x| x.key())));
            let theta = angle_f(af, bf);
            let from_par = theta.min(PI - theta);
            if T::NAME == "F" && from_par < 0.1 {
                ctx.skip("not well separated (f32 tier judges separated pairs only)");
                return;
            }
            let cls = if theta < 1e-12 { "parallel" } else if PI - theta < 1e-12 { "antiparallel" } else if from_par < 2e-3 { "near-parallel" } else { "generic" };
            ctx.branch(cls);
            let sum = [af[0] + bf[0], af[1] + bf[1], af[2] + bf[2]];
            let cond = 1.0 + 1.0 / norm_f(sum).max(1e-300);
            // the statement's allowance: closer than 1e-7 rad to (anti)parallel may be treated as such
            // (condition factor times a few dozen roundings; the unchanged code needs less than a tenth of this)
            let base_tol = K_TOL * T::U * cond;
            let tol_unit = base_tol + if from_par < 1e-7 { 2.0 * from_par + 1e-15 } else { 0.0 };
            let dist = |x: [T; 3], y: [f64; 3]| -> f64 { (0..3).map(|j| (x[j].f() - y[j]).powi(2)).sum::<f64>().sqrt() };
            let (ca, cb) = (mk_v3(a), mk_v3(b));
            if tol_unit < 1e-3 {
                let q: Quaternion<T> = Rotation::between_vectors(ca, cb);
                ctx.check(dist(v3(q.rotate_vector(ca)), bf) <= tol_unit, &key(&format!("between_vectors/Quaternion/maps-a-to-b/{cls}")), || format!("r(a) = {:?}, off by {:e} (tolerance {:e})", q.rotate_vector(ca), dist(v3(q.rotate_vector(ca)), bf), tol_unit));
                let qv = [q.v.x.f(), q.v.y.f(), q.v.z.f()];
                let ang = 2.0 * norm_f(qv).atan2(q.s.f());
                ctx.check((ang - theta).abs() <= tol_unit * 4.0 + 1e-7_f64.min(from_par) * 2.0, &key(&format!("between_vectors/Quaternion/angle/{cls}")), || format!("rotation angle {ang}, angle between a and b {theta}"));
                if cls != "parallel" {
                    let nv = norm_f(qv).max(1e-300);
                    // the direction of a x b is determined only to u / sin(theta)
                    let tol_axis = tol_unit * 4.0 + K_TOL * T::U * 8.0 / theta.sin().abs().max(1e-300);
                    ctx.check((dot_f(qv, af) / nv).abs() <= tol_axis && (dot_f(qv, bf) / nv).abs() <= tol_axis + 2.0 * from_par.min(1e-7), &key(&format!("between_vectors/Quaternion/axis-perpendicular/{cls}")), || format!("axis {:?}", qv));
                }
                let r: Basis3<T> = Rotation::between_vectors(ca, cb);
                ctx.check(dist(v3(r.rotate_vector(ca)), bf) <= tol_unit * 2.0, &key(&format!("between_vectors/Basis3/maps-a-to-b/{cls}")), || format!("r(a) = {:?}", r.rotate_vector(ca)));
                // ... and is a rotation: orthonormal columns, determinant +1. This does not depend on how well a x b is
                // determined - a matrix built from a unit quaternion, or from any formula for a rotation evaluated
                // stably, is orthonormal to a few roundings whatever the angle between a and b
                let m = basis3_arr(r);
                let mf: [[f64; 3]; 3] = std::array::from_fn(|c| std::array::from_fn(|rw| m[c][rw].f()));
                let mut worst = 0.0f64;
                for c1 in 0..3 {
                    for c2 in 0..3 {
                        let d = dot_f(mf[c1], mf[c2]) - if c1 == c2 { 1.0 } else { 0.0 };
                        worst = if d.is_nan() { f64::NAN } else { worst.max(d.abs()) };
                    }
                }
                let det = dot_f(cross_f(mf[0], mf[1]), mf[2]);
                let tol_orth = K_TOL * T::U * 8.0;
                ctx.check(worst <= tol_orth && (det - 1.0).abs() <= tol_orth * 2.0, &key(&format!("between_vectors/Basis3/orthonormal/{cls}")), || format!("columns orthonormal only to {worst:e}, determinant {det} (tolerance {tol_orth:e}); matrix {:?}", mf));
            } else {
                ctx.branch("ill-conditioned-not-judged");
            }
            // from_arc on arbitrary lengths
            let helper = if af[0].abs() < 0.9 { [1.0, 0.0, 0.0] } else { [0.0, 1.0, 0.0] };
            let perp = unit3(cross_f(af, helper));
            // every pair of the four lengths, and lengths that differ by 2^-j (j = 3, 5, ... 29: "equal lengths" decided with
            // a tolerance), either argument the longer one
            let mut lpairs: Vec<(f64, f64)> = lens.iter().flat_map(|x| lens.iter().map(move |y| (*x, *y))).collect();
            for j in (3..=29).step_by(2) {
                let d = 2f64.powi(-j);
                lpairs.extend([(1.0, 1.0 + d), (1.0 + d, 1.0), (0.2 * (1.0 + d), 0.2), (3.0, 3.0 * (1.0 + d))]);
            }
            for (l1, l2) in lpairs.iter().map(|(x, y)| (x, *y)) {
                let sc = |v: [T; 3], l: f64| -> Vector3<T> { mk_v3(std::array::from_fn(|j| v[j] * num_traits::cast::<f64, T>(l).unwrap())) };
                let (src, dst) = (sc(a, *l1), sc(b, l2));
                for fb in [None, Some(perp)] {
                    let fbt = fb.map(|p| mk_v3(std::array::from_fn(|j| num_traits::cast::<f64, T>(p[j]).unwrap())));
                    let q = Quaternion::from_arc(src, dst, fbt);
                    let tol = base_tol * 4.0 + if from_par < 1e-4 { 2.0 * from_par + 1e-15 } else { 0.0 };
                    if tol >= 1e-3 {
                        ctx.branch("from_arc-ill-conditioned-not-judged");
                        continue;
                    }
                    ctx.branch("from_arc-judged");
                    let m2 = q.magnitude2().f();
                    ctx.check((m2 - 1.0).abs() <= K_TOL * T::U * 8.0, &key(&format!("from_arc/unit/{cls}")), || format!("|q|^2 = {m2}"));
                    let ra = v3(q.rotate_vector(ca));
                    ctx.check(dist(ra, unit3(bf)) <= tol + K_TOL * T::U * 8.0, &key(&format!("from_arc/maps-src-to-dst/{cls}")), || format!("q*a = {:?}, b = {:?} (lengths {l1}, {l2}, fallback {:?})", ra, bf, fb));
                    ctx.check(q.s.f() >= -tol, &key(&format!("from_arc/smaller-angle/{cls}")), || format!("scalar part {:?} < 0: rotation by more than a half turn", q.s));
                    if cls == "antiparallel" {
                        // "using the fallback axis (or any perpendicular one)": a half turn about an axis perpendicular to src
                        let qv = [q.v.x.f(), q.v.y.f(), q.v.z.f()];
                        ctx.check(dot_f(qv, unit3(af)).abs() <= 1e-6 && q.s.f().abs() <= 1e-6, &key("from_arc/antiparallel-axis"), || format!("q = {:?}: not a half turn about an axis perpendicular to src (fallback {:?})", q, fb));
                    }
                }
            }
        },
    );
}

/// exactly opposite vectors (b = -a bit for bit, lengths powers of two): a half turn about an axis perpendicular to a,
/// the fallback axis when one is given
fn opposite3<T: Tier>(rep: &mut Report) {
    let us = alphabet::uv3(true);
    // (the last two: lengths far below / above the statement's 1e-3..1e3 band - "of any length")
    let (tiny, huge) = if T::NAME == "F" { (-30, 30) } else { (-250, 250) }; // fourth powers of the lengths still normal (8.5)
    let lens: [(i32, i32); 8] = [(0, 0), (-9, -9), (9, 9), (-9, 9), (3, -2), (-1, 0), (tiny, tiny), (huge, huge - 2)];
    // a next to a coordinate axis (either sense), 2^-k away for every second k: the default axis of the half turn is a
    // cross product with a coordinate axis, which degenerates there
    let mut near_axis: Vec<[f64; 3]> = Vec::new();
    for ax in 0..3 {
        for sg in [1.0, -1.0] {
            for k in (4..=(if T::NAME == "F" { 22 } else { 50 })).step_by(2) {
                let d = 2f64.powi(-k);
                let mut v = [0.0; 3];
                v[ax] = sg;
                v[(ax + 1) % 3] = d;
                v[(ax + 2) % 3] = -d * 0.75;
                let n = (1.0 + 1.5625 * d * d).sqrt();
                near_axis.push(v.map(|c| c / n));
            }
        }
    }
    rep.cases(
        "opposite3",
        T::NAME,
        &format!("{} rational unit vectors a (rounded) and {} unit vectors 2^-k from a coordinate axis, b = -a exactly; between_vectors (Quaternion, Basis3) and from_arc(2^i a, -2^j a, None | perpendicular axis) for (i, j) in {:?}", us.len(), near_axis.len(), lens),
        us.len() + near_axis.len(),
        Guard::states(20).distinct(20),
        |i, ctx| {
            let a: [T; 3] = if i < us.len() {
                let (x, d) = us[i];
                std::array::from_fn(|j| T::q(x[j], d))
            } else {
                near_axis[i - us.len()].map(|c| num_traits::cast::<f64, T>(c).unwrap())
            };
            let b: [T; 3] = a.map(|c| -c);
            let (af, bf): ([f64; 3], [f64; 3]) = (a.map(|c| c.f()), b.map(|c| c.f()));
            ctx.describe(|| format!("a={:?} b=-a", a));
            ctx.out(&i);
            let tol = K_TOL * T::U;
            let dist = |x: [T; 3], y: [f64; 3]| -> f64 { (0..3).map(|j| (x[j].f() - y[j]).powi(2)).sum::<f64>().sqrt() };
            let (ca, cb) = (mk_v3(a), mk_v3(b));
            let q: Quaternion<T> = Rotation::between_vectors(ca, cb);
            let qv = [q.v.x.f(), q.v.y.f(), q.v.z.f()];
            ctx.check((q.magnitude2().f() - 1.0).abs() <= tol, &key("between_vectors/Quaternion/opposite/unit"), || format!("q = {:?}", q));
            ctx.check(q.s.f().abs() <= tol, &key("between_vectors/Quaternion/opposite/half-turn"), || format!("q = {:?}: scalar part is not 0", q));
            ctx.check(dot_f(qv, af).abs() <= tol, &key("between_vectors/Quaternion/opposite/axis-perpendicular"), || format!("q = {:?}: axis not perpendicular to a", q));
            ctx.check(dist(v3(q.rotate_vector(ca)), bf) <= tol, &key("between_vectors/Quaternion/opposite/maps-a-to-b"), || format!("r(a) = {:?}", q.rotate_vector(ca)));
            let r: Basis3<T> = Rotation::between_vectors(ca, cb);
            ctx.check(dist(v3(r.rotate_vector(ca)), bf) <= tol, &key("between_vectors/Basis3/opposite/maps-a-to-b"), || format!("r(a) = {:?}", r.rotate_vector(ca)));
            // ... and it is a rotation (the point reflection -I also maps a to -a): orthonormal, determinant +1, a half turn
            let rm = mk_m3(basis3_arr(r));
            let g = m3(rm.transpose() * rm);
            let dev = (0..3).flat_map(|c| (0..3).map(move |rr| (c, rr))).map(|(c, rr)| (g[c][rr].f() - if c == rr { 1.0 } else { 0.0 }).abs()).fold(0.0, f64::max);
            let tr = basis3_arr(r);
            let trace = tr[0][0].f() + tr[1][1].f() + tr[2][2].f();
            ctx.check(dev <= tol && (rm.determinant().f() - 1.0).abs() <= tol && (trace + 1.0).abs() <= tol, &key("between_vectors/Basis3/opposite/half-turn"), || format!("{:?}: not a half turn (orthonormality defect {dev:e}, det {:?}, trace {trace})", tr, rm.determinant()));
            // opposite up to the last bit: one component of b moved by one unit in the last place (six ways), and lengths that
            // are not powers of two. Whether such a pair is treated as exactly opposite or not, the result is a rotation
            // taking a onto b to within the distance of the pair from opposite (a few roundings) - not noise
            for var in 0..8 {
                let mut b2 = b;
                let (l1, l2): (T, T) = if var < 6 {
                    let k = var / 2;
                    let bits = b2[k].f();
                    let step = if var % 2 == 0 { 1.0 + 2.0 * T::U } else { 1.0 - 2.0 * T::U };
                    b2[k] = num_traits::cast::<f64, T>(if bits == 0.0 { T::U * T::U } else { bits * step }).unwrap();
                    (T::one(), T::one())
                } else if var == 6 {
                    (T::q(3, 1), T::q(5, 7))
                } else {
                    (T::q(1, 3), T::q(11, 10))
                };
                let (s2, d2) = (mk_v3(a.map(|c| c * l1)), mk_v3(b2.map(|c| c * l2)));
                let (sf, df) = (v3(s2).map(|c| c.f()), v3(d2).map(|c| c.f()));
                let noise = 1e-4;
                if var < 6 {
                    let q: Quaternion<T> = Rotation::between_vectors(s2, d2);
                    ctx.check((q.magnitude2().f() - 1.0).abs() <= tol && dist(v3(q.rotate_vector(s2)), df) <= noise, &key("between_vectors/Quaternion/nearly-opposite"), || format!("between_vectors({:?}, {:?}) = {:?} maps a to {:?}", s2, d2, q, q.rotate_vector(s2)));
                }
                let q = Quaternion::from_arc(s2, d2, None);
                let img = v3(q.rotate_vector(mk_v3(unit3(sf).map(|c| num_traits::cast::<f64, T>(c).unwrap()))));
                ctx.check((q.magnitude2().f() - 1.0).abs() <= tol && dist(img, unit3(df)) <= noise, &key("from_arc/nearly-opposite"), || format!("from_arc({:?}, {:?}, None) = {:?} maps src^ to {:?}", s2, d2, q, img));
            }
            let helper = if af[0].abs() < 0.9 { [1.0, 0.0, 0.0] } else { [0.0, 1.0, 0.0] };
            let perp = unit3(cross_f(af, helper));
            let ua = unit3(af);
            // (and lengths that differ by 2^-j, either argument the longer one)
            let mut lens3: Vec<(i32, i32, f64, f64)> = lens.iter().map(|(x, y)| (*x, *y, 1.0, 1.0)).collect();
            for j in (3..=23).step_by(4) {
                let d = 2f64.powi(-j);
                lens3.extend([(0, 0, 1.0, 1.0 + d), (0, 0, 1.0 + d, 1.0), (1, 1, 1.0, 1.0 - d)]);
            }
            for (e1, e2, f1, f2) in lens3 {
                let sc = |v: [T; 3], e: i32, f: f64| -> Vector3<T> { mk_v3(v.map(|c| c * num_traits::cast::<f64, T>(2f64.powi(e) * f).unwrap())) };
                let (src, dst) = (sc(a, e1, f1), sc(b, e2, f2));
                for fb in [None, Some(perp)] {
                    let fbt = fb.map(|p| mk_v3(p.map(|c| num_traits::cast::<f64, T>(c).unwrap())));
                    let q = Quaternion::from_arc(src, dst, fbt);
                    let qv = [q.v.x.f(), q.v.y.f(), q.v.z.f()];
                    let what = format!("from_arc({f1} 2^{e1} a, -{f2} 2^{e2} a, {})", if fb.is_some() { "Some(axis)" } else { "None" });
                    ctx.check((q.magnitude2().f() - 1.0).abs() <= tol, &key("from_arc/opposite/unit"), || format!("{what} = {:?}", q));
                    ctx.check(q.s.f().abs() <= tol, &key("from_arc/opposite/half-turn"), || format!("{what} = {:?}: scalar part is not 0", q));
                    ctx.check(dist(v3(q.rotate_vector(mk_v3(ua.map(|c| num_traits::cast::<f64, T>(c).unwrap())))), ua.map(|c| -c)) <= tol * 2.0, &key("from_arc/opposite/maps-src-to-dst"), || format!("{what} = {:?}", q));
                    // with or without a fallback axis: "the fallback axis (or any perpendicular one)"
                    ctx.check(dot_f(qv, ua).abs() <= tol * 2.0, &key("from_arc/opposite/axis-perpendicular"), || format!("{what} = {:?}: axis not perpendicular to src", q));
                }
            }
        },
    );
}

fn float2<T: Tier>(rep: &mut Report) {
    let us = alphabet::uv2();
    let n = us.len();
    // near partners: b = a turned by a small angle, or by a small angle short of a half turn, either way
    let near2: [f64; 6] = [1e-3, -1e-3, 2e-6, -2e-6, PI - 1e-3, -(PI - 1e-3)];
    rep.cases(
        "float2",
        T::NAME,
        &format!("all {n}x{n} pairs of rational unit vectors in 2-D; each a with partners turned by {:?} rad", near2),
        n * n + n * near2.len(),
        Guard::states(100).distinct(100).need("clockwise", 10).need("counter-clockwise", 10),
        |i, ctx| {
            if i >= n * n {
                let (ai, th) = ((i - n * n) / near2.len(), near2[(i - n * n) % near2.len()]);
                let x = us[ai];
                let c = |v: f64| num_traits::cast::<f64, T>(v).unwrap();
                let af = [x.0[0] as f64 / x.1 as f64, x.0[1] as f64 / x.1 as f64];
                let a: [T; 2] = [c(af[0]), c(af[1])];
                let b: [T; 2] = [c(af[0] * th.cos() - af[1] * th.sin()), c(af[0] * th.sin() + af[1] * th.cos())];
                let cls = if th > 0.0 { "counter-clockwise" } else { "clockwise" };
                ctx.branch(cls);
                ctx.describe(|| format!("a={:?} b={:?} (a turned by {th} rad)", a, b));
                ctx.out(&(ai, th.to_bits()));
                let r: Basis2<T> = Rotation::between_vectors(mk_v2(a), mk_v2(b));
                let ra = v2(r.rotate_vector(mk_v2(a)));
                // a and b are unit only up to rounding: r(a) has the length of a and the direction of b
                let (la, lb) = ((a[0].f().powi(2) + a[1].f().powi(2)).sqrt(), (b[0].f().powi(2) + b[1].f().powi(2)).sqrt());
                let d = ((ra[0].f() / la - b[0].f() / lb).powi(2) + (ra[1].f() / la - b[1].f() / lb).powi(2)).sqrt();
                let tol = K_TOL * T::U;
                ctx.check(d <= tol, &key(&format!("between_vectors/Basis2/maps-a-to-b/near/{cls}")), || format!("r(a) = {:?} but b = {:?} (off by {d:e}, tolerance {tol:e})", ra, b));
                let m = basis2_arr(r);
                let ang = m[0][1].f().atan2(m[0][0].f());
                let want = (a[0].f() * b[1].f() - a[1].f() * b[0].f()).atan2(a[0].f() * b[0].f() + a[1].f() * b[1].f());
                ctx.check((ang - want).abs() <= tol, &key(&format!("between_vectors/Basis2/short-way/near/{cls}")), || format!("rotation angle {ang}, signed angle from a to b {want}"));
                return;
            }
            let (x, y) = (us[i / n], us[i % n]);
            let a: [T; 2] = [T::q(x.0[0], x.1), T::q(x.0[1], x.1)];
            let b: [T; 2] = [T::q(y.0[0], y.1), T::q(y.0[1], y.1)];
            let perp = x.0[0] * y.0[1] - x.0[1] * y.0[0];
            let dot = x.0[0] * y.0[0] + x.0[1] * y.0[1];
            let cls = if perp > 0 { "counter-clockwise" } else if perp < 0 { "clockwise" } else if dot > 0 { "parallel" } else { "antiparallel" };
            ctx.branch(cls);
            ctx.describe(|| format!("a={:?} b={:?} ({cls})", a, b));
            ctx.out(&(i / n, i % n));
            let r: Basis2<T> = Rotation::between_vectors(mk_v2(a), mk_v2(b));
            let ra = v2(r.rotate_vector(mk_v2(a)));
            let d = ((ra[0].f() - b[0].f()).powi(2) + (ra[1].f() - b[1].f()).powi(2)).sqrt();
            // acos is ill-conditioned at the ends of its range: an error eps in the dot product moves the angle by sqrt(2 eps)
            let theta = (perp as f64).atan2(dot as f64);
            let ill = theta.abs() < 1e-3 || (PI - theta.abs()) < 1e-3;
            let tol = K_TOL * T::U * 8.0 + if ill { 1e-7 } else { 0.0 };
            ctx.check(d <= tol, &key(&format!("between_vectors/Basis2/maps-a-to-b/{cls}")), || format!("r(a) = {:?} but b = {:?}", ra, b));
            // the rotation angle has the sign of perp_dot(a, b): clockwise when b is clockwise of a
            let m = basis2_arr(r);
            let ang = m[0][1].f().atan2(m[0][0].f());
            if !ill {
                ctx.check((ang - theta).abs() <= tol, &key(&format!("between_vectors/Basis2/short-way/{cls}")), || format!("rotation angle {ang}, signed angle from a to b {theta}"));
            }
            let also: Basis2<T> = Rotation2::from_angle(Rad(num_traits::cast::<f64, T>(theta).unwrap()));
            let _ = also;
        },
    );
}

fn main() {
    let mut rep = Report::from_args(P);
    rep.assume("exact tier: frames from rational unit quaternions and rotation by even lattice codes make every square root exact; from_arc's antiparallel branch needs sin/cos of pi/2 and is decided in the float tiers");
    rep.assume("float tiers: tolerance scaled by the condition factor 1 + 1/|a + b|; pairs within the statement's allowance (1e-7 rad, 1e-4 rad for from_arc) of parallel/antiparallel may be treated as exactly so; f32 judges well-separated pairs only");
    exact3(&mut rep);
    exact2(&mut rep);
    float3::<f64>(&mut rep);
    float3::<f32>(&mut rep);
    opposite3::<f64>(&mut rep);
    opposite3::<f32>(&mut rep);
    float2::<f64>(&mut rep);
    float2::<f32>(&mut rep);
    std::process::exit(rep.finish());
}
