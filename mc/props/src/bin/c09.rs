//! C09 — look_at / look_to build rigid view transforms with the documented handedness.
use cgmath::{Rotation, SquareMatrix, Transform};
use mc_props::*;

const P: &str = "C09";
fn key(s: &str) -> String {
    format!("{P}/{s}")
}

/// (rotation part, translation) of every 3-D entry point of one handedness
type Entry<T> = (&'static str, [[T; 3]; 3], Option<[T; 3]>);
/// what a rigid motion has besides rotation and translation: the homogeneous row (0,0,0,1) of a Matrix4, scale 1 of a Decomposed
type Aux<T> = Vec<(String, Vec<T>, Vec<T>)>;
fn entries<T: Tier>(rh: bool, eye: [T; 3], dir: [T; 3], up: [T; 3]) -> (Vec<Entry<T>>, Aux<T>) {
    let aux: std::cell::RefCell<Aux<T>> = std::cell::RefCell::new(Vec::new());
    let (e, d, u) = (mk_p3(eye), mk_v3(dir), mk_v3(up));
    let c = e + d;
    let lin4 = |m: Matrix4<T>| -> ([[T; 3]; 3], Option<[T; 3]>) {
        let a = m4(m);
        ([[a[0][0], a[0][1], a[0][2]], [a[1][0], a[1][1], a[1][2]], [a[2][0], a[2][1], a[2][2]]], Some([a[3][0], a[3][1], a[3][2]]))
    };
    let mut out: Vec<(&'static str, [[T; 3]; 3], Option<[T; 3]>)> = Vec::new();
    let mut deprecated_lh: Vec<(&'static str, [[T; 3]; 3], Option<[T; 3]>)> = Vec::new();
    let mut push4 = |name: &'static str, m: Matrix4<T>| {
        let (r, t) = lin4(m);
        out.push((name, r, t));
        let a = m4(m);
        aux.borrow_mut().push((format!("{name}/bottom-row=0,0,0,1"), vec![a[0][3], a[1][3], a[2][3], a[3][3]], vec![T::zero(), T::zero(), T::zero(), T::one()]));
    };
    // The deprecated spellings, judged after the current ones (so that the reference of the agreement clause is a current
    // constructor).  The inherent ones are documented with a hand (Matrix4::look_at_dir / look_at: right-handed,
    // Matrix3::look_at: left-handed).  The trait-level `Transform::look_at` only says "use look_at_rh or look_at_lh": each
    // implementor is judged in the hand it exhibits (the sign of the z component of the image of d) - it must be a
    // view transform of one of the two hands, which one is not stated.
    #[allow(deprecated)]
    let mut deprecated_rh: Vec<(&'static str, Matrix4<T>)> = if rh { vec![("Matrix4::look_at_dir (deprecated)", Matrix4::look_at_dir(e, d, u)), ("Matrix4::look_at (deprecated)", Matrix4::look_at(e, c, u))] } else { vec![] };
    let shows_rh = |r: [[T; 3]; 3]| -> bool { (mk_m3(r) * d).z < T::zero() };
    #[allow(deprecated)]
    {
        let t4 = <Matrix4<T> as Transform<Point3<T>>>::look_at(e, c, u);
        if shows_rh(lin4(t4).0) == rh {
            deprecated_rh.push(("Transform<Matrix4>::look_at (deprecated)", t4));
        }
        if !rh {
            deprecated_lh.push(("Matrix3::look_at (deprecated)", m3(Matrix3::look_at(d, u)), None));
        }
        let tm = m3(<Matrix3<T> as Transform<Point3<T>>>::look_at(e, c, u));
        if shows_rh(tm) == rh {
            deprecated_lh.push(("Transform<Matrix3>::look_at (deprecated)", tm, None));
        }
        let dq: Decomposed<Vector3<T>, Quaternion<T>> = Transform::look_at(e, c, u);
        let dqm = m3(Matrix3::from(dq.rot));
        if shows_rh(dqm) == rh {
            aux.borrow_mut().push(("Decomposed<Quaternion>::look_at (deprecated)/scale=1".to_string(), vec![dq.scale], vec![T::one()]));
            deprecated_lh.push(("Decomposed<Quaternion>::look_at (deprecated)", dqm, Some(v3(dq.disp))));
        }
    }
    if rh {
        push4("Matrix4::look_to_rh", Matrix4::look_to_rh(e, d, u));
        push4("Matrix4::look_at_rh", Matrix4::look_at_rh(e, c, u));
        push4("Transform<Matrix4>::look_at_rh", <Matrix4<T> as Transform<Point3<T>>>::look_at_rh(e, c, u));
    } else {
        push4("Matrix4::look_to_lh", Matrix4::look_to_lh(e, d, u));
        push4("Matrix4::look_at_lh", Matrix4::look_at_lh(e, c, u));
        push4("Transform<Matrix4>::look_at_lh", <Matrix4<T> as Transform<Point3<T>>>::look_at_lh(e, c, u));
    }
    if rh {
        out.push(("Matrix3::look_to_rh", m3(Matrix3::look_to_rh(d, u)), None));
        out.push(("Transform<Matrix3>::look_at_rh", m3(<Matrix3<T> as Transform<Point3<T>>>::look_at_rh(e, c, u)), None));
        let dq: Decomposed<Vector3<T>, Quaternion<T>> = Transform::look_at_rh(e, c, u);
        aux.borrow_mut().push(("Decomposed<Quaternion>::look_at_rh/scale=1".to_string(), vec![dq.scale], vec![T::one()]));
        out.push(("Decomposed<Quaternion>::look_at_rh", m3(Matrix3::from(dq.rot)), Some(v3(dq.disp))));
        let db: Decomposed<Vector3<T>, Basis3<T>> = Transform::look_at_rh(e, c, u);
        aux.borrow_mut().push(("Decomposed<Basis3>::look_at_rh/scale=1".to_string(), vec![db.scale], vec![T::one()]));
        out.push(("Decomposed<Basis3>::look_at_rh", basis3_arr(db.rot), Some(v3(db.disp))));
        // ... and as the view matrix a caller hands to the renderer: the conversion of the Decomposed value is judged as
        // one more Matrix4 constructor of this hand (agreement, eye to the origin, bottom row)
        {
            let mm: Matrix4<T> = Matrix4::from(dq);
            let (r, t) = lin4(mm);
            out.push(("Matrix4::from(Decomposed<Quaternion>::look_at_rh)", r, t));
            let a = m4(mm);
            aux.borrow_mut().push((format!("{}/bottom-row=0,0,0,1", "Matrix4::from(Decomposed<Quaternion>::look_at_rh)"), vec![a[0][3], a[1][3], a[2][3], a[3][3]], vec![T::zero(), T::zero(), T::zero(), T::one()]));
        }
        {
            let mm: Matrix4<T> = Matrix4::from(db);
            let (r, t) = lin4(mm);
            out.push(("Matrix4::from(Decomposed<Basis3>::look_at_rh)", r, t));
            let a = m4(mm);
            aux.borrow_mut().push((format!("{}/bottom-row=0,0,0,1", "Matrix4::from(Decomposed<Basis3>::look_at_rh)"), vec![a[0][3], a[1][3], a[2][3], a[3][3]], vec![T::zero(), T::zero(), T::zero(), T::one()]));
        }
    } else {
        out.push(("Matrix3::look_to_lh", m3(Matrix3::look_to_lh(d, u)), None));
        out.push(("Transform<Matrix3>::look_at_lh", m3(<Matrix3<T> as Transform<Point3<T>>>::look_at_lh(e, c, u)), None));
        let q: Quaternion<T> = Rotation::look_at(d, u);
        out.push(("Quaternion::look_at", m3(Matrix3::from(q)), None));
        let b: Basis3<T> = Rotation::look_at(d, u);
        out.push(("Basis3::look_at", basis3_arr(b), None));
        let dq: Decomposed<Vector3<T>, Quaternion<T>> = Transform::look_at_lh(e, c, u);
        aux.borrow_mut().push(("Decomposed<Quaternion>::look_at_lh/scale=1".to_string(), vec![dq.scale], vec![T::one()]));
        out.push(("Decomposed<Quaternion>::look_at_lh", m3(Matrix3::from(dq.rot)), Some(v3(dq.disp))));
        let db: Decomposed<Vector3<T>, Basis3<T>> = Transform::look_at_lh(e, c, u);
        aux.borrow_mut().push(("Decomposed<Basis3>::look_at_lh/scale=1".to_string(), vec![db.scale], vec![T::one()]));
        out.push(("Decomposed<Basis3>::look_at_lh", basis3_arr(db.rot), Some(v3(db.disp))));
        // ... and as the view matrix a caller hands to the renderer: the conversion of the Decomposed value is judged as
        // one more Matrix4 constructor of this hand (agreement, eye to the origin, bottom row)
        {
            let mm: Matrix4<T> = Matrix4::from(dq);
            let (r, t) = lin4(mm);
            out.push(("Matrix4::from(Decomposed<Quaternion>::look_at_lh)", r, t));
            let a = m4(mm);
            aux.borrow_mut().push((format!("{}/bottom-row=0,0,0,1", "Matrix4::from(Decomposed<Quaternion>::look_at_lh)"), vec![a[0][3], a[1][3], a[2][3], a[3][3]], vec![T::zero(), T::zero(), T::zero(), T::one()]));
        }
        {
            let mm: Matrix4<T> = Matrix4::from(db);
            let (r, t) = lin4(mm);
            out.push(("Matrix4::from(Decomposed<Basis3>::look_at_lh)", r, t));
            let a = m4(mm);
            aux.borrow_mut().push((format!("{}/bottom-row=0,0,0,1", "Matrix4::from(Decomposed<Basis3>::look_at_lh)"), vec![a[0][3], a[1][3], a[2][3], a[3][3]], vec![T::zero(), T::zero(), T::zero(), T::one()]));
        }
    }
    for (n, m) in deprecated_rh {
        let (r, t) = lin4(m);
        out.push((n, r, t));
        let a = m4(m);
        aux.borrow_mut().push((format!("{n}/bottom-row=0,0,0,1"), vec![a[0][3], a[1][3], a[2][3], a[3][3]], vec![T::zero(), T::zero(), T::zero(), T::one()]));
    }
    out.extend(deprecated_lh);
    (out, aux.into_inner())
}

/// the statement's clauses for one (eye, dir, up); `want` is the unique rotation they determine
/// `cond`: conditioning of the frame with respect to roundings of d/|d| - 1/sin of the angle between d and up; it widens
/// the clauses that compare with the one true rotation (and the constructors with each other), not the ones that
/// say the result is a rotation
fn judge3<T: Tier>(ctx: &mut Ctx, eye: [T; 3], dir: [T; 3], up: [T; 3], want_lh: [[T::M; 3]; 3], slack: f64, cond: f64) {
    let rslack = slack * cond.max(1.0);
    let (me, md, mu) = (lift_v(eye), lift_v(dir), lift_v(up));
    let dlen = model::vnorm(md);
    for rh in [false, true] {
        let hand = if rh { "rh" } else { "lh" };
        // right-handed = left-handed looking the other way with x and z mirrored: diag(-1,1,-1) * LH
        let want: [[T::M; 3]; 3] = if rh { std::array::from_fn(|c| [-want_lh[c][0], want_lh[c][1], -want_lh[c][2]]) } else { want_lh };
        let (es, aux) = entries::<T>(rh, eye, dir, up);
        for (name, got, want) in &aux {
            same_slice(ctx, &key(name), got, want);
        }
        for (name, rot, tr) in &es {
            let mr = lift_m(*rot);
            // the unique rigid motion fixed by the clauses
            let w: [[T::M; 3]; 3] = std::array::from_fn(|c| std::array::from_fn(|r| want[c][r].with_abs_err(4.0)));
            eq_mc::<T, 3>(ctx, &key(&format!("{name}/rotation")), *rot, w, rslack);
            // clause by clause, on the implementation's own result
            let g = model::mmul(model::mtranspose(mr), mr);
            let id = model::mident::<T::M, 3>();
            let gi: [[T::M; 3]; 3] = std::array::from_fn(|c| std::array::from_fn(|r| id[c][r].with_err_of(g[c][r]).with_abs_err(4.0)));
            eq_mc::<T, 3>(ctx, &key(&format!("{name}/orthonormal")), m3(mk_m3(*rot).transpose() * mk_m3(*rot)), gi, slack);
            eq_slice::<T>(ctx, &key(&format!("{name}/det+1")), &[mk_m3(*rot).determinant()], &[T::M::one().with_abs_err(8.0)], slack);
            let img_d = model::mvec(mr, md);
            let zsign = if rh { -dlen } else { dlen };
            let wd = [T::M::zero().with_err_of(img_d[0]).with_abs_err(4.0 * dlen.approx().abs()), T::M::zero().with_err_of(img_d[1]).with_abs_err(4.0 * dlen.approx().abs()), zsign.with_err_of(img_d[2])];
            eq_vc::<T, 3>(ctx, &key(&format!("{name}/dir-onto-{}z", if rh { "-" } else { "+" })), v3(mk_m3(*rot) * mk_v3(dir)), wd, slack);
            let img_u = v3(mk_m3(*rot) * mk_v3(up));
            let ulen = mu.iter().map(|x| x.approx() * x.approx()).sum::<f64>().sqrt();
            ctx.t();
            let tol = if T::EXACT { 0.0 } else { K_TOL * T::U * 16.0 * ulen * slack };
            if !(img_u[0].f().abs() <= tol && img_u[1].f() >= -tol) {
                ctx.fail(&key(&format!("{name}/up-into-x=0,y>=0")), || format!("image of up = {:?}", img_u));
            }
            if let Some(t) = tr {
                // eye goes to the origin: R*eye + t = 0
                let re = model::mvec(mr, me);
                let wt: [T::M; 3] = std::array::from_fn(|j| (-re[j]).with_abs_err(4.0 * me.iter().map(|x| x.approx() * x.approx()).sum::<f64>().sqrt()));
                eq_vc::<T, 3>(ctx, &key(&format!("{name}/eye-to-origin")), *t, wt, slack);
            }
        }
        // all constructors of one handedness agree (first entry as reference)
        let (n0, r0, _) = es[0];
        for (name, rot, _) in &es[1..] {
            if T::EXACT {
                same_slice(ctx, &key(&format!("agree-{hand}/{name}")), &flat_m(*rot), &flat_m(r0));
            } else {
                let w: [[T::M; 3]; 3] = std::array::from_fn(|c| std::array::from_fn(|r| r0[c][r].lift().with_abs_err(8.0)));
                eq_mc::<T, 3>(ctx, &key(&format!("agree-{hand}/{name}")), *rot, w, rslack);
            }
            let _ = n0;
        }
    }
}

fn frames3(level: usize) -> Vec<[[Ex; 3]; 3]> {
    alphabet::uq(level).iter().map(|(q, d)| model::qmat(std::array::from_fn(|j| Ex::q(q[j], *d)))).collect()
}

/// exact frames: every normalisation inside cgmath is a rational square root
fn frames<T: Tier>(rep: &mut Report) {
    let fr = frames3(rep.pick(0, 1));
    // lengths of d: 1/2, 1, 3 and a hair off 1 (an "already a unit vector" short cut)
    let lambdas: [R; 5] = [(1, 2), (1, 1), (3, 1), (257, 256), ((1 << 20) - 1, 1 << 20)];
    let alphas: [R; 3] = [(1, 1), (1, 2), (-2, 1)];
    // the last ones put up within 5e-3 rad (every tier) and 1e-6 rad (exact tier) of d: "not parallel" is all the statement asks
    let mut betas: Vec<R> = vec![(0, 1), (1, 1), (-3, 1), (200, 1)];
    if T::EXACT {
        betas.push((-1000000, 1));
    }
    let eyes: Vec<[R; 3]> = (0..4).map(|v| {
        let g = alphabet::generic(3, v);
        [g[0], g[1], g[2]]
    }).collect();
    let dims = [fr.len(), lambdas.len(), 3, betas.len(), eyes.len()];
    rep.cases(
        "frames3",
        T::NAME,
        &format!("{} rational frames R x dir = lambda*R e_z (5 lengths: 1/2, 1, 3, 257/256, 1 - 2^-20) x up = alpha*R e_y + beta*R e_z (3x{}, beta/alpha up to 200, exact tier 1e6) x {} eyes; 19 entry points", fr.len(), betas.len(), eyes.len()),
        alphabet::product_len(&dims),
        // (a constructor that also normalises `up` leaves the rational field on most of these frames: inconclusive, not wrong)
        Guard::states(200).distinct(100).inconclusive(if T::EXACT { 0.9 } else { 0.01 }),
        |i, ctx| {
            let d = alphabet::decode(i, &dims);
            let r = fr[d[0]];
            let (la, al, be) = (lambdas[d[1]], alphas[d[2]], betas[d[3]]);
            let exq = |x: R| Ex::q(x.0, x.1);
            let dir_x = model::vscale(r[2], exq(la));
            let up_x = model::vadd(model::vscale(r[1], exq(al)), model::vscale(r[2], exq(be)));
            let to_t = |v: [Ex; 3]| -> [T; 3] { std::array::from_fn(|j| num_traits::cast::<f64, T>(0.0).map(|_| T::q(v[j].num() as i64, v[j].den() as i64)).unwrap()) };
            let (dir, up, eye): ([T; 3], [T; 3], [T; 3]) = (to_t(dir_x), to_t(up_x), vec_from_r(&eyes[d[4]]));
            ctx.describe(|| format!("eye={:?} dir={:?} up={:?}", eye, dir, up));
            ctx.out(&d);
            // LH rotation: rows (side, up', dir^) = diag(s, s, 1) * R^T with s = sign(alpha)
            let s = if al.0 > 0 { Ex::int(1) } else { Ex::int(-1) };
            let want_x: [[Ex; 3]; 3] = std::array::from_fn(|c| [s * r[0][c], s * r[1][c], r[2][c]]);
            let want: [[T::M; 3]; 3] = std::array::from_fn(|c| std::array::from_fn(|rr| T::q(want_x[c][rr].num() as i64, want_x[c][rr].den() as i64).lift()));
            let cond = 1.0 + (be.0 as f64 / be.1 as f64 / (al.0 as f64 / al.1 as f64)).abs() / 16.0;
            judge3::<T>(ctx, eye, dir, up, want, 4.0, cond);
        },
    );
}

/// float tiers: integer grids (irrational lengths), non-parallel pairs only
fn grid3<T: Tier + Dom<M = Sh>>(rep: &mut Report) {
    let r: i64 = rep.pick(1, 2);
    grid3_at::<T>(rep, "grid3", r, (0, 0));
    // long and short inputs, inside the float domain (8.5: products of four components are still normal numbers, so that
    // an implementation may normalise before or after it combines d and up)
    let k = if T::NAME == "F" { 30 } else { 250 };
    for (nm, sc) in [("grid3/long", (k, k)), ("grid3/short", (-k, -k)), ("grid3/long-dir-short-up", (k, -k)), ("grid3/short-dir-long-up", (-k, k))] {
        grid3_at::<T>(rep, nm, 1, sc);
    }
    near_axis3::<T>(rep);
    steep3::<T>(rep);
}
fn grid3_at<T: Tier + Dom<M = Sh>>(rep: &mut Report, name: &str, r: i64, sc: (i32, i32)) {
    let side = (2 * r + 1) as usize;
    let dims = vec![side; 6];
    // scaled systems: eye at the origin, so that target = eye + d carries d exactly whatever its length
    // (unscaled grid: two eyes near the origin and a far one - the translation is -R eye, exact to the rounding of its terms)
    let eyes: Vec<[T; 3]> = if sc == (0, 0) {
        let mut e: Vec<[T; 3]> = (0..2).map(|v| vec_from_r::<T, 3>(&alphabet::generic(3, v))).collect();
        e.push(vec_from_r::<T, 3>(&alphabet::generic(3, 2).iter().map(|r| (r.0 << 13, r.1)).collect::<Vec<_>>()));
        e
    } else {
        vec![[T::zero(); 3]]
    };
    let (sd, su): (T, T) = (num_traits::cast::<f64, T>(2f64.powi(sc.0)).unwrap(), num_traits::cast::<f64, T>(2f64.powi(sc.1)).unwrap());
    rep.cases(
        name,
        T::NAME,
        &format!("all (dir, up) over {{-{r}..{r}}}^6 with dir x up != 0, dir scaled by 2^{}, up by 2^{}, {} eye(s)", sc.0, sc.1, eyes.len()),
        alphabet::product_len(&dims) * eyes.len(),
        Guard::states(200).distinct(100),
        |i, ctx| {
            let n1 = alphabet::product_len(&dims);
            let d = alphabet::decode(i % n1, &dims);
            let di: [i64; 3] = std::array::from_fn(|j| d[j] as i64 - r);
            let ui: [i64; 3] = std::array::from_fn(|j| d[3 + j] as i64 - r);
            let cr = [di[1] * ui[2] - di[2] * ui[1], di[2] * ui[0] - di[0] * ui[2], di[0] * ui[1] - di[1] * ui[0]];
            let dir: [T; 3] = std::array::from_fn(|j| T::int(di[j]) * sd);
            let up: [T; 3] = std::array::from_fn(|j| T::int(ui[j]) * su);
            let eye = eyes[i / n1];
            ctx.describe(|| format!("eye={:?} dir={:?} up={:?}", eye, dir, up));
            ctx.out(&(d.clone(), i / n1));
            if cr == [0, 0, 0] {
                ctx.skip("dir parallel to up or zero (outside the statement)");
                return;
            }
            // reference frame in f64: f = dir^, side = (up x f)^, up' = f x side; LH rows (side, up', f)
            let (md, mu): ([Sh; 3], [Sh; 3]) = (lift_v(dir), lift_v(up));
            let f = model::vnormalize(md);
            let sd = model::vnormalize(model::cross(mu, f));
            let u2 = model::cross(f, sd);
            let want: [[Sh; 3]; 3] = std::array::from_fn(|c| [sd[c], u2[c], f[c]]);
            judge3::<T>(ctx, eye, dir, up, want, 8.0, 1.0);
        },
    );
}

/// float tiers: viewing directions next to a coordinate axis (either sense) with rolled up vectors - the shape a
/// "looking along z already" short cut would test for, exactly and off by less than epsilon, 2^-30, 2^-22
fn near_axis3<T: Tier + Dom<M = Sh>>(rep: &mut Report) {
    let ds = [0.0, T::U / 64.0, 2f64.powi(-30), 2f64.powi(-22)];
    let ups: [[f64; 3]; 4] = [[1.0, 1.0, 0.5], [3.0, 4.0, 1.0], [-2.0, 0.5, 1.5], [0.25, -1.0, -3.0]];
    let dims = [3usize, 2, ds.len(), ups.len(), 2];
    rep.cases(
        "grid3/near-axis",
        T::NAME,
        "dir = +-e_k (k = x, y, z; lengths 1 and 3) moved sideways by {0, u/64, 2^-30, 2^-22} x 4 rolled up vectors x 2 eyes",
        alphabet::product_len(&dims) * 2,
        Guard::states(100).distinct(50),
        |i, ctx| {
            let n1 = alphabet::product_len(&dims);
            let d = alphabet::decode(i % n1, &dims);
            let c = |x: f64| num_traits::cast::<f64, T>(x).unwrap();
            let (k, sg, dd, len) = (d[0], if d[1] == 0 { 1.0 } else { -1.0 }, ds[d[2]], if d[4] == 0 { 1.0 } else { 3.0 });
            let mut df = [0.0f64; 3];
            df[k] = sg * len;
            df[(k + 1) % 3] = dd * len;
            df[(k + 2) % 3] = -dd * len / 2.0;
            let dir: [T; 3] = df.map(c);
            let up: [T; 3] = ups[d[3]].map(c);
            let eye: [T; 3] = vec_from_r::<T, 3>(&alphabet::generic(3, i / n1));
            ctx.describe(|| format!("eye={:?} dir={:?} up={:?}", eye, dir, up));
            ctx.out(&(d.clone(), i / n1));
            let (md, mu): ([Sh; 3], [Sh; 3]) = (lift_v(dir), lift_v(up));
            let f = model::vnormalize(md);
            let sd = model::vnormalize(model::cross(mu, f));
            let u2 = model::cross(f, sd);
            let want: [[Sh; 3]; 3] = std::array::from_fn(|cc| [sd[cc], u2[cc], f[cc]]);
            judge3::<T>(ctx, eye, dir, up, want, 8.0, 1.0);
        },
    );
}

/// float tiers: looking almost straight along the up vector, with `up` exactly a coordinate axis (the usual world up):
/// the statement only needs them not parallel
fn steep3<T: Tier + Dom<M = Sh>>(rep: &mut Report) {
    let ks: Vec<i32> = (2..=16).step_by(2).collect();
    let dims = [3usize, 2, 2, ks.len(), 2];
    rep.cases(
        "grid3/steep",
        T::NAME,
        &format!("up = e_k or 2.5 e_k exactly, dir = +-up direction tilted by 2^-j (j in {:?}) in two ways, 2 eyes", ks),
        alphabet::product_len(&dims),
        Guard::states(50).distinct(50),
        |i, ctx| {
            let d = alphabet::decode(i, &dims);
            let c = |x: f64| num_traits::cast::<f64, T>(x).unwrap();
            let (k, sg, t) = (d[0], if d[1] == 0 { 1.0 } else { -1.0 }, 2f64.powi(-ks[d[3]]));
            let mut upf = [0.0f64; 3];
            upf[k] = if d[2] == 0 { 1.0 } else { 2.5 };
            let mut df = [0.0f64; 3];
            df[k] = sg * 3.0;
            df[(k + 1) % 3] = 3.0 * t * if d[4] == 0 { 1.0 } else { -0.6 };
            df[(k + 2) % 3] = 3.0 * t * if d[4] == 0 { 0.0 } else { 0.8 };
            let (dir, up): ([T; 3], [T; 3]) = (df.map(c), upf.map(c));
            let eye: [T; 3] = vec_from_r::<T, 3>(&alphabet::generic(3, d[4]));
            ctx.describe(|| format!("eye={:?} dir={:?} up={:?}", eye, dir, up));
            ctx.out(&d);
            let (md, mu): ([Sh; 3], [Sh; 3]) = (lift_v(dir), lift_v(up));
            let f = model::vnormalize(md);
            let sd = model::vnormalize(model::cross(mu, f));
            let u2 = model::cross(f, sd);
            let want: [[Sh; 3]; 3] = std::array::from_fn(|cc| [sd[cc], u2[cc], f[cc]]);
            // conditioning: 1 / sin(angle between d and up) = 1 / t
            judge3::<T>(ctx, eye, dir, up, want, 8.0, 1.0 + 1.0 / (16.0 * t));
        },
    );
}

fn planar<T: Tier>(rep: &mut Report) {
    let us = alphabet::uv2();
    let lambdas: [R; 5] = [(1, 2), (1, 1), (3, 1), (257, 256), ((1 << 20) - 1, 1 << 20)];
    let ups: Vec<[R; 2]> = (0..6).map(|v| {
        let g = alphabet::generic(2, v % 4);
        if v < 4 { [g[0], g[1]] } else { [(g[0].0 * -1, g[0].1), g[1]] }
    }).collect();
    // float tiers: also very short and very long d (2-D look_at needs |d|^2 only)
    let scales: Vec<i32> = if T::EXACT { vec![0] } else if T::NAME == "F" { vec![0, -30, 30] } else { vec![0, -250, 250] };
    // up codes beyond the generic ones: +-d turned by +-1/256 (0.22 degrees from parallel / antiparallel, on either side)
    let n_up = ups.len() + 4;
    let dims = [us.len(), lambdas.len(), n_up, scales.len()];
    rep.cases(
        "planar",
        T::NAME,
        &format!("{} rational directions x 5 lengths x {} up vectors (both sides; four of them 1/256 rad from +-d) x scales 2^{:?}; Matrix2/Basis2 look_at and look_at_stable", us.len(), n_up, scales),
        alphabet::product_len(&dims),
        Guard::states(100).distinct(50).need("up-clockwise", 5).need("up-counter-clockwise", 5).inconclusive(if T::EXACT { 0.9 } else { 0.0 }),
        |i, ctx| {
            let d = alphabet::decode(i, &dims);
            let (un, ud) = us[d[0]];
            let la = lambdas[d[1]];
            let sc: T = if scales[d[3]] == 0 { T::one() } else { num_traits::cast::<f64, T>(2f64.powi(scales[d[3]])).unwrap() };
            let dir: [T; 2] = [T::q(un[0] * la.0, ud * la.1) * sc, T::q(un[1] * la.0, ud * la.1) * sc];
            let up: [T; 2] = if d[2] < ups.len() {
                vec_from_r(&ups[d[2]])
            } else {
                let code = d[2] - ups.len();
                let (sg, t) = (if code & 1 == 0 { T::one() } else { -T::one() }, if code & 2 == 0 { T::q(1, 256) } else { T::q(-1, 256) });
                let (ux, uy) = (T::q(un[0], ud), T::q(un[1], ud));
                [sg * ux - t * uy, sg * uy + t * ux]
            };
            ctx.describe(|| format!("dir={:?} up={:?}", dir, up));
            ctx.out(&d);
            let unit: [T::M; 2] = [T::q(un[0], ud).lift(), T::q(un[1], ud).lift()];
            let perp = dir[0].f() * up[1].f() - dir[1].f() * up[0].f();
            ctx.branch(if perp > 0.0 { "up-counter-clockwise" } else if perp < 0.0 { "up-clockwise" } else { "up-parallel" });
            let b: Basis2<T> = Rotation::look_at(mk_v2(dir), mk_v2(up));
            let mats: Vec<(&str, [[T; 2]; 2], bool)> = vec![
                ("Matrix2::look_at", m2(Matrix2::look_at(mk_v2(dir), mk_v2(up))), true),
                ("Basis2::look_at", basis2_arr(b), true),
                ("Matrix2::look_at_stable(false)", m2(Matrix2::look_at_stable(mk_v2(dir), false)), false),
                ("Matrix2::look_at_stable(true)", m2(Matrix2::look_at_stable(mk_v2(dir), true)), false),
                ("Basis2::look_at_stable(false)", basis2_arr(Basis2::look_at_stable(mk_v2(dir), false)), false),
                ("Basis2::look_at_stable(true)", basis2_arr(Basis2::look_at_stable(mk_v2(dir), true)), false),
            ];
            for (name, m, with_up) in mats {
                let w1: [T::M; 2] = [unit[0].with_abs_err(4.0), unit[1].with_abs_err(4.0)];
                eq_vc::<T, 2>(ctx, &key(&format!("{name}/first-column=d/|d|")), m[0], w1, 4.0);
                let mm = lift_m(m);
                let g = model::mmul(model::mtranspose(mm), mm);
                let id = model::mident::<T::M, 2>();
                let gi: [[T::M; 2]; 2] = std::array::from_fn(|c| std::array::from_fn(|r| id[c][r].with_err_of(g[c][r]).with_abs_err(4.0)));
                eq_mc::<T, 2>(ctx, &key(&format!("{name}/orthonormal-columns")), m2(mk_m2(m).transpose() * mk_m2(m)), gi, 4.0);
                if with_up && perp != 0.0 {
                    let side = m[1][0].f() * up[0].f() + m[1][1].f() * up[1].f();
                    ctx.check(side > 0.0, &key(&format!("{name}/second-column-on-up-side")), || format!("second column {:?} . up = {side}", m[1]));
                }
            }
        },
    );
}

fn main() {
    let mut rep = Report::from_args(P);
    rep.assume("exact frames: dir = lambda*R e_z, up = alpha*R e_y + beta*R e_z for rational rotation matrices R (every non-parallel (dir, up) pair has this form for some frame; the restriction is rational length, not geometry); the clauses determine the rotation uniquely, which is also compared");
    rep.assume("the deprecated look_at / look_at_dir spellings are judged as the constructors they are documented to be (rh for Matrix4, lh for Matrix3 and Decomposed); the 2-D Transform::look_at_* of Matrix3 are not mentioned by the statement and not judged; look_at_stable is judged only for what the statement fixes");
    set_lattice(None);
    frames::<Ex>(&mut rep);
    frames::<f64>(&mut rep);
    frames::<f32>(&mut rep);
    grid3::<f64>(&mut rep);
    grid3::<f32>(&mut rep);
    planar::<Ex>(&mut rep);
    planar::<f64>(&mut rep);
    planar::<f32>(&mut rep);
    std::process::exit(rep.finish());
}
