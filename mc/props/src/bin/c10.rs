//! C10 — projections map the view volume onto the clip cube and reject bad parameters.
use cgmath::{frustum, ortho, perspective, planar, Angle, Ortho, Perspective, PerspectiveFov, PlanarFov, Transform};
use mc_props::*;
use std::f64::consts::PI;

const P: &str = "C10";
fn key(s: &str) -> String {
    format!("{P}/{s}")
}

fn windows(fine: bool) -> Vec<[R; 6]> {
    // (l, r, b, t, n, f): l < r, b < t, 0 < n < f, asymmetric
    // (thorough: a fourth, fifth value per parameter - wide and narrow windows, planes far apart and close together)
    let pick = |v: &[R]| -> Vec<R> { if fine { v.to_vec() } else { v[..3].to_vec() } };
    let ls = pick(&[(-3, 1), (-1, 1), (1, 2), (-40, 1), (7, 3)]);
    let ws = pick(&[(1, 1), (5, 2), (4, 1), (1, 16), (100, 1)]);
    let bs = pick(&[(-2, 1), (-1, 2), (1, 1), (-25, 2), (9, 4)]);
    let hs = pick(&[(1, 2), (3, 1), (7, 2), (1, 32), (60, 1)]);
    let ns = pick(&[(1, 2), (1, 1), (3, 1), (1, 100), (10, 1)]);
    let ds = pick(&[(1, 2), (2, 1), (7, 1), (1, 64), (1000, 1)]);
    let add = |a: R, b: R| -> R { (a.0 * b.1 + b.0 * a.1, a.1 * b.1) };
    let mut out = Vec::new();
    for &l in &ls {
        for &w in &ws {
            for &b in &bs {
                for &h in &hs {
                    for &n in &ns {
                        for &d in &ds {
                            out.push([l, add(l, w), b, add(b, h), n, add(n, d)]);
                        }
                    }
                }
            }
        }
    }
    // every window over one small alphabet: all the coincidences between the six parameters (l = -r, b = l, t = r,
    // n = r, a border at 0 ...) that a fast path for "centred" or "square" windows would key on
    let al: Vec<i64> = if fine { (-4..=5).collect() } else { (-2..=3).collect() };
    for (li, l) in al.iter().enumerate() {
        for r in &al[li + 1..] {
            for (bi, b) in al.iter().enumerate() {
                for t in &al[bi + 1..] {
                    for (n, f) in if fine { vec![(1, 2), (2, 3), (1, 3), (1, 4), (2, 5), (3, 4), (4, 5)] } else { vec![(1, 2), (2, 3), (1, 3)] } {
                        out.push([(*l, 1), (*r, 1), (*b, 1), (*t, 1), (n, 1), (f, 1)]);
                    }
                }
            }
        }
    }
    // planes at negative distances (both behind the eye; one on either side): frustum only demands near <= far
    let extra: Vec<[R; 6]> = out.iter().step_by(61).flat_map(|w| [[w[0], w[1], w[2], w[3], (-w[5].0, w[5].1), (-w[4].0, w[4].1)], [w[0], w[1], w[2], w[3], (-w[4].0, w[4].1), w[5]]]).collect();
    out.extend(extra);
    out
}

/// image of p under M: through M*(p,1) with division by w, and through Transform::transform_point
fn images<T: Tier>(m: Matrix4<T>, p: [T; 3]) -> ([T; 3], T, [T; 3]) {
    let h = m * mk_v4([p[0], p[1], p[2], T::one()]);
    let ndc = [h.x / h.w, h.y / h.w, h.z / h.w];
    let tp = p3(Transform::<Point3<T>>::transform_point(&m, mk_p3(p)));
    (ndc, h.w, tp)
}

fn boxes<T: Tier>(rep: &mut Report) {
    let ws = windows(rep.thorough());
    let ws: Vec<[R; 6]> = ws;
    rep.cases(
        "ortho+frustum",
        T::NAME,
        &format!("{} parameter tuples (l<r, b<t, n<f: {} asymmetric ones and all over the alphabet {} with 0<n, the rest with n<f<0 or n<0<f) x 27 probes of the box (ortho) and 18 of the near/far rectangles (frustum)", ws.len(), if rep.thorough() { "5^6" } else { "3^6" }, if rep.thorough() { "{-4..5}" } else { "{-2..3}" }),
        ws.len(),
        Guard::states(100).distinct(100),
        |i, ctx| {
            let w: [T; 6] = vec_from_r(&ws[i]);
            let [l, r, b, t, n, f] = w;
            ctx.describe(|| format!("l={:?} r={:?} b={:?} t={:?} n={:?} f={:?}", l, r, b, t, n, f));
            ctx.out(&ws[i]);
            let mw: [T::M; 6] = lift_v(w);
            let half = T::M::ratio(1, 2);
            let lerp = |a: T::M, b: T::M, u: i64| -> T::M { a + (b - a) * (T::M::int(u + 1) * half) };
            // ---- ortho: the box [l,r]x[b,t]x[-n,-f] onto [-1,1]^3, near -> -1, far -> +1
            let mo = ortho(l, r, b, t, n, f);
            for u in -1..=1 {
                for v in -1..=1 {
                    for s in -1..=1 {
                        let pm = [lerp(mw[0], mw[1], u), lerp(mw[2], mw[3], v), -lerp(mw[4], mw[5], s)];
                        let p: [T; 3] = lower_v::<T, 3>(pm);
                        let (ndc, wv, tp) = images(mo, p);
                        let scale = pm.iter().fold(1.0f64, |a, x| a.max(x.approx().abs()));
                        let want: [T::M; 3] = [T::M::int(u).with_abs_err(8.0 * scale), T::M::int(v).with_abs_err(8.0 * scale), T::M::int(s).with_abs_err(8.0 * scale)];
                        eq_vc::<T, 3>(ctx, &key("ortho/box-to-cube"), ndc, want, 4.0);
                        eq_vc::<T, 3>(ctx, &key("ortho/transform_point"), tp, want, 4.0);
                        same_slice(ctx, &key("ortho/affine(w=1)"), &[wv], &[T::one()]);
                    }
                }
            }
            // ---- frustum: near rectangle and the similar far rectangle onto the z = -1 / +1 faces
            let mf = frustum(l, r, b, t, n, f);
            for (s, depth) in [(-1i64, mw[4]), (1, mw[5])] {
                let k = depth / mw[4];
                for u in -1..=1 {
                    for v in -1..=1 {
                        let pm = [lerp(mw[0], mw[1], u) * k, lerp(mw[2], mw[3], v) * k, -depth];
                        let p: [T; 3] = lower_v::<T, 3>(pm);
                        let (ndc, wv, tp) = images(mf, p);
                        let scale = pm.iter().fold(1.0f64, |a, x| a.max(x.approx().abs()));
                        let want: [T::M; 3] = [T::M::int(u).with_abs_err(8.0 * scale), T::M::int(v).with_abs_err(8.0 * scale), T::M::int(s).with_abs_err(8.0 * scale)];
                        eq_vc::<T, 3>(ctx, &key("frustum/rect-to-face"), ndc, want, 4.0);
                        eq_vc::<T, 3>(ctx, &key("frustum/transform_point"), tp, want, 4.0);
                        // division is by w = -z
                        eq_slice::<T>(ctx, &key("frustum/w=-z"), &[wv], &[depth.with_abs_err(4.0)], 4.0);
                    }
                }
            }
        },
    );
}

/// ortho states no precondition: a window given right-to-left, top-to-bottom, with near behind far, or with planes at
/// zero or negative distance is as valid as any other, and the statement's map (l -> -1, r -> +1, ..., near -> -1,
/// far -> +1) is the same affine formula
fn ortho_unordered<T: Tier>(rep: &mut Report) {
    let base: Vec<[R; 6]> = windows(rep.thorough()).into_iter().step_by(13).collect();
    // bit k of the mask exchanges the k-th pair; variants 8..10 move the planes to zero / negative distances
    let nvar = 11;
    rep.cases(
        "ortho/unordered",
        T::NAME,
        &format!("{} windows x {{7 ways to exchange l/r, b/t, n/f; near = 0; near < 0 < far; both planes negative}} x 27 probes; also through Ortho{{..}}.into()", base.len()),
        base.len() * nvar,
        Guard::states(50).distinct(50),
        |i, ctx| {
            let (bi, var) = (i / nvar, i % nvar + 1);
            let mut w = base[bi];
            if var <= 7 {
                for k in 0..3 {
                    if var >> k & 1 == 1 {
                        w.swap(2 * k, 2 * k + 1);
                    }
                }
            } else {
                let d = (w[5].0 * w[4].1 - w[4].0 * w[5].1, w[4].1 * w[5].1); // far - near > 0
                match var {
                    8 => { w[4] = (0, 1); w[5] = d; }
                    9 => { w[4] = (-d.0, d.1 * 2); w[5] = (d.0, d.1 * 2); }
                    _ => { w[5] = (-w[4].0, w[4].1); w[4] = (-w[4].0 * d.1 - d.0 * w[4].1, w[4].1 * d.1); }
                }
            }
            let wt: [T; 6] = vec_from_r(&w);
            let [l, r, b, t, n, f] = wt;
            ctx.describe(|| format!("l={:?} r={:?} b={:?} t={:?} n={:?} f={:?}", l, r, b, t, n, f));
            ctx.out(&(bi, var));
            let mw: [T::M; 6] = lift_v(wt);
            let half = T::M::ratio(1, 2);
            let lerp = |a: T::M, b: T::M, u: i64| -> T::M { a + (b - a) * (T::M::int(u + 1) * half) };
            let mo = ortho(l, r, b, t, n, f);
            let mi: Matrix4<T> = Ortho { left: l, right: r, bottom: b, top: t, near: n, far: f }.into();
            if T::EXACT {
                same_slice(ctx, &key("Ortho::into=ortho"), &flat_m(m4(mi)), &flat_m(m4(mo)));
            } else {
                let (fi, fo) = (flat_m(m4(mi)), flat_m(m4(mo)));
                ctx.check((0..16).all(|k| (fi[k].f() - fo[k].f()).abs() <= 8.0 * T::U * fo[k].f().abs()), &key("Ortho::into=ortho"), || format!("Ortho{{..}}.into() = {:?}, ortho(..) = {:?}", fi, fo));
            }
            for u in -1..=1 {
                for v in -1..=1 {
                    for s in -1..=1 {
                        let pm = [lerp(mw[0], mw[1], u), lerp(mw[2], mw[3], v), -lerp(mw[4], mw[5], s)];
                        let p: [T; 3] = lower_v::<T, 3>(pm);
                        let (ndc, wv, tp) = images(mo, p);
                        let scale = pm.iter().fold(1.0f64, |a, x| a.max(x.approx().abs()));
                        let want: [T::M; 3] = [T::M::int(u).with_abs_err(8.0 * scale), T::M::int(v).with_abs_err(8.0 * scale), T::M::int(s).with_abs_err(8.0 * scale)];
                        eq_vc::<T, 3>(ctx, &key("ortho/unordered/box-to-cube"), ndc, want, 4.0);
                        eq_vc::<T, 3>(ctx, &key("ortho/unordered/transform_point"), tp, want, 4.0);
                        same_slice(ctx, &key("ortho/unordered/affine(w=1)"), &[wv], &[T::one()]);
                    }
                }
            }
        },
    );
}

fn fov_cases<T: Tier + Dom<M = Sh>>(rep: &mut Report) {
    let fovs: Vec<f64> = if rep.quick() { (1..=15).map(|j| j as f64 * 0.2).collect() } else { (1..=155).map(|j| j as f64 * 0.02).collect() };
    let mut aspects: Vec<f64> = vec![0.5, 1.0, 16.0 / 9.0, -1.0];
    // the last pair has the far plane nearer than the near plane (reversed depth): no stated precondition forbids it
    let mut nf: Vec<(f64, f64)> = vec![(0.5, 1.0), (1.0, 100.0), (0.1, 3.0), (3.0, 3.5), (3.0, 0.5)];
    if rep.thorough() {
        // common and uncommon screen shapes, every quarter up to 3; planes far apart, close together, large, small
        aspects.extend([4.0 / 3.0, 1.25, 1.6, 1.7, 1.75, 1.85, 21.0 / 9.0, 2.39, 3.0, 0.25, 0.5625, 0.75, 10.0, 0.01]);
        nf.extend([(0.01, 1000.0), (1.0, 1.0009765625), (100.0, 1e5), (1e-3, 2e-3), (2.5, 40.0), (1.0, 1e7), (7.0, 11.0)]);
    }
    let dims = [fovs.len(), aspects.len(), nf.len(), 2];
    rep.cases(
        "perspective",
        T::NAME,
        &format!("{} fovy values x {} aspects x {} (near, far) pairs (one reversed), in Rad and in Deg", fovs.len(), aspects.len(), nf.len()),
        alphabet::product_len(&dims),
        Guard::states(50).distinct(50),
        |i, ctx| {
            let d = alphabet::decode(i, &dims);
            let c = |x: f64| num_traits::cast::<f64, T>(x).unwrap();
            let (fov, asp, (n, f), in_deg) = (fovs[d[0]], c(aspects[d[1]]), nf[d[2]], d[3] == 1);
            let (n, f) = (c(n), c(f));
            ctx.describe(|| format!("fovy={fov} {} aspect={:?} near={:?} far={:?}", if in_deg { "rad (given in degrees)" } else { "rad" }, asp, n, f));
            ctx.out(&d);
            let (m, fr): (Matrix4<T>, Rad<T>) = if in_deg {
                let dg = Deg(c(fov * 180.0 / PI));
                (perspective(dg, asp, n, f), dg.into())
            } else {
                (perspective(Rad(c(fov)), asp, n, f), Rad(c(fov)))
            };
            // = frustum of the symmetric window of half-height n*tan(fovy/2), half-width aspect times that
            let half = Sh::exact(fr.0.f()) * Sh::exact(0.5);
            let ymax = Sh::exact(n.f()) * half.tan();
            let xmax = ymax * Sh::exact(asp.f());
            // the frustum matrix of that window (glFrustum's formula over the shadow field; cgmath's own
            // frustum() is judged by its action in system ortho+frustum and compared here when the window is valid)
            let (nn, ff) = (Sh::exact(n.f()), Sh::exact(f.f()));
            let (l_, r_, b_, t_) = (-xmax, xmax, -ymax, ymax);
            let two = Sh::exact(2.0);
            let z = Sh::exact(0.0);
            let wmodel: [[Sh; 4]; 4] = [
                [two * nn / (r_ - l_), z, z, z],
                [z, two * nn / (t_ - b_), z, z],
                [(r_ + l_) / (r_ - l_), (t_ + b_) / (t_ - b_), -(ff + nn) / (ff - nn), Sh::exact(-1.0)],
                [z, z, -(two * ff * nn) / (ff - nn), z],
            ];
            eq_mc::<T, 4>(ctx, &key("perspective=frustum(symmetric)"), m4(m), wmodel, 4.0);
            if asp.f() > 0.0 && n.f() < f.f() {
                let lo = |x: Sh| -> T { c(x.v) };
                let want = frustum(lo(-xmax), lo(xmax), lo(-ymax), lo(ymax), n, f);
                let wm = m4(want);
                let rel = ymax.e / ymax.v.abs().max(1e-300) + 8.0;
                let w2: [[Sh; 4]; 4] = std::array::from_fn(|cc| std::array::from_fn(|r| Sh { v: wm[cc][r].f(), e: wm[cc][r].f().abs() * rel }));
                eq_mc::<T, 4>(ctx, &key("perspective=frustum(symmetric)/via-frustum()"), m4(m), w2, 4.0);
            }
            // PerspectiveFov::to_perspective describes the same window
            let pf = PerspectiveFov { fovy: fr, aspect: asp, near: n, far: f };
            let p = pf.to_perspective();
            let got = [p.left, p.right, p.bottom, p.top, p.near, p.far];
            let exp = [-xmax, xmax, -ymax, ymax, Sh::exact(n.f()), Sh::exact(f.f())];
            eq_slice::<T>(ctx, &key("to_perspective"), &got, &exp, 4.0);
            let m2: Matrix4<T> = pf.into();
            // the struct route describes the same matrix (the same numbers in this implementation; the statement needs the same map)
            eq_mc::<T, 4>(ctx, &key("PerspectiveFov::into=perspective"), m4(m2), wmodel, 4.0);
        },
    );
    // planar
    let fovs: Vec<f64> = if rep.quick() { (-15..=15).map(|j| j as f64 * 0.2).collect() } else { (-155..=155).map(|j| j as f64 * 0.02).collect() };
    let hs: [f64; 3] = [0.5, 2.0, 7.0];
    let nfs: [(f64, f64); 5] = [(1.0, 10.0), (0.5, 2.0), (10.0, 1.0), (-4.0, 4.0), (-1.0, -3.0)];
    let dims = [fovs.len(), aspects.len(), hs.len(), nfs.len(), 2];
    rep.cases(
        "planar",
        T::NAME,
        &format!("{} fovy values (negative, zero, positive) x {} aspects x 3 heights x 5 (near, far) pairs (reversed, straddling the origin, behind it), in Rad and in Deg", fovs.len(), aspects.len()),
        alphabet::product_len(&dims),
        Guard::states(50).distinct(30).need("judged", 30),
        |i, ctx| {
            let d = alphabet::decode(i, &dims);
            let c = |x: f64| num_traits::cast::<f64, T>(x).unwrap();
            let (fov, asp, h, (n, f), in_deg) = (fovs[d[0]], c(aspects[d[1]]), c(hs[d[2]]), nfs[d[3]], d[4] == 1);
            let (n, f) = (c(n), c(f));
            ctx.describe(|| format!("fovy={fov} rad{} aspect={:?} height={:?} near={:?} far={:?}", if in_deg { " (given in degrees)" } else { "" }, asp, h, n, f));
            ctx.out(&d);
            let fr: Rad<T> = if in_deg { Deg(c(fov * 180.0 / PI)).into() } else { Rad(c(fov)) };
            // focal point at distance (h/2) cot(fovy/2) behind the origin; must not lie between the planes
            let tanh = (Sh::exact(fr.0.f()) * Sh::exact(0.5)).tan();
            let focal_behind = if tanh.v == 0.0 { f64::INFINITY } else { h.f() / 2.0 / tanh.v };
            let focal_depth = -focal_behind; // as a distance along the view direction, like near and far
            let (lo, hi) = (n.f().min(f.f()), n.f().max(f.f()));
            if focal_depth >= lo - 1e-9 && focal_depth <= hi + 1e-9 {
                ctx.skip("focal point between the planes (rejected; see system reject)");
                return;
            }
            ctx.branch("judged");
            let m: Matrix4<T> = if in_deg { planar(Deg(c(fov * 180.0 / PI)), asp, h, n, f) } else { planar(Rad(c(fov)), asp, h, n, f) };
            let one = Sh::exact(1.0);
            // the z = 0 window of height h and width aspect*h onto [-1,1]^2
            for u in [-1.0f64, 0.0, 1.0] {
                for v in [-1.0f64, 0.0, 1.0] {
                    let p = [c(u) * asp * h * c(0.5), c(v) * h * c(0.5), T::zero()];
                    let (ndc, wv, tp) = images(m, p);
                    eq_slice::<T>(ctx, &key("planar/window-to-square"), &[ndc[0], ndc[1]], &[Sh::exact(u).with_abs_err(8.0), Sh::exact(v).with_abs_err(8.0)], 4.0);
                    eq_slice::<T>(ctx, &key("planar/transform_point"), &[tp[0], tp[1]], &[Sh::exact(u).with_abs_err(8.0), Sh::exact(v).with_abs_err(8.0)], 4.0);
                    // (the statement fixes the map, not the scale of the matrix: w on the window only has to be one and the
                    // same non-zero number, which the comparison of the divided coordinates above already uses)
                    ctx.check(wv.f() != 0.0 && wv.f().is_finite(), &key("planar/w-finite-non-zero-on-the-window"), || format!("w = {:?} on the projection plane", wv));
                    let _ = one;
                }
            }
            // z = -n -> -1, z = -f -> +1 (any x, y)
            let inv_f = tanh * Sh::exact(2.0) / Sh::exact(h.f());
            for (z, s) in [(n, -1.0f64), (f, 1.0)] {
                let p = [c(0.3), c(-0.7), -z];
                let (ndc, _wv, tp) = images(m, p);
                // conditioning: w = 1 + z*inv_f may be small
                let wm = one + Sh::exact(z.f()) * inv_f;
                let cond = 1.0 + (1.0 + z.f().abs() * inv_f.v.abs()) / wm.v.abs().max(1e-300) + (n.f().abs() + f.f().abs()) / (n.f() - f.f()).abs();
                if cond < 1e4 {
                    eq_slice::<T>(ctx, &key("planar/plane-to-clip-z"), &[ndc[2]], &[Sh::exact(s).with_abs_err(16.0 * cond + inv_f.e)], 8.0);
                    eq_slice::<T>(ctx, &key("planar/plane-to-clip-z/transform_point"), &[tp[2]], &[Sh::exact(s).with_abs_err(16.0 * cond + inv_f.e)], 8.0);
                }
            }
            // focal point: the centre of projection (0, 0, +(h/2) cot(fovy/2)) is where w = 0 and where every ray meets:
            // its image is (0, 0, *, 0), whatever the overall scale of the matrix
            let a = m4(m);
            same_slice(ctx, &key("planar/w-depends-on-z-only"), &[a[0][3], a[1][3]], &[T::zero(), T::zero()]);
            if tanh.v != 0.0 {
                let z_focal = -a[3][3].f() / a[2][3].f();
                let tol = K_TOL * T::U * (16.0 + tanh.e / tanh.v.abs()) * focal_behind.abs();
                ctx.check((z_focal - focal_behind).abs() <= tol, &key("planar/focal-point"), || format!("w = 0 at z = {z_focal}, expected (h/2)cot(fovy/2) = {focal_behind}"));
                let img = m * mk_v4([T::zero(), T::zero(), c(focal_behind), T::one()]);
                let scale = a.iter().flat_map(|col| col.iter()).map(|x| x.f().abs()).fold(0.0, f64::max) * (1.0 + focal_behind.abs());
                let tol_c = K_TOL * T::U * (16.0 + tanh.e / tanh.v.abs()) * scale;
                ctx.check(img.x.f().abs() <= tol_c && img.y.f().abs() <= tol_c && img.w.f().abs() <= tol_c, &key("planar/focal-point-on-the-axis"), || format!("M * (0, 0, {focal_behind}, 1) = {:?}: the centre of projection is not on the view axis at that depth", img));
            }
        },
    );
}

/// tuples violating exactly one stated precondition must panic; valid ones must not
fn reject<T: Tier + Dom<M = Sh>>(rep: &mut Report) {
    let c = |x: f64| num_traits::cast::<f64, T>(x).unwrap();
    // the smallest value of the scalar type that is not below pi: f32(pi) exceeds pi, but f64(pi) = pi - 1.2e-16 lies
    // *inside* (0, pi), so the statement does not say whether it must be rejected
    let pi_t: f64 = { let p = Rad::<T>::turn_div_2().0.f(); if T::NAME == "D" { f64::from_bits(p.to_bits() + 1) } else { p } };
    #[derive(Clone)]
    struct Case {
        name: String,
        must_panic: bool,
        run: std::sync::Arc<dyn Fn() + Send + Sync>,
    }
    let mut cases: Vec<Case> = Vec::new();
    let mut add = |name: String, must_panic: bool, run: std::sync::Arc<dyn Fn() + Send + Sync>| cases.push(Case { name, must_panic, run });
    // perspective(fovy, aspect, near, far): valid base tuples and single violations
    for (fov, asp, n, f) in [(1.0, 1.5, 0.5, 10.0), (2.9, -1.0, 1.0, 2.0), (0.01, 0.5, 3.0, 3.5)] {
        add(format!("perspective valid ({fov},{asp},{n},{f})"), false, std::sync::Arc::new(move || {
            let _ = perspective(Rad(c(fov)), c(asp), c(n), c(f));
        }));
        for (what, fv) in [("fovy=0", 0.0), ("fovy<0", -0.5), ("fovy=pi", pi_t), ("fovy>pi", 4.0)] {
            add(format!("perspective {what} ({asp},{n},{f})"), true, std::sync::Arc::new(move || {
                let _ = perspective(Rad(c(fv)), c(asp), c(n), c(f));
            }));
        }
        // values of the scalar type that are not inside (0, pi) although no ordering test says they are below or above it
        for (what, fv) in [("fovy=NaN", f64::NAN), ("fovy=+inf", f64::INFINITY), ("fovy=-inf", f64::NEG_INFINITY)] {
            add(format!("perspective {what} ({asp},{n},{f})"), true, std::sync::Arc::new(move || {
                let _ = perspective(Rad(c(fv)), c(asp), c(n), c(f));
            }));
            add(format!("perspective Deg {what} ({asp},{n},{f})"), true, std::sync::Arc::new(move || {
                let _ = perspective(Deg(c(fv)), c(asp), c(n), c(f));
            }));
            add(format!("PerspectiveFov.into() {what} ({asp},{n},{f})"), true, std::sync::Arc::new(move || {
                let _: Matrix4<T> = PerspectiveFov { fovy: Rad(c(fv)), aspect: c(asp), near: c(n), far: c(f) }.into();
            }));
        }
        for (what, fv) in [("fovy=0", 0.0), ("fovy=pi", pi_t)] {
            add(format!("PerspectiveFov.into() {what} ({asp},{n},{f})"), true, std::sync::Arc::new(move || {
                let _: Matrix4<T> = PerspectiveFov { fovy: Rad(c(fv)), aspect: c(asp), near: c(n), far: c(f) }.into();
            }));
        }
        add(format!("perspective aspect=0 ({fov},{n},{f})"), true, std::sync::Arc::new(move || {
            let _ = perspective(Rad(c(fov)), c(0.0), c(n), c(f));
        }));
        for (what, nv) in [("near=0", 0.0), ("near<0", -1.0)] {
            add(format!("perspective {what} ({fov},{asp},{f})"), true, std::sync::Arc::new(move || {
                let _ = perspective(Rad(c(fov)), c(asp), c(nv), c(f));
            }));
        }
        for (what, fvv) in [("far=0", 0.0), ("far<0", -2.0)] {
            add(format!("perspective {what} ({fov},{asp},{n})"), true, std::sync::Arc::new(move || {
                let _ = perspective(Rad(c(fov)), c(asp), c(n), c(fvv));
            }));
        }
        add(format!("perspective near=far ({fov},{asp},{n})"), true, std::sync::Arc::new(move || {
            let _ = perspective(Rad(c(fov)), c(asp), c(n), c(n));
        }));
        // two preconditions violated at once (each of them is still violated: conditions merged into one product or sum
        // cancel here)
        for (what, nv, fvv) in [("near<0,far<0", -1.0, -2.0), ("near<0,far<0 (far nearer)", -2.0, -0.5), ("near=0,far=0", 0.0, 0.0), ("near<0,far=0", -1.0, 0.0)] {
            add(format!("perspective {what} ({fov},{asp})"), true, std::sync::Arc::new(move || {
                let _ = perspective(Rad(c(fov)), c(asp), c(nv), c(fvv));
            }));
            add(format!("PerspectiveFov.into() {what} ({fov},{asp})"), true, std::sync::Arc::new(move || {
                let _: Matrix4<T> = PerspectiveFov { fovy: Rad(c(fov)), aspect: c(asp), near: c(nv), far: c(fvv) }.into();
            }));
        }
        for (what, fv, av) in [("fovy<0,aspect=0", -0.5, 0.0), ("fovy>pi,near<0", 4.0, 1.5)] {
            add(format!("perspective {what} ({n},{f})"), true, std::sync::Arc::new(move || {
                let _ = perspective(Rad(c(fv)), c(av), c(if av == 1.5 { -n } else { n }), c(f));
            }));
        }
        add(format!("perspective Deg fovy=180 ({asp},{n},{f})"), true, std::sync::Arc::new(move || {
            let _ = perspective(Deg(c(180.5)), c(asp), c(n), c(f));
        }));
    }
    // frustum(l, r, b, t, n, f)
    for (l, r, b, t, n, f) in [(-1.0, 2.0, -0.5, 1.0, 1.0, 5.0), (0.5, 3.0, 1.0, 4.0, 0.1, 0.2)] {
        add(format!("frustum valid ({l},{r},{b},{t},{n},{f})"), false, std::sync::Arc::new(move || {
            let _ = frustum(c(l), c(r), c(b), c(t), c(n), c(f));
        }));
        add(format!("frustum left>right ({l},{r})"), true, std::sync::Arc::new(move || {
            let _ = frustum(c(r), c(l), c(b), c(t), c(n), c(f));
        }));
        add(format!("frustum bottom>top ({b},{t})"), true, std::sync::Arc::new(move || {
            let _ = frustum(c(l), c(r), c(t), c(b), c(n), c(f));
        }));
        add(format!("frustum near>far ({n},{f})"), true, std::sync::Arc::new(move || {
            let _ = frustum(c(l), c(r), c(b), c(t), c(f), c(n));
        }));
        // two and three at once
        add(format!("frustum left>right,bottom>top ({l},{r},{b},{t})"), true, std::sync::Arc::new(move || {
            let _ = frustum(c(r), c(l), c(t), c(b), c(n), c(f));
        }));
        add(format!("frustum left>right,near>far ({l},{r},{n},{f})"), true, std::sync::Arc::new(move || {
            let _ = frustum(c(r), c(l), c(b), c(t), c(f), c(n));
        }));
        add(format!("frustum all three reversed ({l},{r},{b},{t},{n},{f})"), true, std::sync::Arc::new(move || {
            let _ = frustum(c(r), c(l), c(t), c(b), c(f), c(n));
        }));
    }
    // planar(fovy, aspect, height, near, far)
    for (fov, asp, h, n, f) in [(1.0, 1.5, 2.0, 1.0, 10.0), (-1.0, -0.5, 1.0, 5.0, 9.0), (0.0, 1.0, 3.0, -4.0, 4.0)] {
        add(format!("planar valid ({fov},{asp},{h},{n},{f})"), false, std::sync::Arc::new(move || {
            let _ = planar(Rad(c(fov)), c(asp), c(h), c(n), c(f));
        }));
        for (what, fv) in [("fovy=pi", pi_t), ("fovy=-pi", -pi_t), ("fovy>pi", 3.5), ("fovy<-pi", -3.5)] {
            add(format!("planar {what} ({asp},{h},{n},{f})"), true, std::sync::Arc::new(move || {
                let _ = planar(Rad(c(fv)), c(asp), c(h), c(n), c(f));
            }));
        }
        for (what, fv) in [("fovy=+inf", f64::INFINITY), ("fovy=-inf", f64::NEG_INFINITY)] {
            add(format!("planar {what} ({asp},{h},{n},{f})"), true, std::sync::Arc::new(move || {
                let _ = planar(Rad(c(fv)), c(asp), c(h), c(n), c(f));
            }));
        }
        add(format!("planar height<0 ({fov},{asp},{n},{f})"), true, std::sync::Arc::new(move || {
            let _ = planar(Rad(c(fov)), c(asp), c(-h), c(n), c(f));
        }));
        add(format!("planar aspect=0 ({fov},{h},{n},{f})"), true, std::sync::Arc::new(move || {
            let _ = planar(Rad(c(fov)), c(0.0), c(h), c(n), c(f));
        }));
        add(format!("planar near=far ({fov},{asp},{h},{n})"), true, std::sync::Arc::new(move || {
            let _ = planar(Rad(c(fov)), c(asp), c(h), c(n), c(n));
        }));
    }
    // focal point strictly between the planes: fovy = 1, h = 2: focal depth = -(1/tan 0.5) = -1.83
    for (n, f) in [(-3.0, 1.0), (1.0, -3.0), (-10.0, -1.0)] {
        add(format!("planar focal-point-between-planes (near={n}, far={f})"), true, std::sync::Arc::new(move || {
            let _ = planar(Rad(c(1.0)), c(1.0), c(2.0), c(n), c(f));
        }));
    }
    // negative fovy puts the focal point in front: depth = +1.83
    for (n, f) in [(1.0, 3.0), (3.0, 1.0)] {
        add(format!("planar focal-point-between-planes (fovy=-1, near={n}, far={f})"), true, std::sync::Arc::new(move || {
            let _ = planar(Rad(c(-1.0)), c(1.0), c(2.0), c(n), c(f));
        }));
    }
    for (n, f) in [(2.0, 3.0), (-3.0, -2.0), (-1.0, 1.0)] {
        add(format!("planar focal-point-outside-planes (near={n}, far={f})"), false, std::sync::Arc::new(move || {
            let _ = planar(Rad(c(1.0)), c(1.0), c(2.0), c(n), c(f));
        }));
    }
    // valid although unusual: planes in reverse order (perspective), barely separated planes, a thin aspect, wide negative fovy
    for (what, fov, asp, n, f) in [("near>far", 1.0, 1.5, 10.0, 0.5), ("far-near=1e-3", 1.0, 1.5, 1.0, 1.001), ("aspect=1e-3", 1.0, 1e-3, 0.5, 10.0), ("aspect=-1e-3", 1.0, -1e-3, 0.5, 10.0), ("fovy=3.1", 3.1, 1.0, 0.5, 10.0), ("fovy=1e-3", 1e-3, 1.0, 0.5, 10.0)] {
        add(format!("perspective valid {what}"), false, std::sync::Arc::new(move || {
            let _ = perspective(Rad(c(fov)), c(asp), c(n), c(f));
        }));
    }
    for (what, fov, asp, h, n, f) in [("fovy=-2", -2.0, 1.0, 2.0, 1.0, 10.0), ("fovy=-3.1", -3.1, 1.0, 2.0, 1.0, 10.0), ("fovy=3.1", 3.1, 1.0, 2.0, 1.0, 10.0), ("far-near=1e-3", 1.0, 1.0, 2.0, 1.0, 1.001), ("aspect=1e-3", 1.0, 1e-3, 2.0, 1.0, 10.0), ("height=0", 0.0, 1.0, 0.0, 1.0, 10.0)] {
        if what == "height=0" {
            continue; // h = 0 with fovy = 0: focal point undefined (0/0); not classified by the statement
        }
        add(format!("planar valid {what}"), false, std::sync::Arc::new(move || {
            let _ = planar(Rad(c(fov)), c(asp), c(h), c(n), c(f));
        }));
    }
    // the same preconditions through the struct conversions
    add("Perspective{..}.into() valid".to_string(), false, std::sync::Arc::new(move || {
        let _: Matrix4<T> = Perspective { left: c(-1.0), right: c(2.0), bottom: c(-0.5), top: c(1.0), near: c(1.0), far: c(5.0) }.into();
    }));
    for (what, l, r, b, t, n, f) in [("left>right", 2.0, -1.0, -0.5, 1.0, 1.0, 5.0), ("bottom>top", -1.0, 2.0, 1.0, -0.5, 1.0, 5.0), ("near>far", -1.0, 2.0, -0.5, 1.0, 5.0, 1.0)] {
        add(format!("Perspective{{..}}.into() {what}"), true, std::sync::Arc::new(move || {
            let _: Matrix4<T> = Perspective { left: c(l), right: c(r), bottom: c(b), top: c(t), near: c(n), far: c(f) }.into();
        }));
    }
    add("PlanarFov{..}.into() valid".to_string(), false, std::sync::Arc::new(move || {
        let _: Matrix4<T> = PlanarFov { fovy: Rad(c(1.0)), aspect: c(1.5), height: c(2.0), near: c(1.0), far: c(10.0) }.into();
    }));
    for (what, fov, asp, h, n, f) in [("fovy=pi", pi_t, 1.5, 2.0, 1.0, 10.0), ("fovy=-pi", -pi_t, 1.5, 2.0, 1.0, 10.0), ("height<0", 1.0, 1.5, -2.0, 1.0, 10.0), ("aspect=0", 1.0, 0.0, 2.0, 1.0, 10.0), ("near=far", 1.0, 1.5, 2.0, 3.0, 3.0), ("focal-point-between-planes", 1.0, 1.0, 2.0, -3.0, 1.0)] {
        add(format!("PlanarFov{{..}}.into() {what}"), true, std::sync::Arc::new(move || {
            let _: Matrix4<T> = PlanarFov { fovy: Rad(c(fov)), aspect: c(asp), height: c(h), near: c(n), far: c(f) }.into();
        }));
    }
    for (what, fov, asp, n, f) in [("aspect=0", 1.0, 0.0, 0.5, 10.0), ("near=0", 1.0, 1.5, 0.0, 10.0), ("near<0", 1.0, 1.5, -1.0, 10.0), ("far=0", 1.0, 1.5, 0.5, 0.0), ("far<0", 1.0, 1.5, 0.5, -2.0), ("near=far", 1.0, 1.5, 3.0, 3.0)] {
        add(format!("PerspectiveFov.into() {what}"), true, std::sync::Arc::new(move || {
            let _: Matrix4<T> = PerspectiveFov { fovy: Rad(c(fov)), aspect: c(asp), near: c(n), far: c(f) }.into();
        }));
    }
    // ortho has no stated precondition: valid tuples must not panic
    for (what, l, r, b, t, n, f) in [("right<left", 2.0, -1.0, -0.5, 1.0, 1.0, 5.0), ("top<bottom", -1.0, 2.0, 1.0, -0.5, 1.0, 5.0), ("far<near", -1.0, 2.0, -0.5, 1.0, 5.0, 1.0), ("near=0", -1.0, 2.0, -0.5, 1.0, 0.0, 5.0), ("near<0", -1.0, 2.0, -0.5, 1.0, -2.0, 5.0)] {
        add(format!("ortho valid {what}"), false, std::sync::Arc::new(move || {
            let _ = ortho(c(l), c(r), c(b), c(t), c(n), c(f));
        }));
    }
    add("ortho valid".to_string(), false, std::sync::Arc::new(move || {
        let _ = ortho(c(-1.0), c(2.0), c(-0.5), c(1.0), c(1.0), c(5.0));
    }));
    let n = cases.len();
    rep.cases(
        "reject",
        T::NAME,
        &format!("{n} parameter tuples: valid ones and ones violating exactly one stated precondition (boundary values included)"),
        n,
        Guard::states(40).distinct(2).need("must-panic", 30).need("must-not-panic", 8),
        |i, ctx| {
            let cse = &cases[i];
            ctx.describe(|| cse.name.clone());
            ctx.branch(if cse.must_panic { "must-panic" } else { "must-not-panic" });
            let run = cse.run.clone();
            let panicked = panics(move || run());
            ctx.out(&(i, panicked));
            let what = cse.name.split(' ').take(2).collect::<Vec<_>>().join("/");
            ctx.check(panicked == cse.must_panic, &key(&format!("reject/{what}")), || format!("{}: {}", cse.name, if panicked { "panicked but the parameters are valid" } else { "returned a matrix instead of panicking" }));
        },
    );
}

fn main() {
    let mut rep = Report::from_args(P);
    rep.assume("ortho and frustum are judged on the images of 27 / 18 points of the view volume boundary (exactly in the rational tier); perspective and planar in the native float tiers with libm tan as the reference; inputs the statement does not classify (left = right, ...) are not judged");
    set_lattice(None);
    boxes::<Ex>(&mut rep);
    boxes::<f64>(&mut rep);
    boxes::<f32>(&mut rep);
    ortho_unordered::<Ex>(&mut rep);
    ortho_unordered::<f64>(&mut rep);
    ortho_unordered::<f32>(&mut rep);
    fov_cases::<f64>(&mut rep);
    fov_cases::<f32>(&mut rep);
    reject::<f64>(&mut rep);
    reject::<f32>(&mut rep);
    std::process::exit(rep.finish());
}
