//! C07 — Euler angles mean intrinsic X-Y-Z everywhere and round-trip via quaternions.
use cgmath::{Angle, Rotation3};
use mc_props::*;
use std::f64::consts::PI;

const P: &str = "C07";
fn key(s: &str) -> String {
    format!("{P}/{s}")
}

/// all four representations built from Euler{x,y,z}, compared with the product
/// from_angle_x * from_angle_y * from_angle_z of the same representation and with the model
fn build_one<T: Tier, A>(ctx: &mut Ctx, e: Euler<A>, cx: (T::M, T::M), cy: (T::M, T::M), cz: (T::M, T::M), quat: bool, slack: f64)
where
    A: Angle<Unitless = T> + Into<Rad<T>> + Copy,
{
    // entries of a rotation matrix are sums of O(1) terms: a route through half angles (the quaternion) knows them to an
    // absolute, not a relative, rounding
    let want = model::euler_mat(cx, cy, cz).map(|c| c.map(|x| x.with_abs_err(4.0)));
    let (rx, ry, rz): (Rad<T>, Rad<T>, Rad<T>) = (e.x.into(), e.y.into(), e.z.into());
    let m3e: Matrix3<T> = Matrix3::from(e);
    eq_mc::<T, 3>(ctx, &key("from_euler/Matrix3"), m3(m3e), want, slack);
    let p3m = Matrix3::from_angle_x(rx) * Matrix3::from_angle_y(ry) * Matrix3::from_angle_z(rz);
    eq_mc::<T, 3>(ctx, &key("product/Matrix3"), m3(p3m), want, slack);
    let m4e: Matrix4<T> = Matrix4::from(e);
    eq_mc::<T, 4>(ctx, &key("from_euler/Matrix4"), m4(m4e), model::embed::<_, 3, 4>(want), slack);
    let p4m = Matrix4::from_angle_x(rx) * Matrix4::from_angle_y(ry) * Matrix4::from_angle_z(rz);
    eq_mc::<T, 4>(ctx, &key("product/Matrix4"), m4(p4m), model::embed::<_, 3, 4>(want), slack);
    let b3e: Basis3<T> = Basis3::from(e);
    eq_mc::<T, 3>(ctx, &key("from_euler/Basis3"), basis3_arr(b3e), want, slack);
    let pb: Basis3<T> = <Basis3<T> as Rotation3>::from_angle_x(rx) * <Basis3<T> as Rotation3>::from_angle_y(ry) * <Basis3<T> as Rotation3>::from_angle_z(rz);
    eq_mc::<T, 3>(ctx, &key("product/Basis3"), basis3_arr(pb), want, slack);
    if T::EXACT {
        same_slice(ctx, &key("from_euler=product/Matrix3"), &flat_m(m3(m3e)), &flat_m(m3(p3m)));
        same_slice(ctx, &key("from_euler=product/Matrix4"), &flat_m(m4(m4e)), &flat_m(m4(p4m)));
        same_slice(ctx, &key("from_euler=product/Basis3"), &flat_m(basis3_arr(b3e)), &flat_m(basis3_arr(pb)));
    }
    if quat {
        ctx.branch("quaternion");
        let q: Quaternion<T> = Quaternion::from(e);
        let pq: Quaternion<T> = <Quaternion<T> as Rotation3>::from_angle_x(rx) * <Quaternion<T> as Rotation3>::from_angle_y(ry) * <Quaternion<T> as Rotation3>::from_angle_z(rz);
        // same rotation: compare the rotation matrices (q and -q are the same rotation)
        let qm: Matrix3<T> = q.into();
        let pm: Matrix3<T> = pq.into();
        eq_mc::<T, 3>(ctx, &key("from_euler/Quaternion"), m3(qm), want, slack * 4.0);
        eq_mc::<T, 3>(ctx, &key("product/Quaternion"), m3(pm), want, slack * 4.0);
        if T::EXACT {
            // the same rotation as a quaternion: q or -q (the statement speaks of the rotation)
            let neg = qa(pq).map(|x| -x);
            ctx.check(qa(q) == qa(pq) || qa(q) == neg, &key("from_euler=product/Quaternion"), || format!("Quaternion::from(Euler) = {:?}, product of the axis rotations = +-{:?}", qa(q), qa(pq)));
        }
    }
}

fn exact_build(rep: &mut Report) {
    type T = Ex;
    for li in [0usize, 1, 2] {
        let lat = &ex::lattices()[li];
        let kmax = lat.reach().min(rep.pick(5, 7));
        let ks: Vec<i64> = (-kmax..=kmax).collect();
        let n = ks.len();
        set_lattice(Some(li));
        rep.cases(
            &format!("build/t={}/{}", lat.p, lat.q),
            "X",
            &format!("all code triples (kx,ky,kz) in {:?}^3; quaternion on even triples", ks),
            n * n * n,
            Guard::states(100).distinct(100).need("quaternion", 20).inconclusive(0.02),
            |i, ctx| {
                let d = alphabet::decode(i, &[n, n, n]);
                let (kx, ky, kz) = (ks[d[0]], ks[d[1]], ks[d[2]]);
                ctx.describe(|| format!("Euler codes ({kx},{ky},{kz}) on lattice t={}/{}", lat.p, lat.q));
                ctx.out(&(kx, ky, kz));
                let e = Euler { x: Rad(T::int(kx)), y: Rad(T::int(ky)), z: Rad(T::int(kz)) };
                let even = kx % 2 == 0 && ky % 2 == 0 && kz % 2 == 0;
                build_one::<T, Rad<T>>(ctx, e, ex::lattice_cs(kx), ex::lattice_cs(ky), ex::lattice_cs(kz), even, 1.0);
            },
        );
        set_lattice(None);
    }
}

/// exact round trip Euler -> Quaternion -> Euler on principal lattice angles
fn exact_extract(rep: &mut Report) {
    type T = Ex;
    for li in [1usize, 2, 3] {
        let lat = &ex::lattices()[li];
        let reach = lat.reach();
        // code ranges cut to what i128 rationals can carry through the triple half-angle products
        let cap = if li == 3 { 6 } else { 8 };
        let xs: Vec<i64> = (-reach..=reach).filter(|k| k % 2 == 0 && (*k as f64 * lat.delta).abs() < PI && k.abs() <= cap).collect();
        let ys: Vec<i64> = (-reach..=reach).filter(|k| k % 2 == 0 && (*k as f64 * lat.delta).abs() < PI / 2.0 && k.abs() <= cap).collect();
        let (nx, ny) = (xs.len(), ys.len());
        set_lattice(Some(li));
        rep.cases(
            &format!("extract/t={}/{}", lat.p, lat.q),
            "X",
            &format!("all even code triples with principal angles: x,z in {:?}, y in {:?}", xs, ys),
            nx * ny * nx,
            Guard::states(20).distinct(10).inconclusive(0.6).need("round-trip", 20),
            |i, ctx| {
                let d = alphabet::decode(i, &[nx, ny, nx]);
                let (kx, ky, kz) = (xs[d[0]], ys[d[1]], xs[d[2]]);
                ctx.describe(|| format!("Euler codes ({kx},{ky},{kz}) on lattice t={}/{}", lat.p, lat.q));
                ctx.out(&(kx, ky, kz));
                let e = Euler { x: Rad(T::int(kx)), y: Rad(T::int(ky)), z: Rad(T::int(kz)) };
                let q: Quaternion<T> = Quaternion::from(e);
                // is q outside the gimbal-lock cone? decided exactly: |sin y| <= 0.998
                let siny = ex::lattice_cs(ky).1;
                let inside = siny.abs_ex() > Ex::from_f64_exact(0.998).unwrap();
                let back: Euler<Rad<T>> = Euler::from(q);
                if !inside {
                    // angles are lattice codes in this tier: a result that is not a code (an implementation that combines
                    // an angle with pi or a full turn, e.g. to normalise it) cannot be expressed here - the float tiers judge it
                    if [back.x.0, back.y.0, back.z.0].iter().any(|a| !a.is_integer()) {
                        ex::domain_exit("extracted angle is not a lattice code");
                    }
                    ctx.branch("round-trip");
                    same_slice(ctx, &key("extract/round-trip"), &[back.x.0, back.y.0, back.z.0], &[T::int(kx), T::int(ky), T::int(kz)]);
                } else {
                    ctx.branch("cone");
                }
            },
        );
        set_lattice(None);
    }
}

fn float_build<T: Tier + Dom<M = Sh>>(rep: &mut Report) {
    let n = rep.pick(11, 45);
    let mut grid: Vec<f64> = (0..n).map(|j| -3.3 + 6.6 * j as f64 / (n - 1) as f64).collect();
    // angles of more than a half and more than a full turn: "for all angles", and the half-angle formulas of the
    // quaternion change sign there
    grid.extend([4.0, -4.0, 7.0, -7.0, 9.5, -13.0, 2e-3, -1e-6]);
    // ... and of many turns, both senses, landing in either half of the circle (an argument reduction that starts only
    // beyond some number of turns)
    grid.extend([40.3, -52.9, 101.7, -150.0, 1000.1, -1003.4, 5000.3, -7460.0 * PI / 180.0]);
    let n = grid.len();
    rep.cases(
        "build/native",
        T::NAME,
        &format!("{n}^3 angle triples on [-3.3, 3.3] rad and from {{+-4, +-7, 9.5, -13, 2e-3, -1e-6, 40.3, -52.9, 101.7, -150, 1000.1, -1003.4, 5000.3, -130.2}} rad, as Rad and as Deg"),
        n * n * n * 2,
        Guard::states(100).distinct(100),
        |i, ctx| {
            let in_deg = i >= n * n * n;
            let d = alphabet::decode(i % (n * n * n), &[n, n, n]);
            let th = [grid[d[0]], grid[d[1]] * 0.9, grid[d[2]] * 1.1];
            ctx.describe(|| format!("Euler({:?}) {}", th, if in_deg { "in degrees" } else { "in radians" }));
            ctx.out(&(d.clone(), in_deg));
            let conv = Sh::rounded(num_traits::cast::<f64, T>(PI / 180.0).unwrap().f());
            if in_deg {
                let dv: [T; 3] = std::array::from_fn(|j| num_traits::cast::<f64, T>(th[j] * 180.0 / PI).unwrap());
                let cs: Vec<(Sh, Sh)> = dv.iter().map(|x| (Sh::exact(x.f()) * conv).cos_sin()).collect();
                build_one::<T, Deg<T>>(ctx, Euler { x: Deg(dv[0]), y: Deg(dv[1]), z: Deg(dv[2]) }, cs[0], cs[1], cs[2], true, 4.0);
            } else {
                let rv: [T; 3] = std::array::from_fn(|j| num_traits::cast::<f64, T>(th[j]).unwrap());
                let cs: Vec<(Sh, Sh)> = rv.iter().map(|x| Sh::exact(x.f()).cos_sin()).collect();
                build_one::<T, Rad<T>>(ctx, Euler { x: Rad(rv[0]), y: Rad(rv[1]), z: Rad(rv[2]) }, cs[0], cs[1], cs[2], true, 4.0);
                // the constructor takes the angles in the order of the fields
                let en = Euler::new(Rad(rv[0]), Rad(rv[1]), Rad(rv[2]));
                same_slice(ctx, &key("Euler::new"), &[en.x.0, en.y.0, en.z.0], &rv);
            }
        },
    );
}

fn mat_of_q(q: [f64; 4]) -> [[f64; 3]; 3] {
    // rotation matrix of a (nearly) unit quaternion [w,x,y,z], normalised, in f64
    let n = (q[0] * q[0] + q[1] * q[1] + q[2] * q[2] + q[3] * q[3]).sqrt();
    let s: [Sh; 4] = std::array::from_fn(|j| Sh::exact(q[j] / n));
    let m = model::qmat(s);
    std::array::from_fn(|c| std::array::from_fn(|r| m[c][r].v))
}

fn float_extract<T: Tier + Dom<M = Sh>>(rep: &mut Report) {
    // quaternions from Euler grids with prescribed sin(y), plus the rational unit quaternions
    let mut sines: Vec<f64> = [0.0, 1e-6, 3e-3, 0.5, 0.99, 0.9979, 0.99799, 0.997998, 0.998002, 0.99801, 0.9981, 0.999, 1.0].iter().flat_map(|s| [*s, -*s]).skip(1).collect();
    if rep.thorough() {
        // every hundredth of sin(y) (a band between two of the hand-picked values), and a ladder towards the threshold
        // from both sides
        sines.extend((1..100).flat_map(|j| [j as f64 * 0.01 + 0.0037, -(j as f64 * 0.01 + 0.0037)]));
        sines.extend((3..18).flat_map(|k| { let d = 0.5f64.powi(k); [0.998 - d, 0.998 + d * 0.25, -(0.998 - d), -(0.998 + d * 0.25)] }).filter(|s| s.abs() <= 1.0));
    }
    let nxz = rep.pick(9, 41);
    let mut xz: Vec<f64> = (0..nxz).map(|j| -3.0 + 6.0 * j as f64 / (nxz - 1) as f64).collect();
    // small rotations (a "nearly the identity" short cut, a first-order formula)
    xz.extend([5e-3, -1e-4, 1e-7]);
    let nxz = xz.len();
    let uq = alphabet::uq(1);
    let n1 = sines.len() * nxz * nxz;
    rep.cases(
        "extract/native",
        T::NAME,
        &format!("{} values of sin(y) ({:?}{}) x {nxz}x{nxz} values of x,z; plus {} rational unit quaternions", sines.len(), &sines[..25], if sines.len() > 25 { ", every hundredth +0.0037 both signs, 0.998 -+ 2^-k for k = 3..17" } else { "" }, uq.len()),
        n1 + uq.len(),
        Guard::states(100).distinct(100).need("general", 50).need("cone+", 5).need("cone-", 5),
        |i, ctx| {
            let q: [T; 4] = if i < n1 {
                let d = alphabet::decode(i, &[nxz, nxz, sines.len()]);
                let (x, z, sy) = (xz[d[0]], xz[d[1]], sines[d[2]]);
                let y = sy.clamp(-1.0, 1.0).asin();
                // intrinsic X-Y-Z quaternion built in f64 by the harness (half-angle products)
                let h = |a: f64| (a / 2.0).sin_cos();
                let ((sx, cx), (sy2, cy), (sz, cz)) = (h(x), h(y), h(z));
                let qx = [cx, sx, 0.0, 0.0];
                let qy = [cy, 0.0, sy2, 0.0];
                let qz = [cz, 0.0, 0.0, sz];
                let m = |a: [f64; 4], b: [f64; 4]| -> [f64; 4] {
                    let r = model::qmul(a.map(Sh::exact), b.map(Sh::exact));
                    r.map(|s| s.v)
                };
                let qq = m(m(qx, qy), qz);
                std::array::from_fn(|j| num_traits::cast::<f64, T>(qq[j]).unwrap())
            } else {
                let (qn, qd) = uq[i - n1];
                std::array::from_fn(|j| T::q(qn[j], qd))
            };
            ctx.describe(|| format!("q = {:?} (w,x,y,z)", q));
            ctx.out(&q.map(|x| x.key()));
            let qf: [f64; 4] = q.map(|x| x.f());
            let n2: f64 = qf.iter().map(|x| x * x).sum();
            let siny = 2.0 * (qf[1] * qf[3] + qf[2] * qf[0]) / n2;
            let e: Euler<Rad<T>> = Euler::from(mk_q(q));
            let (ex_, ey, ez) = (e.x.0.f(), e.y.0.f(), e.z.0.f());
            let band = 1e-6_f64.max(64.0 * T::U);
            let class = if (siny.abs() - 0.998).abs() <= band { "threshold-band" } else if siny > 0.998 { "cone+" } else if siny < -0.998 { "cone-" } else { "general" };
            ctx.branch(class);
            // documented ranges (the statement gives them for rotations outside the cone)
            let eps = 8.0 * T::U * PI;
            ctx.check(class != "general" || (ex_ >= -PI - eps && ex_ <= PI + eps && ez >= -PI - eps && ez <= PI + eps && ey >= -PI / 2.0 - eps && ey <= PI / 2.0 + eps), &key("extract/ranges"), || format!("Euler({ex_}, {ey}, {ez}) outside x,z in [-pi,pi], y in [-pi/2,pi/2]"));
            // rebuilt rotation vs q's rotation
            let rebuilt: Matrix3<T> = Matrix3::from(e);
            let rb = m3(rebuilt);
            let want = mat_of_q(qf);
            let maxdiff = (0..3).flat_map(|c| (0..3).map(move |r| (c, r))).map(|(c, r)| (rb[c][r].f() - want[c][r]).abs()).fold(0.0, |m: f64, x: f64| if x.is_nan() || m.is_nan() { f64::NAN } else { m.max(x) });
            ctx.check(ex_.is_finite() && ey.is_finite() && ez.is_finite() && !maxdiff.is_nan(), &key("extract/finite"), || format!("extracted angles ({ex_}, {ey}, {ez}) of the finite unit quaternion are not all finite"));
            match class {
                "general" => {
                    let cosy = (1.0 - siny * siny).max(0.0).sqrt().max(1e-3);
                    let tol = K_TOL * T::U * 16.0 / cosy;
                    ctx.check(maxdiff <= tol, &key("extract/rebuild-exact"), || format!("rebuilt rotation differs by {maxdiff:e} (tolerance {tol:e}); sin y = {siny}, extracted ({ex_},{ey},{ez})"));
                }
                "cone+" | "cone-" => {
                    ctx.check(ex_ == 0.0, &key("extract/cone/x=0"), || format!("x = {ex_} inside the gimbal-lock cone (sin y = {siny})"));
                    // pi/2 rounded to the scalar type (not the library's own constant)
                    let quarter = num_traits::cast::<f64, T>(PI / 2.0).unwrap().f();
                    let want_y = if class == "cone+" { quarter } else { -quarter };
                    ctx.check(ey == want_y, &key("extract/cone/y=+-pi/2"), || format!("y = {ey}, expected {want_y}"));
                    ctx.check(maxdiff <= 0.13, &key("extract/cone/rebuild-within-0.13"), || format!("rebuilt rotation differs by {maxdiff}"));
                }
                _ => {
                    // rounding may put the case on either side: the weaker clause must hold
                    ctx.check(maxdiff <= 0.13, &key("extract/threshold-band/rebuild-within-0.13"), || format!("rebuilt rotation differs by {maxdiff}"));
                }
            }
        },
    );
}

fn main() {
    let mut rep = Report::from_args(P);
    rep.assume("exact tier: Euler angles are lattice codes; the gimbal test is decided exactly; extraction is an exact reverse look-up on principal angles, so the round trip is an equality; the cone itself is not reachable on the lattices and is decided in the float tiers");
    rep.assume("float tiers: quaternions with prescribed sin(y) bracketing the 0.998 threshold from both sides at +-1e-5 and +-2e-6; cases within 1e-6 of the threshold must satisfy the weaker (0.13) clause only");
    exact_build(&mut rep);
    exact_extract(&mut rep);
    float_build::<f64>(&mut rep);
    float_build::<f32>(&mut rep);
    float_extract::<f64>(&mut rep);
    float_extract::<f32>(&mut rep);
    std::process::exit(rep.finish());
}
