//! C03 — vectors form an inner-product space; cross / perp-dot exact.
use mc_props::*;

const P: &str = "C03";
fn key(s: &str) -> String {
    format!("{P}/{s}")
}

fn letters<D: Dom>() -> Vec<R> {
    if D::INTEGER {
        if D::SIGNED {
            (-3..=3).map(|i| (i, 1)).collect()
        } else {
            (0..=3).map(|i| (i, 1)).collect()
        }
    } else {
        alphabet::A1.to_vec()
    }
}
/// generic base values: dyadic generic values for the float-like tiers, small distinct
/// integers (no overflow in any product-and-sum of four components, even in i8/u8) for tier I
fn base<D: Dom>(n: usize, variant: usize) -> Vec<R> {
    if D::INTEGER {
        let pool: [i64; 7] = if D::SIGNED { [2, -3, 1, -2, 3, -1, 2] } else { [2, 3, 1, 2, 3, 1, 2] };
        (0..n).map(|i| (pool[(i * (variant + 1) + variant) % 7], 1)).collect()
    } else {
        alphabet::generic(n, variant)
    }
}

/// compare an implementation vector with the model, unless (integers) the exact result
/// does not fit the type ("where no overflow occurs")
fn cmp<D: Dom, const N: usize>(ctx: &mut Ctx, k: &str, got: [D; N], exp: [D::M; N]) {
    if exp.iter().all(|m| D::representable(*m)) {
        eq_v::<D, N>(ctx, &key(k), got, exp);
    } else {
        ctx.branch("overflow-not-judged");
    }
}
fn cmp_s<D: Dom>(ctx: &mut Ctx, k: &str, got: D, exp: D::M) {
    cmp::<D, 1>(ctx, k, [got], [exp]);
}
/// component-wise oracle: the scalar type's own primitive operation per component
fn same<D: Dom, const N: usize>(ctx: &mut Ctx, k: &str, got: [D; N], exp: [D; N]) {
    same_slice(ctx, &key(k), &got, &exp);
}

fn ops<D: Dom, V: VecN<D, N> + MaybeNeg, const N: usize>(ctx: &mut Ctx, u: [D; N], v: [D; N], s: D) {
    let (mu, mv, ms) = (lift_v(u), lift_v(v), s.lift());
    let (cu, cv) = (V::mk(u), V::mk(v));
    ctx.out(&(u.map(|x| x.key()), v.map(|x| x.key()), s.key()));
    let zip = |f: &dyn Fn(D, D) -> D| -> [D; N] { std::array::from_fn(|i| f(u[i], v[i])) };
    let map = |f: &dyn Fn(D) -> D| -> [D; N] { std::array::from_fn(|i| f(u[i])) };
    let nz_v = v.iter().all(|x| !x.is_zero());
    let nz_s = !s.is_zero();
    let can_sub = D::SIGNED || (0..N).all(|i| u[i] >= v[i]);
    let can_sub_s = D::SIGNED || (0..N).all(|i| u[i] >= s);
    // vector space structure, component by component
    cmp::<D, N>(ctx, "add", (cu + cv).arr(), model::vadd(mu, mv));
    same::<D, N>(ctx, "add", (cu + cv).arr(), zip(&|a, b| a + b));
    if can_sub {
        cmp::<D, N>(ctx, "sub", (cu - cv).arr(), model::vsub(mu, mv));
        same::<D, N>(ctx, "sub", (cu - cv).arr(), zip(&|a, b| a - b));
    }
    if let Some(n) = cu.try_neg() {
        cmp::<D, N>(ctx, "neg", n.arr(), model::vneg(mu));
    }
    cmp::<D, N>(ctx, "mul_scalar", (cu * s).arr(), model::vscale(mu, ms));
    same::<D, N>(ctx, "mul_scalar", (cu * s).arr(), map(&|a| a * s));
    if nz_s {
        same::<D, N>(ctx, "div_scalar", (cu / s).arr(), map(&|a| a / s));
        same::<D, N>(ctx, "rem_scalar", (cu % s).arr(), map(&|a| a % s));
        if !D::INTEGER {
            cmp::<D, N>(ctx, "div_scalar", (cu / s).arr(), model::vdiv(mu, ms));
        }
    }
    // zero is the additive identity
    same::<D, N>(ctx, "zero", (cu + V::zero()).arr(), u);
    same::<D, N>(ctx, "zero", V::zero().arr(), [D::zero(); N]);
    // ... and the identity is told apart from every other vector: is_zero() exactly when all components are zero
    // (vectors compare their components exactly; C18 owns the approximate predicates of the other types)
    for (w, cw) in [(u, cu), (v, cv), ([D::zero(); N], V::zero())] {
        let all_zero = w.iter().all(|x| x.is_zero());
        ctx.check(cw.is_zero() == all_zero, &key("zero/is_zero"), || format!("is_zero() = {} for {:?}", cw.is_zero(), w));
    }
    same::<D, N>(ctx, "from_value", V::from_value(s).arr(), [s; N]);
    // compound assignment
    let mut t = cu;
    t += cv;
    same::<D, N>(ctx, "add_assign", t.arr(), zip(&|a, b| a + b));
    if can_sub {
        let mut t = cu;
        t -= cv;
        same::<D, N>(ctx, "sub_assign", t.arr(), zip(&|a, b| a - b));
    }
    let mut t = cu;
    t *= s;
    same::<D, N>(ctx, "mul_assign", t.arr(), map(&|a| a * s));
    if nz_s {
        let mut t = cu;
        t /= s;
        same::<D, N>(ctx, "div_assign", t.arr(), map(&|a| a / s));
        let mut t = cu;
        t %= s;
        same::<D, N>(ctx, "rem_assign", t.arr(), map(&|a| a % s));
    }
    // element-wise operations, vector right-hand side
    same::<D, N>(ctx, "add_element_wise", cu.add_element_wise(cv).arr(), zip(&|a, b| a + b));
    if can_sub {
        same::<D, N>(ctx, "sub_element_wise", cu.sub_element_wise(cv).arr(), zip(&|a, b| a - b));
    }
    same::<D, N>(ctx, "mul_element_wise", cu.mul_element_wise(cv).arr(), zip(&|a, b| a * b));
    if nz_v {
        same::<D, N>(ctx, "div_element_wise", cu.div_element_wise(cv).arr(), zip(&|a, b| a / b));
        same::<D, N>(ctx, "rem_element_wise", cu.rem_element_wise(cv).arr(), zip(&|a, b| a % b));
    }
    let mut t = cu;
    t.add_assign_element_wise(cv);
    same::<D, N>(ctx, "add_assign_element_wise", t.arr(), zip(&|a, b| a + b));
    if can_sub {
        let mut t = cu;
        t.sub_assign_element_wise(cv);
        same::<D, N>(ctx, "sub_assign_element_wise", t.arr(), zip(&|a, b| a - b));
    }
    let mut t = cu;
    t.mul_assign_element_wise(cv);
    same::<D, N>(ctx, "mul_assign_element_wise", t.arr(), zip(&|a, b| a * b));
    if nz_v {
        let mut t = cu;
        t.div_assign_element_wise(cv);
        same::<D, N>(ctx, "div_assign_element_wise", t.arr(), zip(&|a, b| a / b));
        let mut t = cu;
        t.rem_assign_element_wise(cv);
        same::<D, N>(ctx, "rem_assign_element_wise", t.arr(), zip(&|a, b| a % b));
    }
    // element-wise operations, scalar right-hand side
    same::<D, N>(ctx, "add_element_wise/scalar", cu.add_element_wise(s).arr(), map(&|a| a + s));
    if can_sub_s {
        same::<D, N>(ctx, "sub_element_wise/scalar", cu.sub_element_wise(s).arr(), map(&|a| a - s));
    }
    same::<D, N>(ctx, "mul_element_wise/scalar", cu.mul_element_wise(s).arr(), map(&|a| a * s));
    if nz_s {
        same::<D, N>(ctx, "div_element_wise/scalar", cu.div_element_wise(s).arr(), map(&|a| a / s));
        same::<D, N>(ctx, "rem_element_wise/scalar", cu.rem_element_wise(s).arr(), map(&|a| a % s));
    }
    let mut t = cu;
    t.add_assign_element_wise(s);
    same::<D, N>(ctx, "add_assign_element_wise/scalar", t.arr(), map(&|a| a + s));
    if can_sub_s {
        let mut t = cu;
        t.sub_assign_element_wise(s);
        same::<D, N>(ctx, "sub_assign_element_wise/scalar", t.arr(), map(&|a| a - s));
    }
    let mut t = cu;
    t.mul_assign_element_wise(s);
    same::<D, N>(ctx, "mul_assign_element_wise/scalar", t.arr(), map(&|a| a * s));
    if nz_s {
        let mut t = cu;
        t.div_assign_element_wise(s);
        same::<D, N>(ctx, "div_assign_element_wise/scalar", t.arr(), map(&|a| a / s));
        let mut t = cu;
        t.rem_assign_element_wise(s);
        same::<D, N>(ctx, "rem_assign_element_wise/scalar", t.arr(), map(&|a| a % s));
    }
    // folds and the inner product
    let msum = mu.iter().fold(D::M::zero(), |a, x| a + *x);
    let mprod = mu.iter().fold(D::M::one(), |a, x| a * *x);
    cmp_s::<D>(ctx, "sum", cu.sum(), msum);
    cmp_s::<D>(ctx, "product", cu.product(), mprod);
    let mdot = model::vdot(mu, mv);
    cmp_s::<D>(ctx, "dot", cu.dot(cv), mdot);
    cmp_s::<D>(ctx, "dot/free-function", cgmath::dot(cu, cv), mdot);
    cmp_s::<D>(ctx, "dot/symmetric", cv.dot(cu), mdot);
    cmp_s::<D>(ctx, "magnitude2", cu.magnitude2(), model::vdot(mu, mu));
    // iter::Sum of values and of references
    let list = [cu, cv, cu];
    let msum3 = model::vadd(model::vadd(mu, mv), mu);
    cmp::<D, N>(ctx, "iter_sum", list.iter().copied().sum::<V>().arr(), msum3);
}

/// values no detour through another number type survives: integers whose pairwise products need (nearly) the full
/// width of the type - beyond what f64 (or, for 32-bit types, f32) holds exactly; non-dyadic fractions elsewhere
fn wide<D: Dom>(n: usize, variant: usize) -> Vec<R> {
    let half_bits: i64 = match D::NAME {
        "i8" | "u8" => 3,
        "i16" | "u16" => 6,
        "i32" | "u32" => 13,
        "i64" | "u64" | "isize" | "usize" => 28,
        _ => 0,
    };
    if D::INTEGER {
        let b = 1i64 << half_bits;
        let pool: [i64; 7] = [b + 1, -(b + 3), b - 1, -(b - 3), b / 2 + 1, -(b / 2 + 3), b + 5];
        (0..n).map(|i| { let x = pool[(i * (variant + 2) + variant) % 7]; (if D::SIGNED { x } else { x.abs() }, 1) }).collect()
    } else {
        let dens: [i64; 5] = [3, 7, 9, 11, 13];
        alphabet::generic(n, variant).iter().enumerate().map(|(i, r)| (r.0, r.1 * dens[(i + variant) % 5])).collect()
    }
}

fn pairs<D: Dom, V: VecN<D, N> + MaybeNeg + for<'a> std::iter::Sum<&'a V>, const N: usize>(rep: &mut Report) {
    let l = letters::<D>();
    // (1) all pairs over the 0/+-1 (0/1 for unsigned) alphabet with scalar from {1, 2}
    let a0: Vec<R> = if D::SIGNED { alphabet::A0.to_vec() } else { vec![(0, 1), (1, 1), (2, 1)] };
    let dims: Vec<usize> = std::iter::repeat(a0.len()).take(2 * N).chain([2]).collect();
    let n1 = alphabet::product_len(&dims);
    // (2) generic bases with bounded deviations over the full alphabet
    let k = rep.pick(2, 3);
    let slots = 2 * N + 1;
    let dev = DevSpace::new(slots, l.len(), k);
    let nb = 3;
    let n2 = nb * dev.len();
    // (3) thorough: the full product over the alphabet
    let dims3: Vec<usize> = std::iter::repeat(l.len()).take(2 * N).chain([3]).collect();
    // thorough: the full product, where it stays below 2e6 cases per domain (dimension <= 3)
    let n3 = if rep.thorough() && alphabet::product_len(&dims3) <= 2_000_000 { alphabet::product_len(&dims3) } else { 0 };
    rep.cases(
        &format!("pairs/{}", V::NAME),
        D::NAME,
        &format!(
            "all (u,v) over {} letters^{} x 2 scalars; 3 bases x <= {k} deviations over {} letters in {slots} slots; 6 pairs of wide integers (products beyond 2^53) resp. non-dyadic fractions{}",
            a0.len(),
            2 * N,
            l.len(),
            if n3 > 0 { format!("; full product {}^{} x 3 scalars", l.len(), 2 * N) } else { String::new() }
        ),
        n1 + n2 + n3 + 6,
        Guard::states(20).distinct(10),
        |i, ctx| {
            let r: Vec<R> = if i >= n1 + n2 + n3 {
                // (4) six operand pairs of wide integers / non-dyadic fractions (results that do not fit are not judged)
                let j = i - n1 - n2 - n3;
                let mut r = wide::<D>(2 * N, j);
                r.push([(1, 1), (2, 1), (3, 1)][j % 3]);
                r
            } else if i < n1 {
                let d = alphabet::decode(i, &dims);
                let mut r: Vec<R> = d[..2 * N].iter().map(|&j| a0[j]).collect();
                r.push([(1, 1), (2, 1)][d[2 * N]]);
                r
            } else if i < n1 + n2 {
                let j = i - n1;
                deviate(&base::<D>(slots, j / dev.len()), &dev.get(j % dev.len()), &l)
            } else {
                let d = alphabet::decode(i - n1 - n2, &dims3);
                let mut r: Vec<R> = d[..2 * N].iter().map(|&j| l[j]).collect();
                r.push([(1, 1), (2, 1), (3, 1)][d[2 * N]]);
                r
            };
            let u: [D; N] = vec_from_r(&r[..N]);
            let v: [D; N] = vec_from_r(&r[N..2 * N]);
            let s: D = rq(r[2 * N]);
            ctx.describe(|| format!("{}<{}> u={:?} v={:?} s={:?}", V::NAME, D::NAME, u, v, s));
            ops::<D, V, N>(ctx, u, v, s);
            // Sum over references
            let (cu, cv) = (V::mk(u), V::mk(v));
            let list = [cu, cv];
            let by_ref: V = list.iter().sum();
            cmp::<D, N>(ctx, "iter_sum/refs", by_ref.arr(), model::vadd(lift_v(u), lift_v(v)));
        },
    );
}

/// bilinearity of dot over triples; cross-product identities in 3-D
fn laws<D: Dom, V: VecN<D, N> + MaybeNeg, const N: usize>(rep: &mut Report) {
    let signed = D::SIGNED;
    let full = N <= 2 || (N == 3 && rep.thorough());
    let sp = SparseSpace::new(3 * N, if rep.quick() { 3 } else { 4 }, signed);
    let a0: Vec<R> = if signed { alphabet::A0.to_vec() } else { vec![(0, 1), (1, 1), (2, 1)] };
    let dims: Vec<usize> = vec![a0.len(); 3 * N];
    let n_full = if full { alphabet::product_len(&dims) } else { 0 };
    let k = rep.pick(1, 2);
    let l = letters::<D>();
    let dev = DevSpace::new(3 * N, l.len(), k);
    rep.cases(
        &format!("laws/{}", V::NAME),
        D::NAME,
        &format!(
            "triples (u,v,w): all 0/+-1 with support <= {}{}; 2 bases x <= {k} deviations",
            if rep.quick() { 3 } else { 4 },
            if full { " and the full 0/+-1 product" } else { "" }
        ),
        sp.len() + n_full + 2 * dev.len(),
        Guard::states(20).distinct(5),
        |i, ctx| {
            let r: Vec<R> = if i < sp.len() {
                sp.get(i).iter().map(|&b| (b, 1)).collect()
            } else if i < sp.len() + n_full {
                alphabet::decode(i - sp.len(), &dims).iter().map(|&j| a0[j]).collect()
            } else {
                let j = i - sp.len() - n_full;
                deviate(&base::<D>(3 * N, j / dev.len()), &dev.get(j % dev.len()), &l)
            };
            let u: [D; N] = vec_from_r(&r[..N]);
            let v: [D; N] = vec_from_r(&r[N..2 * N]);
            let w: [D; N] = vec_from_r(&r[2 * N..]);
            ctx.describe(|| format!("{}<{}> u={:?} v={:?} w={:?}", V::NAME, D::NAME, u, v, w));
            ctx.out(&r);
            let (mu, mv, mw) = (lift_v(u), lift_v(v), lift_v(w));
            let (cu, cv, cw) = (V::mk(u), V::mk(v), V::mk(w));
            let (a, b): (D, D) = (rq((2, 1)), rq((3, 1)));
            // dot((a u + b v), w) = a dot(u,w) + b dot(v,w)
            let lhs = (cu * a + cv * b).dot(cw);
            let rhs = cu.dot(cw) * a + cv.dot(cw) * b;
            let m = model::vdot(model::vadd(model::vscale(mu, a.lift()), model::vscale(mv, b.lift())), mw);
            cmp_s::<D>(ctx, "law/dot-bilinear", lhs, m);
            cmp_s::<D>(ctx, "law/dot-bilinear", rhs, m);
            cmp_s::<D>(ctx, "law/dot-symmetric", cu.dot(cv), model::vdot(mv, mu));
            cmp_s::<D>(ctx, "law/magnitude2", cu.magnitude2(), model::vdot(mu, mu));
            // (u + v) + w = u + (v + w)
            cmp::<D, N>(ctx, "law/add-assoc", ((cu + cv) + cw).arr(), model::vadd(mu, model::vadd(mv, mw)));
            cmp::<D, N>(ctx, "law/add-assoc", (cu + (cv + cw)).arr(), model::vadd(mu, model::vadd(mv, mw)));
        },
    );
}

fn cross3<D: Dom>(rep: &mut Report)
where
    Vector3<D>: MaybeNeg,
{
    let signed = D::SIGNED;
    let a0: Vec<R> = if signed { alphabet::A0.to_vec() } else { vec![(0, 1), (1, 1), (2, 1)] };
    let dims: Vec<usize> = vec![a0.len(); 9];
    let n_full = alphabet::product_len(&dims);
    let k = rep.pick(2, 3);
    let l = letters::<D>();
    let dev = DevSpace::new(9, l.len(), k);
    rep.cases(
        "cross/Vector3",
        D::NAME,
        &format!("all triples over {}^9; 3 bases x <= {k} deviations over {} letters; 6 triples of wide integers resp. non-dyadic fractions", a0.len(), l.len()),
        n_full + 3 * dev.len() + 6,
        Guard::states(1000).distinct(100),
        |i, ctx| {
            let r: Vec<R> = if i >= n_full + 3 * dev.len() {
                wide::<D>(9, i - n_full - 3 * dev.len())
            } else if i < n_full {
                alphabet::decode(i, &dims).iter().map(|&j| a0[j]).collect()
            } else {
                let j = i - n_full;
                deviate(&base::<D>(9, j / dev.len()), &dev.get(j % dev.len()), &l)
            };
            let u: [D; 3] = vec_from_r(&r[..3]);
            let v: [D; 3] = vec_from_r(&r[3..6]);
            let w: [D; 3] = vec_from_r(&r[6..]);
            ctx.describe(|| format!("Vector3<{}> u={:?} v={:?} w={:?}", D::NAME, u, v, w));
            ctx.out(&r);
            let (mu, mv, mw) = (lift_v(u), lift_v(v), lift_v(w));
            let (cu, cv, cw) = (mk_v3(u), mk_v3(v), mk_v3(w));
            let muv = model::cross(mu, mv);
            if !muv.iter().all(|m| D::representable(*m)) {
                ctx.skip("cross product not representable (unsigned)");
                return;
            }
            let uv = cu.cross(cv);
            cmp::<D, 3>(ctx, "cross", v3(uv), muv);
            if signed {
                // antisymmetry, orthogonality, Lagrange, triple product
                cmp::<D, 3>(ctx, "law/cross-antisymmetric", v3(cv.cross(cu)), model::vneg(muv));
                if let Some(n) = cv.cross(cu).try_neg() {
                    cmp::<D, 3>(ctx, "law/cross-antisymmetric", v3(n), muv);
                }
                cmp_s::<D>(ctx, "law/cross-orthogonal", uv.dot(cu), D::M::zero().with_err_of(model::vdot(muv, mu)));
                cmp_s::<D>(ctx, "law/cross-orthogonal", uv.dot(cv), D::M::zero().with_err_of(model::vdot(muv, mv)));
                let lag = model::vdot(mu, mu) * model::vdot(mv, mv) - model::vdot(mu, mv) * model::vdot(mu, mv);
                cmp_s::<D>(ctx, "law/lagrange", uv.magnitude2(), lag.with_err_of(model::vdot(muv, muv)));
                let rhs_m = model::vsub(model::vscale(mv, model::vdot(mu, mw)), model::vscale(mw, model::vdot(mu, mv)));
                let lhs_m = model::cross(mu, model::cross(mv, mw));
                let merged: [D::M; 3] = std::array::from_fn(|j| rhs_m[j].with_err_of(lhs_m[j]));
                cmp::<D, 3>(ctx, "law/triple-product", v3(cu.cross(cv.cross(cw))), merged);
                cmp::<D, 3>(ctx, "law/triple-product", v3(cv * cu.dot(cw) - cw * cu.dot(cv)), merged);
            }
        },
    );
}

fn perp2<D: Dom>(rep: &mut Report) {
    let l = letters::<D>();
    let dims: Vec<usize> = vec![l.len(); 4];
    rep.cases(
        "perp_dot/Vector2",
        D::NAME,
        &format!("all pairs over {}^4; 6 pairs of wide integers resp. non-dyadic fractions", l.len()),
        alphabet::product_len(&dims) + 6,
        Guard::states(100).distinct(20),
        |i, ctx| {
            let nfull = alphabet::product_len(&dims);
            let r: Vec<R> = if i >= nfull { wide::<D>(4, i - nfull) } else { alphabet::decode(i, &dims).iter().map(|&j| l[j]).collect() };
            let u: [D; 2] = vec_from_r(&r[..2]);
            let v: [D; 2] = vec_from_r(&r[2..]);
            ctx.describe(|| format!("Vector2<{}> u={:?} v={:?}", D::NAME, u, v));
            ctx.out(&r);
            let (mu, mv) = (lift_v(u), lift_v(v));
            let m = mu[0] * mv[1] - mu[1] * mv[0];
            if D::representable(m) {
                eq_s::<D>(ctx, &key("perp_dot"), mk_v2(u).perp_dot(mk_v2(v)), m);
            } else {
                ctx.skip("perp_dot not representable (unsigned)");
            }
        },
    );
}

fn units<D: Dom>(rep: &mut Report) {
    rep.cases("units", D::NAME, "the 10 unit vectors of dimensions 1..4", 10, Guard::states(10), |i, ctx| {
        let (o, z) = (D::one(), D::zero());
        ctx.describe(|| format!("unit vector #{i} over {}", D::NAME));
        ctx.out(&i);
        match i {
            0 => same_slice(ctx, &key("unit_x/1"), &v1(Vector1::<D>::unit_x()), &[o]),
            1 => same_slice(ctx, &key("unit_x/2"), &v2(Vector2::<D>::unit_x()), &[o, z]),
            2 => same_slice(ctx, &key("unit_y/2"), &v2(Vector2::<D>::unit_y()), &[z, o]),
            3 => same_slice(ctx, &key("unit_x/3"), &v3(Vector3::<D>::unit_x()), &[o, z, z]),
            4 => same_slice(ctx, &key("unit_y/3"), &v3(Vector3::<D>::unit_y()), &[z, o, z]),
            5 => same_slice(ctx, &key("unit_z/3"), &v3(Vector3::<D>::unit_z()), &[z, z, o]),
            6 => same_slice(ctx, &key("unit_x/4"), &v4(Vector4::<D>::unit_x()), &[o, z, z, z]),
            7 => same_slice(ctx, &key("unit_y/4"), &v4(Vector4::<D>::unit_y()), &[z, o, z, z]),
            8 => same_slice(ctx, &key("unit_z/4"), &v4(Vector4::<D>::unit_z()), &[z, z, o, z]),
            _ => same_slice(ctx, &key("unit_w/4"), &v4(Vector4::<D>::unit_w()), &[z, z, z, o]),
        };
    });
}

/// float tiers: v nearly {equal to u, opposite to u, zero, 2u, a unit vector} - the shapes a short cut would test for
/// with the library's tolerant comparisons - exactly, below the scalar epsilon, off by 2^-30 and by 2^-22
fn nearly_special<T: Tier + Dom<M = Sh>>(rep: &mut Report)
where
    Vector1<T>: MaybeNeg,
    Vector2<T>: MaybeNeg,
    Vector3<T>: MaybeNeg,
    Vector4<T>: MaybeNeg,
{
    let ds = [0.0, T::U / 64.0, 2f64.powi(-30), 2f64.powi(-22)];
    rep.cases(
        "nearly-special",
        T::NAME,
        "u generic, v nearly {u, -u, zero, 2u, e_1} x {exactly, below epsilon, by 2^-30, by 2^-22}, both orders: every operation of Vector1-4, cross, perp_dot",
        5 * ds.len() * 2,
        Guard::states(40).distinct(20),
        |i, ctx| {
            let (shape, di, swap) = (i / (2 * ds.len()), (i / 2) % ds.len(), i % 2 == 1);
            let d = ds[di];
            let c = |x: f64| num_traits::cast::<f64, T>(x).unwrap();
            let u: [T; 4] = vec_from_r(&alphabet::generic(4, 1));
            let h: [T; 4] = vec_from_r(&alphabet::generic(4, 2));
            let v: [T; 4] = std::array::from_fn(|j| {
                let off = d * h[j].f() / 8.0;
                c(match shape {
                    0 => u[j].f() * (1.0 + d * (j + 1) as f64),
                    1 => -u[j].f() * (1.0 + d * (j + 1) as f64),
                    2 => off,
                    3 => 2.0 * u[j].f() + off,
                    _ => (if j == 0 { 1.0 } else { 0.0 }) + if j == 0 { 0.0 } else { off },
                })
            });
            let (a, b) = if swap { (v, u) } else { (u, v) };
            ctx.describe(|| format!("shape {} variant {di}: a={:?} b={:?}", ["equal", "opposite", "zero", "double", "unit"][shape], a, b));
            let s: T = c(2.5);
            ops::<T, Vector1<T>, 1>(ctx, [a[0]], [b[0]], s);
            ops::<T, Vector2<T>, 2>(ctx, [a[0], a[1]], [b[0], b[1]], s);
            ops::<T, Vector3<T>, 3>(ctx, [a[0], a[1], a[2]], [b[0], b[1], b[2]], s);
            ops::<T, Vector4<T>, 4>(ctx, a, b, s);
            let (a3, b3): ([T; 3], [T; 3]) = ([a[0], a[1], a[2]], [b[0], b[1], b[2]]);
            cmp::<T, 3>(ctx, "cross/nearly-special", v3(mk_v3(a3).cross(mk_v3(b3))), model::cross(lift_v(a3), lift_v(b3)));
            let (ma, mb) = (lift_v([a[0], a[1]]), lift_v([b[0], b[1]]));
            cmp_s::<T>(ctx, "perp_dot/nearly-special", mk_v2([a[0], a[1]]).perp_dot(mk_v2([b[0], b[1]])), ma[0] * mb[1] - ma[1] * mb[0]);
        },
    );
}
/// operands whose components differ by many orders of magnitude (one component of u, of v, or of both scaled by 2^k for
/// every k up to the type's room): a summation that treats a dominant term differently, a pre-scaling, a threshold on
/// a ratio of products all have their seam somewhere on this ladder
fn lopsided<D: Dom>(rep: &mut Report)
where
    Vector1<D>: MaybeNeg,
    Vector2<D>: MaybeNeg,
    Vector3<D>: MaybeNeg,
    Vector4<D>: MaybeNeg,
{
    // exponents: every second one up to 40 (floats, exact tier); what the integer type can hold otherwise
    let kmax = if D::INTEGER { (1..=62).rev().find(|k| D::from_r((((1i128 << k) - 1) as i64, 1)).is_some()).unwrap() as i64 / 2 - 4 } else { 40 };
    let ks: Vec<i64> = (1..=kmax.max(1)).step_by(if D::INTEGER { 1 } else { 2 }).collect();
    let dims = [2usize, 4, 3, ks.len()];
    rep.cases(
        "lopsided",
        D::NAME,
        &format!("2 generic pairs (u, v) x component j of {{u, v, both}} scaled by 2^k, k in {:?}: every operation of Vector1-4, cross, perp_dot", ks),
        alphabet::product_len(&dims),
        Guard::states(10).distinct(10),
        |i, ctx| {
            let d = alphabet::decode(i, &dims);
            let (j, which, k) = (d[1], d[2], ks[d[3]]);
            let mut r = base::<D>(8, d[0]);
            let f = 1i64 << k;
            if which != 1 { r[j] = (r[j].0 * f, r[j].1); }
            if which != 0 { r[4 + j] = (r[4 + j].0 * f, r[4 + j].1); }
            let u: [D; 4] = vec_from_r(&r[..4]);
            let v: [D; 4] = vec_from_r(&r[4..]);
            ctx.describe(|| format!("u={:?} v={:?} (component {j} of {} scaled by 2^{k})", u, v, ["u", "v", "both"][which]));
            let s: D = rq((2, 1));
            ops::<D, Vector1<D>, 1>(ctx, [u[0]], [v[0]], s);
            ops::<D, Vector2<D>, 2>(ctx, [u[0], u[1]], [v[0], v[1]], s);
            ops::<D, Vector3<D>, 3>(ctx, [u[0], u[1], u[2]], [v[0], v[1], v[2]], s);
            ops::<D, Vector4<D>, 4>(ctx, u, v, s);
            let (a3, b3): ([D; 3], [D; 3]) = ([u[0], u[1], u[2]], [v[0], v[1], v[2]]);
            let mc = model::cross(lift_v(a3), lift_v(b3));
            if mc.iter().all(|m| D::representable(*m)) && (D::SIGNED) {
                cmp::<D, 3>(ctx, "cross/lopsided", v3(mk_v3(a3).cross(mk_v3(b3))), mc);
            }
            let (ma, mb) = (lift_v([u[0], u[1]]), lift_v([v[0], v[1]]));
            let mp = ma[0] * mb[1] - ma[1] * mb[0];
            if D::representable(mp) && D::SIGNED {
                cmp_s::<D>(ctx, "perp_dot/lopsided", mk_v2([u[0], u[1]]).perp_dot(mk_v2([v[0], v[1]])), mp);
            }
        },
    );
}
/// float tiers: both operands roughly along coordinate axes - off-axis components 2^-k of the main one, for every k
/// from 3 to 24 - along the same axis, different axes, either sense (a "both axis-aligned" short cut drops the products
/// of the small components)
fn near_axes<T: Tier + Dom<M = Sh>>(rep: &mut Report)
where
    Vector1<T>: MaybeNeg,
    Vector2<T>: MaybeNeg,
    Vector3<T>: MaybeNeg,
    Vector4<T>: MaybeNeg,
{
    let ks: Vec<i32> = (3..=24).step_by(3).collect();
    let dims = [4usize, 4, 2, ks.len(), ks.len()];
    rep.cases(
        "near-axes",
        T::NAME,
        &format!("u roughly along +-e_i, v roughly along +-e_j (i, j < 4, both senses of v), off-axis components 2^-k of the main one, k in {:?} independently for u and v: every operation, cross, perp_dot", ks),
        alphabet::product_len(&dims),
        Guard::states(100).distinct(50),
        |i, ctx| {
            let d = alphabet::decode(i, &dims);
            let c = |x: f64| num_traits::cast::<f64, T>(x).unwrap();
            let (du, dv) = (2f64.powi(-ks[d[3]]), 2f64.powi(-ks[d[4]]));
            let sg = if d[2] == 0 { 1.0 } else { -1.0 };
            let u: [T; 4] = std::array::from_fn(|j| c(if j == d[0] { 3.0 } else { 3.0 * du * [0.75, -1.0, 0.5, 0.875][j] }));
            let v: [T; 4] = std::array::from_fn(|j| c(if j == d[1] { sg * 2.0 } else { 2.0 * dv * [-0.625, 0.5, 1.0, -0.75][j] }));
            ctx.describe(|| format!("u={:?} v={:?}", u, v));
            let s: T = c(2.5);
            ops::<T, Vector2<T>, 2>(ctx, [u[0], u[1]], [v[0], v[1]], s);
            ops::<T, Vector3<T>, 3>(ctx, [u[0], u[1], u[2]], [v[0], v[1], v[2]], s);
            ops::<T, Vector4<T>, 4>(ctx, u, v, s);
            let (a3, b3): ([T; 3], [T; 3]) = ([u[0], u[1], u[2]], [v[0], v[1], v[2]]);
            cmp::<T, 3>(ctx, "cross/near-axes", v3(mk_v3(a3).cross(mk_v3(b3))), model::cross(lift_v(a3), lift_v(b3)));
            let (ma, mb) = (lift_v([u[0], u[1]]), lift_v([v[0], v[1]]));
            cmp_s::<T>(ctx, "perp_dot/near-axes", mk_v2([u[0], u[1]]).perp_dot(mk_v2([v[0], v[1]])), ma[0] * mb[1] - ma[1] * mb[0]);
        },
    );
}
fn all<D: Dom>(rep: &mut Report)
where
    Vector1<D>: MaybeNeg,
    Vector2<D>: MaybeNeg,
    Vector3<D>: MaybeNeg,
    Vector4<D>: MaybeNeg,
{
    pairs::<D, Vector1<D>, 1>(rep);
    pairs::<D, Vector2<D>, 2>(rep);
    pairs::<D, Vector3<D>, 3>(rep);
    pairs::<D, Vector4<D>, 4>(rep);
    laws::<D, Vector1<D>, 1>(rep);
    laws::<D, Vector2<D>, 2>(rep);
    laws::<D, Vector3<D>, 3>(rep);
    laws::<D, Vector4<D>, 4>(rep);
    cross3::<D>(rep);
    perp2::<D>(rep);
    units::<D>(rep);
    lopsided::<D>(rep);
}

fn main() {
    let mut rep = Report::from_args(P);
    rep.assume("integer tiers: alphabets {0..3} / {-3..3} so that no product-and-sum of four components overflows; results whose exact value does not fit the type are not judged");
    rep.assume("component-wise clauses are judged against the scalar type's own primitive operation per component (bitwise), the bilinear ones against the exact model");
    for_all_doms!(all, &mut rep);
    nearly_special::<f64>(&mut rep);
    nearly_special::<f32>(&mut rep);
    near_axes::<f64>(&mut rep);
    near_axes::<f32>(&mut rep);
    std::process::exit(rep.finish());
}
