//! C04 — Hamilton algebra; unit quaternions act as rotations.
use cgmath::{One, Rotation, Zero};
use mc_props::*;

const P: &str = "C04";
fn key(s: &str) -> String {
    format!("{P}/{s}")
}
type Q4<F> = [F; 4];

fn lq<T: Tier>(q: Q4<T>) -> Q4<T::M> {
    lift_v(q)
}
/// the statement's formula: v + 2 * qv x (qv x v + s v)
fn formula<F: Field>(q: Q4<F>, v: [F; 3]) -> [F; 3] {
    let qv = [q[1], q[2], q[3]];
    let inner = model::vadd(model::cross(qv, v), model::vscale(v, q[0]));
    model::vadd(v, model::vscale(model::cross(qv, inner), F::int(2)))
}

fn algebra<T: Tier>(rep: &mut Report) {
    // (a) signed basis triples, (b) sparse 0/+-1, (c) generic with deviations
    let n_a = 8 * 8 * 8;
    let sp = SparseSpace::new(12, rep.pick(3, 4), true);
    let k = rep.pick(2, 4);
    let letters = alphabet::A1;
    let dev = DevSpace::new(13, letters.len(), k);
    let nb = 3;
    let total = n_a + sp.len() + nb * dev.len();
    rep.cases(
        "algebra",
        T::NAME,
        &format!("(p,q,r): all signed basis triples (512); all 0/+-1 with support <= {}; 3 generic bases x <= {k} deviations over A1 in 13 slots (p,q,r,s)", rep.pick(3, 4)),
        total,
        Guard::states(1000).distinct(500),
        |i, ctx| {
            let r: Vec<R> = if i < n_a {
                let d = alphabet::decode(i, &[8, 8, 8]);
                let mut r = vec![(0i64, 1i64); 13];
                for (slot, &c) in d.iter().enumerate() {
                    r[slot * 4 + c % 4] = (if c < 4 { 1 } else { -1 }, 1);
                }
                r[12] = (2, 1);
                r
            } else if i < n_a + sp.len() {
                let mut r: Vec<R> = sp.get(i - n_a).iter().map(|&b| (b, 1)).collect();
                r.push((-3, 2));
                r
            } else {
                let j = i - n_a - sp.len();
                deviate(&alphabet::generic(13, j / dev.len()), &dev.get(j % dev.len()), &letters)
            };
            let p: Q4<T> = vec_from_r(&r[0..4]);
            let q: Q4<T> = vec_from_r(&r[4..8]);
            let w: Q4<T> = vec_from_r(&r[8..12]);
            let s: T = rq(r[12]);
            ctx.describe(|| format!("p={:?} q={:?} r={:?} s={:?} (as [w,x,y,z])", p, q, w, s));
            ctx.out(&r);
            let (mp, mq, mw) = (lq::<T>(p), lq::<T>(q), lq::<T>(w));
            let (cp, cq, cw) = (mk_q(p), mk_q(q), mk_q(w));
            let mpq = model::qmul(mp, mq);
            eq_v::<T, 4>(ctx, &key("mul"), qa(cp * cq), mpq);
            // associativity
            let assoc = model::qmul(mpq, mw);
            eq_v::<T, 4>(ctx, &key("law/assoc"), qa((cp * cq) * cw), assoc);
            eq_v::<T, 4>(ctx, &key("law/assoc"), qa(cp * (cq * cw)), model::qmul(mp, model::qmul(mq, mw)));
            // distributivity (both sides)
            eq_v::<T, 4>(ctx, &key("law/distrib-left"), qa(cp * (cq + cw)), model::qmul(mp, model::vadd(mq, mw)));
            eq_v::<T, 4>(ctx, &key("law/distrib-left"), qa(cp * cq + cp * cw), model::vadd(mpq, model::qmul(mp, mw)));
            eq_v::<T, 4>(ctx, &key("law/distrib-right"), qa((cp + cq) * cw), model::qmul(model::vadd(mp, mq), mw));
            eq_v::<T, 4>(ctx, &key("law/distrib-right"), qa(cp * cw + cq * cw), model::vadd(model::qmul(mp, mw), model::qmul(mq, mw)));
            // one() is the identity, zero() the additive identity
            same_slice(ctx, &key("one"), &qa(Quaternion::<T>::one() * cp), &p);
            same_slice(ctx, &key("one"), &qa(cp * Quaternion::<T>::one()), &p);
            same_slice(ctx, &key("zero"), &qa(cp + Quaternion::<T>::zero()), &p);
            // conjugate is an anti-homomorphism, norm is multiplicative
            eq_v::<T, 4>(ctx, &key("conjugate"), qa(cp.conjugate()), model::qconj(mp));
            eq_v::<T, 4>(ctx, &key("law/conj-antihom"), qa((cp * cq).conjugate()), model::qconj(mpq));
            eq_v::<T, 4>(ctx, &key("law/conj-antihom"), qa(cq.conjugate() * cp.conjugate()), model::qmul(model::qconj(mq), model::qconj(mp)));
            eq_s::<T>(ctx, &key("law/norm-multiplicative"), (cp * cq).magnitude2(), model::qnorm2(mpq));
            eq_s::<T>(ctx, &key("law/norm-multiplicative"), cp.magnitude2() * cq.magnitude2(), model::qnorm2(mp) * model::qnorm2(mq));
            if T::EXACT {
                same_slice(ctx, &key("law/assoc"), &qa((cp * cq) * cw), &qa(cp * (cq * cw)));
                same_slice(ctx, &key("law/distrib-left"), &qa(cp * (cq + cw)), &qa(cp * cq + cp * cw));
                same_slice(ctx, &key("law/distrib-right"), &qa((cp + cq) * cw), &qa(cp * cw + cq * cw));
                same_slice(ctx, &key("law/conj-antihom"), &qa((cp * cq).conjugate()), &qa(cq.conjugate() * cp.conjugate()));
                same_slice(ctx, &key("law/norm-multiplicative"), &[(cp * cq).magnitude2()], &[cp.magnitude2() * cq.magnitude2()]);
            }
            // vector-space structure
            eq_v::<T, 4>(ctx, &key("add"), qa(cp + cq), model::vadd(mp, mq));
            eq_v::<T, 4>(ctx, &key("sub"), qa(cp - cq), model::vsub(mp, mq));
            eq_v::<T, 4>(ctx, &key("neg"), qa(-cp), model::vneg(mp));
            eq_v::<T, 4>(ctx, &key("mul_scalar"), qa(cp * s), model::vscale(mp, s.lift()));
            if !s.is_zero() {
                eq_v::<T, 4>(ctx, &key("div_scalar"), qa(cp / s), model::vdiv(mp, s.lift()));
            }
            let mut t = cp;
            t += cq;
            eq_v::<T, 4>(ctx, &key("add_assign"), qa(t), model::vadd(mp, mq));
            let mut t = cp;
            t -= cq;
            eq_v::<T, 4>(ctx, &key("sub_assign"), qa(t), model::vsub(mp, mq));
            let mut t = cp;
            t *= s;
            eq_v::<T, 4>(ctx, &key("mul_assign"), qa(t), model::vscale(mp, s.lift()));
            eq_s::<T>(ctx, &key("dot"), cp.dot(cq), model::vdot(mp, mq));
            // rotation inverse: q * invert(q) = invert(q) * q = one(), for q != 0
            let n2 = model::qnorm2(mq);
            if !n2.is_zero() {
                ctx.branch("invert");
                let inv = Rotation::invert(&cq);
                let minv = model::qinv(mq);
                eq_v::<T, 4>(ctx, &key("invert"), qa(inv), minv);
                let one = model::qone::<T::M>();
                let r1 = model::qmul(mq, minv);
                let r2 = model::qmul(minv, mq);
                let e1: Q4<T::M> = std::array::from_fn(|j| one[j].with_err_of(r1[j]));
                let e2: Q4<T::M> = std::array::from_fn(|j| one[j].with_err_of(r2[j]));
                eq_v::<T, 4>(ctx, &key("invert/right-identity"), qa(cq * inv), e1);
                eq_v::<T, 4>(ctx, &key("invert/left-identity"), qa(inv * cq), e2);
            }
            // folds
            let list = [cp, cq, cw];
            eq_v::<T, 4>(ctx, &key("iter_sum"), qa(list.iter().copied().sum::<Quaternion<T>>()), model::vadd(model::vadd(mp, mq), mw));
            eq_v::<T, 4>(ctx, &key("iter_sum/refs"), qa(list.iter().sum::<Quaternion<T>>()), model::vadd(model::vadd(mp, mq), mw));
            eq_v::<T, 4>(ctx, &key("iter_product"), qa(list.iter().copied().product::<Quaternion<T>>()), assoc);
            eq_v::<T, 4>(ctx, &key("iter_product/refs"), qa(list.iter().product::<Quaternion<T>>()), assoc);
        },
    );
}

fn probes() -> Vec<[R; 3]> {
    let g0 = alphabet::generic(3, 0);
    let g1 = alphabet::generic(3, 1);
    let g2 = alphabet::generic(3, 3);
    vec![
        [g0[0], g0[1], g0[2]],
        [g1[0], g1[1], g1[2]],
        [g2[0], g2[1], g2[2]],
        [(1, 1), (0, 1), (0, 1)],
        [(0, 1), (1, 1), (0, 1)],
        [(0, 1), (0, 1), (1, 1)],
        [(-1, 2), (3, 1), (-2, 1)],
        // long vectors (far points)
        [(g0[0].0 << 12, g0[0].1), (g0[1].0 << 12, g0[1].1), (g0[2].0 << 12, g0[2].1)],
        [(g1[0].0 << 20, g1[0].1), (g1[1].0 << 20, g1[1].1), (g1[2].0 << 20, g1[2].1)],
    ]
}

/// unit quaternions acting on vectors
fn action<T: Tier>(rep: &mut Report) {
    let mut uq = alphabet::uq(1);
    // unit quaternions with a tiny vector part (small rotations) or a tiny scalar part (nearly half turns):
    // (4^j - 1, 2^(j+1), 0, 0)/(4^j + 1) in every arrangement - where a "the vector part is numerically zero" short cut acts
    for j in if T::EXACT { vec![5u32, 8] } else { (3u32..=27).step_by(2).collect() } {
        let (a, b, d) = ((1i64 << (2 * j)) - 1, 1i64 << (j + 1), (1i64 << (2 * j)) + 1);
        for big in 0..4 {
            for small in 0..4 {
                if small != big {
                    let mut t = [0i64; 4];
                    t[big] = a;
                    t[small] = if (big + small) % 2 == 0 { b } else { -b };
                    uq.push((t, d));
                }
            }
        }
    }
    let ps = alphabet::uq(0);
    let ps: Vec<_> = ps.iter().step_by(ps.len() / 6).copied().collect();
    let vs = probes();
    let total = uq.len() * vs.len();
    rep.cases(
        "action/unit",
        T::NAME,
        &format!("{} rational unit quaternions x {} probe vectors x {} composing unit quaternions", uq.len(), vs.len(), ps.len()),
        total,
        Guard::states(300).distinct(200),
        |i, ctx| {
            let (qi, vi) = (i / vs.len(), i % vs.len());
            let (qn, qd) = uq[qi];
            let q: Q4<T> = std::array::from_fn(|j| T::q(qn[j], qd));
            let v: [T; 3] = vec_from_r(&vs[vi]);
            ctx.describe(|| format!("q={:?}/{} (w,x,y,z) v={:?}", qn, qd, v));
            ctx.out(&(qn, qd, vi));
            let (mq, mv) = (lq::<T>(q), lift_v(v));
            let (cq, cv) = (mk_q(q), mk_v3(v));
            let got = v3(cq * cv);
            let f = formula(mq, mv);
            eq_v::<T, 3>(ctx, &key("mul_vector/formula"), got, f);
            let sw = model::qsandwich(mq, mv);
            // for unit q the formula is the sandwich product; in float tiers q is unit only
            // up to rounding, which the running error of |q|^2 - 1 accounts for
            let unit_defect = (model::qnorm2(mq).approx() - 1.0).abs();
            let slack = 1.0 + unit_defect / T::U.max(1e-300) / K_TOL * 4.0;
            eq_vc::<T, 3>(ctx, &key("mul_vector/sandwich"), got, sw, if T::EXACT { 1.0 } else { slack });
            // Rotation::rotate_vector / rotate_point of a unit quaternion: the same rotation (any correct evaluation of it)
            if T::EXACT {
                same_slice(ctx, &key("rotate_vector"), &v3(cq.rotate_vector(cv)), &got);
                same_slice(ctx, &key("rotate_point"), &p3(cq.rotate_point(mk_p3(v))), &got);
            } else {
                eq_vc::<T, 3>(ctx, &key("rotate_vector"), v3(cq.rotate_vector(cv)), sw, slack);
                eq_vc::<T, 3>(ctx, &key("rotate_point"), p3(cq.rotate_point(mk_p3(v))), sw, slack);
            }
            // length preserved
            let l2 = model::vdot(mv, mv);
            let got_l2 = (cq * cv).magnitude2();
            let ml2 = model::vdot(f, f);
            ctx.t();
            if !got_l2.close(l2.with_err_of(ml2), if T::EXACT { 1.0 } else { slack }) {
                ctx.fail(&key("law/length-preserved"), || format!("|q*v|^2={:?} |v|^2={:?}", got_l2, l2));
            }
            // composition (p*q)*v = p*(q*v)
            for (pn, pd) in &ps {
                let p: Q4<T> = std::array::from_fn(|j| T::q(pn[j], *pd));
                let (mp, cp) = (lq::<T>(p), mk_q(p));
                let lhs = v3((cp * cq) * cv);
                let rhs = v3(cp * (cq * cv));
                let m1 = formula(model::qmul(mp, mq), mv);
                let m2 = formula(mp, formula(mq, mv));
                eq_vc::<T, 3>(ctx, &key("law/composition"), lhs, m1, 1.0);
                eq_vc::<T, 3>(ctx, &key("law/composition"), rhs, m2, 1.0);
                if T::EXACT {
                    same_slice(ctx, &key("law/composition"), &lhs, &rhs);
                } else {
                    // the two model values agree up to the unit defects of p and q
                    let merged: [T::M; 3] = std::array::from_fn(|j| m1[j].with_err_of(m2[j]));
                    eq_vc::<T, 3>(ctx, &key("law/composition"), rhs, merged, slack * 4.0);
                }
            }
        },
    );
    // arbitrary (non-unit) quaternions: the formula clause
    let k = rep.pick(2, 5);
    let letters = alphabet::A1;
    let dev = DevSpace::new(7, letters.len(), k);
    rep.cases(
        "action/any",
        T::NAME,
        &format!("3 generic bases (q, v) x <= {k} deviations over A1 in 7 slots"),
        3 * dev.len(),
        Guard::states(100).distinct(90),
        |i, ctx| {
            let r = deviate(&alphabet::generic(7, i / dev.len()), &dev.get(i % dev.len()), &letters);
            let q: Q4<T> = vec_from_r(&r[..4]);
            let v: [T; 3] = vec_from_r(&r[4..]);
            ctx.describe(|| format!("q={:?} (w,x,y,z) v={:?}", q, v));
            ctx.out(&r);
            let got = v3(mk_q(q) * mk_v3(v));
            eq_v::<T, 3>(ctx, &key("mul_vector/formula"), got, formula(lq::<T>(q), lift_v(v)));
            // (rotate_vector of a non-unit quaternion is not fixed by the statement)
        },
    );
}

/// q * invert(q) = one() over magnitudes: unit quaternions, quaternions a hair off unit length, very short and very long
/// ones (powers of two: the scaling is exact in every tier). Anything that treats "nearly zero" as zero, "nearly
/// unit" as unit, or adds an epsilon to |q|^2 is the same code as the original in the exact tier and on inputs of
/// ordinary length
fn invert_magnitudes<T: Tier>(rep: &mut Report) {
    let uq = alphabet::uq(rep.pick(0, 1));
    let nb = 3;
    // (numerator, denominator) of the scale: 2^-40 .. 2^40 and 1 + 2^-k
    let scales: Vec<(i64, i64)> = vec![(1, 1), (1, 1 << 40), (1, 1 << 24), (1, 1 << 12), (1 << 12, 1), (1 << 24, 1), (1 << 40, 1), ((1 << 10) + 1, 1 << 10), ((1 << 20) + 1, 1 << 20), ((1 << 20) - 1, 1 << 20), ((1 << 30) + 1, 1 << 30), ((1 << 30) - 1, 1 << 30), ((1 << 15) + 1, 1 << 15), (1, 100), (3, 1000)];
    let n = uq.len() + nb;
    rep.cases(
        "invert/magnitudes",
        T::NAME,
        &format!("({} rational unit quaternions + {nb} generic ones) x scales {{1, 2^+-12, 2^+-24, 2^+-40, 1 +- 2^-30, 1 +- 2^-20, 1 + 2^-15, 1 + 2^-10, 1/100, 3/1000}}", uq.len()),
        n * scales.len(),
        Guard::states(50).distinct(50),
        |i, ctx| {
            let (qi, si) = (i / scales.len(), i % scales.len());
            let sc = T::q(scales[si].0, scales[si].1);
            let base: Q4<T> = if qi < uq.len() { let (v, d) = uq[qi]; std::array::from_fn(|j| T::q(v[j], d)) } else { vec_from_r(&alphabet::generic(4, qi - uq.len())) };
            let q: Q4<T> = base.map(|x| x * sc);
            ctx.describe(|| format!("q={:?} (w,x,y,z) = {:?} * {}/{}", q, base, scales[si].0, scales[si].1));
            ctx.out(&(qi, si));
            let (cq, mq) = (mk_q(q), lq::<T>(q));
            let inv = Rotation::invert(&cq);
            let minv = model::qinv(mq);
            eq_v::<T, 4>(ctx, &key("invert/magnitudes"), qa(inv), minv);
            let one = model::qone::<T::M>();
            let r1 = model::qmul(mq, minv);
            let r2 = model::qmul(minv, mq);
            let e1: Q4<T::M> = std::array::from_fn(|j| one[j].with_err_of(r1[j]));
            let e2: Q4<T::M> = std::array::from_fn(|j| one[j].with_err_of(r2[j]));
            eq_v::<T, 4>(ctx, &key("invert/magnitudes/right-identity"), qa(cq * inv), e1);
            eq_v::<T, 4>(ctx, &key("invert/magnitudes/left-identity"), qa(inv * cq), e2);
            // and the action of a non-unit quaternion is still the formula, of its inverse the inverse formula's
            let v: [T; 3] = vec_from_r(&alphabet::generic(3, 1));
            // (normwise: an algebraically equal form - (1 - 2|qv|^2) v + 2 (qv.v) qv + 2 s qv x v - cancels terms of size
            // |q|^2 |v| in a component where this formula has structural zeros)
            let floor = 4.0 * (1.0 + mq.iter().map(|x| x.approx() * x.approx()).sum::<f64>()) * v.iter().map(|x| x.f() * x.f()).sum::<f64>().sqrt();
            let want = formula(mq, lift_v(v)).map(|x| x.with_abs_err(floor));
            eq_v::<T, 3>(ctx, &key("mul_vector/formula/magnitudes"), v3(cq * mk_v3(v)), want);
        },
    );
}

/// float tiers: quaternions that are *almost* real, almost one(), almost zero or almost equal to the other operand - the
/// shapes a fast path would test for, and the approximate `is_zero` / `ulps_eq` the library offers for testing them
fn nearly_special<T: Tier + Dom<M = Sh>>(rep: &mut Report) {
    let ds = [0.0, T::U / 64.0, 2f64.powi(-30), 2f64.powi(-22)];
    rep.cases(
        "nearly-special",
        T::NAME,
        "q nearly {one, real (2.5), zero, equal to p, pure (w ~ 0)} x {exactly, below the scalar epsilon, by 2^-30, by 2^-22} against a generic p: p*q, q*p, q*q, p+q, p-q, q*v, invert(q), conjugate, magnitude2, dot",
        5 * ds.len(),
        Guard::states(20).distinct(20),
        |i, ctx| {
            let (shape, d) = (i / ds.len(), ds[i % ds.len()]);
            let c = |x: f64| num_traits::cast::<f64, T>(x).unwrap();
            let p: Q4<T> = vec_from_r(&alphabet::generic(4, 1));
            let h: Q4<T> = vec_from_r(&alphabet::generic(4, 2));
            let off: Q4<T> = std::array::from_fn(|j| c(d * h[j].f() / 8.0));
            let q: Q4<T> = match shape {
                0 => [T::one() + off[0], off[1], off[2], off[3]],
                1 => [c(2.5), off[1], off[2], off[3]],
                2 => off,
                3 => std::array::from_fn(|j| c(p[j].f() * (1.0 + d * (j + 1) as f64))),
                _ => [off[0], h[1], h[2], h[3]],
            };
            // every second variant of the first three shapes: p nearly real as well (two small rotations composed)
            let p: Q4<T> = if shape < 2 && (i % ds.len()) % 2 == 1 { [c(1.5), c(-d * h[2].f() / 8.0), c(d * h[3].f() / 8.0), c(d * h[1].f() / 16.0)] } else { p };
            ctx.describe(|| format!("shape {} variant {}: p={:?} q={:?} (w,x,y,z)", ["one", "real", "zero", "equal", "pure"][shape], i % ds.len(), p, q));
            ctx.out(&i);
            let (cp, cq, mp, mq) = (mk_q(p), mk_q(q), lq::<T>(p), lq::<T>(q));
            eq_v::<T, 4>(ctx, &key("nearly-special/p*q"), qa(cp * cq), model::qmul(mp, mq));
            eq_v::<T, 4>(ctx, &key("nearly-special/q*p"), qa(cq * cp), model::qmul(mq, mp));
            eq_v::<T, 4>(ctx, &key("nearly-special/q*q"), qa(cq * cq), model::qmul(mq, mq));
            eq_v::<T, 4>(ctx, &key("nearly-special/p+q"), qa(cp + cq), model::vadd(mp, mq));
            eq_v::<T, 4>(ctx, &key("nearly-special/p-q"), qa(cp - cq), model::vsub(mp, mq));
            eq_v::<T, 4>(ctx, &key("nearly-special/conjugate"), qa(cq.conjugate()), model::qconj(mq));
            eq_s::<T>(ctx, &key("nearly-special/magnitude2"), cq.magnitude2(), model::qnorm2(mq));
            eq_s::<T>(ctx, &key("nearly-special/dot"), cp.dot(cq), model::vdot(mp, mq));
            let v: [T; 3] = vec_from_r(&alphabet::generic(3, 1));
            eq_v::<T, 3>(ctx, &key("nearly-special/q*v"), v3(cq * mk_v3(v)), formula(mq, lift_v(v)));
            // (zero, exactly or nearly: |q|^2 underflows or is far below the inputs' rounding - 8.5)
            if shape != 2 {
                eq_v::<T, 4>(ctx, &key("nearly-special/invert"), qa(Rotation::invert(&cq)), model::qinv(mq));
            }
        },
    );
}
fn all<T: Tier>(rep: &mut Report) {
    algebra::<T>(rep);
    action::<T>(rep);
    invert_magnitudes::<T>(rep);
}

fn main() {
    let mut rep = Report::from_args(P);
    rep.assume("the Hamilton product is bilinear and its associator trilinear: signed basis pairs/triples decide them for all inputs for implementations of that degree profile (DESIGN 2.6)");
    rep.assume("float tiers: rational unit quaternions are rounded to the float type first; the unit-length clauses carry the resulting defect | |q|^2 - 1 | in their tolerance");
    all::<Ex>(&mut rep);
    all::<f64>(&mut rep);
    all::<f32>(&mut rep);
    nearly_special::<f64>(&mut rep);
    nearly_special::<f32>(&mut rep);
    std::process::exit(rep.finish());
}
