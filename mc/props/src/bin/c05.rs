//! C05 — Quaternion, Basis3, Matrix3 and Matrix4 describe one and the same rotation.
use cgmath::{Rotation, SquareMatrix};
use mc_props::*;

const P: &str = "C05";
fn key(s: &str) -> String {
    format!("{P}/{s}")
}
type Q4<F> = [F; 4];

fn probes<T: Tier>() -> Vec<[T; 3]> {
    let mut v: Vec<[T; 3]> = (0..3).map(|i| vec_from_r::<T, 3>(&alphabet::generic(3, i))).collect();
    v.push([T::one(), T::zero(), T::zero()]);
    v.push([T::zero(), T::one(), T::zero()]);
    v.push([T::zero(), T::zero(), T::one()]);
    // long vectors (far points): with the small rotations of the ladders, the second factor of a "small angle and
    // large vector" short cut
    for (i, k) in [(0usize, 11i64), (1, 16), (2, 22)] {
        v.push(vec_from_r::<T, 3>(&alphabet::generic(3, i).iter().map(|r| (r.0 << k, r.1)).collect::<Vec<_>>()));
    }
    v
}

/// which of the four cases of the matrix-to-quaternion conversion applies, decided on the
/// exact rotation matrix of the rational quaternion
fn branch_of(q: ([i64; 4], i64)) -> &'static str {
    let e: Q4<Ex> = std::array::from_fn(|j| Ex::q(q.0[j], q.1));
    let m = model::qmat(e);
    let tr = model::mtrace(m);
    if tr >= Ex::ZERO {
        "trace>=0"
    } else if m[0][0] > m[1][1] && m[0][0] > m[2][2] {
        "m00-largest"
    } else if m[1][1] > m[2][2] {
        "m11-largest"
    } else {
        "m22-largest"
    }
}

/// slack for clauses that assume |q| = 1 when q is only unit up to rounding
fn unit_slack<T: Tier>(mq: Q4<T::M>) -> f64 {
    if T::EXACT {
        1.0
    } else {
        let defect = (model::qnorm2(mq).approx() - 1.0).abs();
        1.0 + 8.0 * defect / (T::U * K_TOL)
    }
}

/// all conversion clauses for one unit quaternion
fn judge<T: Tier>(ctx: &mut Ctx, q: Q4<T>, exact_branch: Option<&'static str>) {
    let mq: Q4<T::M> = lift_v(q);
    let cq = mk_q(q);
    let slack = unit_slack::<T>(mq);
    ctx.out(&q.map(|x| x.key()));
    let mm = model::qmat(mq);
    // forward conversions
    let m3c: Matrix3<T> = cq.into();
    let m4c: Matrix4<T> = cq.into();
    let b3: Basis3<T> = cq.into();
    let b3b = Basis3::from_quaternion(&cq);
    eq_mc::<T, 3>(ctx, &key("Matrix3::from(q)"), m3(m3c), mm, slack);
    eq_mc::<T, 4>(ctx, &key("Matrix4::from(q)"), m4(m4c), model::embed::<_, 3, 4>(mm), slack);
    eq_mc::<T, 3>(ctx, &key("Basis3::from(q)"), basis3_arr(b3), mm, slack);
    // two routes to the same value: the same numbers over a field, the same up to rounding in floating point
    if T::EXACT {
        same_slice(ctx, &key("Basis3::from_quaternion"), &flat_m(basis3_arr(b3b)), &flat_m(basis3_arr(b3)));
        same_slice(ctx, &key("Matrix4-embeds-Matrix3"), &flat_m(m4(m4c)), &flat_m(m4(Matrix4::from(m3c))));
    } else {
        eq_mc::<T, 3>(ctx, &key("Basis3::from_quaternion"), basis3_arr(b3b), mm, slack);
        eq_mc::<T, 4>(ctx, &key("Matrix4-embeds-Matrix3"), m4(Matrix4::from(m3c)), model::embed::<_, 3, 4>(mm), slack);
    }
    // Basis3 -> Matrix3 through the public conversion (the harness otherwise reads a Basis3 through AsRef)
    same_slice(ctx, &key("Matrix3::from(Basis3)"), &flat_m(m3(Matrix3::from(b3))), &flat_m(basis3_arr(b3)));
    // orthonormal, determinant +1
    let mt = model::mmul(model::mtranspose(mm), mm);
    let id = model::mident::<T::M, 3>();
    let idm: [[T::M; 3]; 3] = std::array::from_fn(|c| std::array::from_fn(|r| id[c][r].with_err_of(mt[c][r])));
    eq_mc::<T, 3>(ctx, &key("orthonormal"), m3(m3c.transpose() * m3c), idm, slack);
    eq_slice::<T>(ctx, &key("determinant+1"), &[m3c.determinant()], &[T::M::one().with_err_of(model::mdet(mm))], slack);
    // the same rotation on vectors through all four representations
    for v in probes::<T>() {
        let cv = mk_v3(v);
        let want = model::qsandwich(mq, lift_v(v));
        eq_vc::<T, 3>(ctx, &key("rotate/Quaternion"), v3(cq.rotate_vector(cv)), want, slack);
        eq_vc::<T, 3>(ctx, &key("rotate/Basis3"), v3(b3.rotate_vector(cv)), want, slack);
        eq_vc::<T, 3>(ctx, &key("rotate/Matrix3"), v3(m3c * cv), want, slack);
        let h = m4c * cv.extend(T::zero());
        eq_vc::<T, 4>(ctx, &key("rotate/Matrix4-direction"), v4(h), model::extend::<_, 3, 4>(want, T::M::zero()), slack);
        // ... and through the Transform entry point for directions
        eq_vc::<T, 3>(ctx, &key("rotate/Matrix4-transform_vector"), v3(<Matrix4<T> as cgmath::Transform<Point3<T>>>::transform_vector(&m4c, cv)), want, slack);
        eq_vc::<T, 3>(ctx, &key("rotate/Matrix3-transform_vector"), v3(<Matrix3<T> as cgmath::Transform<Point3<T>>>::transform_vector(&m3c, cv)), want, slack);
    }
    // back to a quaternion: q or -q
    let classify = |m: Matrix3<T>| -> &'static str {
        let a = m3(m);
        let tr = a[0][0] + a[1][1] + a[2][2];
        if tr >= T::zero() {
            "trace>=0"
        } else if a[0][0] > a[1][1] && a[0][0] > a[2][2] {
            "m00-largest"
        } else if a[1][1] > a[2][2] {
            "m11-largest"
        } else {
            "m22-largest"
        }
    };
    let br = exact_branch.unwrap_or_else(|| classify(m3c));
    ctx.branch(br);
    for (name, r) in [("Quaternion::from(Matrix3)", Quaternion::from(m3c)), ("Quaternion::from(Basis3)", Quaternion::from(b3))] {
        let ra = qa(r);
        ctx.t();
        // the error of the computed quaternion is absolute, of the size of a few roundings of |q| = 1
        let same = (0..4).all(|j| ra[j].close(mq[j].with_abs_err(1.0), slack * 8.0));
        let neg = (0..4).all(|j| ra[j].close((-mq[j]).with_abs_err(1.0), slack * 8.0));
        if !(same || neg) {
            ctx.fail(&key(&format!("{name}/{br}")), || format!("{name} = {:?}, expected +-{:?}", ra, q));
        }
        ctx.out(&ra.map(|x| x.key()));
    }
}

fn convert<T: Tier>(rep: &mut Report) {
    let mut uq = alphabet::uq(1);
    // unit quaternions with one tiny and one dominant component, (1, 2k, 2k^2, 0)/(2k^2 + 1) in every arrangement: the
    // pivots of the matrix -> quaternion branches differ by orders of magnitude, and a diagonal element is within 1e-4 of +-1
    // ... and (4^j - 1, 2^(j+1), 0, 0)/(4^j + 1): within 2^-j of +-1 in one component, 2^(1-j) in another, down to rotations
    // (or deviations from a half turn) of 1e-9 - the inputs on which "nearly the identity" or "w is nearly 0" short cuts act
    let mut tuples: Vec<([i64; 4], i64)> = [3i64, 10, 50].iter().map(|&k| ([1, 2 * k, 2 * k * k, 0], 2 * k * k + 1)).collect();
    for j in if T::EXACT { vec![6u32, 10, 14] } else { (2u32..=28).step_by(2).collect() } {
        tuples.push(([(1i64 << (2 * j)) - 1, 1i64 << (j + 1), 0, 0], (1i64 << (2 * j)) + 1));
    }
    for (t, d) in tuples {
        let mut idx = [0usize, 1, 2, 3];
        // all 24 arrangements (Heap's algorithm, iterative)
        let mut c = [0usize; 4];
        let mut perms = vec![idx];
        let mut i = 0;
        while i < 4 {
            if c[i] < i {
                if i % 2 == 0 { idx.swap(0, i) } else { idx.swap(c[i], i) }
                perms.push(idx);
                c[i] += 1;
                i = 0;
            } else {
                c[i] = 0;
                i += 1;
            }
        }
        for (n, p) in perms.iter().enumerate() {
            let sg = |j: usize| if (n >> j) & 1 == 1 { -1 } else { 1 };
            uq.push(([sg(0) * t[p[0]], sg(1) * t[p[1]], sg(2) * t[p[2]], sg(3) * t[p[3]]], d));
        }
    }
    rep.cases(
        "convert",
        T::NAME,
        &format!("{} rational unit quaternions (all sign/permutation variants of 11 four-square tuples{}) x 6 probe vectors", uq.len(), if rep.quick() { ", thinned" } else { "" }),
        uq.len(),
        Guard::states(50).distinct(50).need("trace>=0", 5).need("m00-largest", 5).need("m11-largest", 5).need("m22-largest", 5),
        |i, ctx| {
            let (qn, qd) = uq[i];
            let q: Q4<T> = std::array::from_fn(|j| T::q(qn[j], qd));
            ctx.describe(|| format!("q = {:?}/{} (w,x,y,z)", qn, qd));
            judge::<T>(ctx, q, Some(branch_of(uq[i])));
        },
    );
}

/// group closure: products, inverses and matrix round trips from generators
fn group<T: Tier>(rep: &mut Report) {
    let depth = rep.pick(3, 5);
    let all = alphabet::uq(0);
    let gens: Vec<Q4<T>> = all.iter().filter(|(_, d)| *d != 1).step_by(all.len() / 6).take(6).map(|(q, d)| std::array::from_fn(|j| T::q(q[j], *d))).collect();
    let ng = gens.len();
    // state: quaternion, canonical sign (first non-zero component positive) so that q == -q
    let canon = |q: Q4<T>| -> St<T> {
        let neg = q.iter().find(|x| !x.is_zero()).map_or(false, |x| *x < T::zero());
        St(if neg { q.iter().map(|x| -*x).collect() } else { q.to_vec() })
    };
    let inits: Vec<St<T>> = gens.iter().map(|g| canon(*g)).collect();
    let g2 = gens.clone();
    rep.bfs(
        "group",
        T::NAME,
        &format!("register q (modulo sign); {ng} generators; actions g*q, q*g, invert, Quaternion::from(Matrix3::from(q)); depth {depth}"),
        inits,
        2 * ng + 2,
        depth,
        Guard::states(100).inconclusive(0.02),
        move |st, act, ctx| {
            let q: Q4<T> = st.vec(0);
            let mq: Q4<T::M> = lift_v(q);
            let cq = mk_q(q);
            let next = if act < ng {
                let g = gens[act];
                let r = qa(mk_q(g) * cq);
                eq_v::<T, 4>(ctx, &key("group/mul"), r, model::qmul(lift_v(g), mq));
                r
            } else if act < 2 * ng {
                let g = gens[act - ng];
                let r = qa(cq * mk_q(g));
                eq_v::<T, 4>(ctx, &key("group/mul"), r, model::qmul(mq, lift_v(g)));
                r
            } else if act == 2 * ng {
                let r = qa(Rotation::invert(&cq));
                eq_v::<T, 4>(ctx, &key("group/invert"), r, model::qinv(mq));
                r
            } else {
                let m: Matrix3<T> = cq.into();
                ctx.t();
                qa(Quaternion::from(m))
            };
            if ctx.failed() {
                return None;
            }
            if !T::EXACT {
                // float tiers: keep the state on the unit sphere (drift is judged by the invariant's slack)
                let n2: f64 = next.iter().map(|x| x.f() * x.f()).sum();
                if (n2 - 1.0).abs() > 1e-3 {
                    return None;
                }
            }
            Some(canon(next))
        },
        move |st, ctx| {
            let q: Q4<T> = st.vec(0);
            judge::<T>(ctx, q, None);
            // conversion respects composition, for Matrix3 and Basis3
            let g = g2[0];
            let (cq, cg) = (mk_q(q), mk_q(g));
            let (mq, mg): (Q4<T::M>, Q4<T::M>) = (lift_v(q), lift_v(g));
            let slack = unit_slack::<T>(mq) + unit_slack::<T>(mg);
            let prod_m = model::mmul(model::qmat(mq), model::qmat(mg));
            let of_prod = model::qmat(model::qmul(mq, mg));
            let l: Matrix3<T> = (cq * cg).into();
            let r: Matrix3<T> = Matrix3::from(cq) * Matrix3::from(cg);
            eq_mc::<T, 3>(ctx, &key("composition/Matrix3"), m3(l), of_prod, slack);
            eq_mc::<T, 3>(ctx, &key("composition/Matrix3"), m3(r), prod_m, slack);
            let lb: Basis3<T> = (cq * cg).into();
            let rb: Basis3<T> = Basis3::from(cq) * Basis3::from(cg);
            eq_mc::<T, 3>(ctx, &key("composition/Basis3"), basis3_arr(lb), of_prod, slack);
            eq_mc::<T, 3>(ctx, &key("composition/Basis3"), basis3_arr(rb), prod_m, slack);
            // ... composed through the other spellings of a product: by reference, and as an iterator product of values
            // and of references
            let (bq, bg) = (Basis3::from(cq), Basis3::from(cg));
            eq_mc::<T, 3>(ctx, &key("composition/Basis3/by-reference"), basis3_arr(&bq * &bg), prod_m, slack);
            eq_mc::<T, 3>(ctx, &key("composition/Basis3/iter-product"), basis3_arr([bq, bg].iter().copied().product::<Basis3<T>>()), prod_m, slack);
            eq_mc::<T, 3>(ctx, &key("composition/Basis3/iter-product-refs"), basis3_arr([bq, bg].iter().product::<Basis3<T>>()), prod_m, slack);
            eq_mc::<T, 3>(ctx, &key("composition/Matrix3/iter-product-refs"), m3([Matrix3::from(cq), Matrix3::from(cg)].iter().product::<Matrix3<T>>()), prod_m, slack);
            eq_v::<T, 4>(ctx, &key("composition/Quaternion/iter-product-refs"), qa([cq, cg].iter().product::<Quaternion<T>>()), model::qmul(mq, mg));
            // ... and for Matrix4 (both orders of the two factors)
            let l4: Matrix4<T> = (cq * cg).into();
            let r4: Matrix4<T> = Matrix4::from(cq) * Matrix4::from(cg);
            eq_mc::<T, 4>(ctx, &key("composition/Matrix4"), m4(l4), model::embed::<_, 3, 4>(of_prod), slack);
            eq_mc::<T, 4>(ctx, &key("composition/Matrix4"), m4(r4), model::embed::<_, 3, 4>(prod_m), slack);
            let of_prod_r = model::qmat(model::qmul(mg, mq));
            let lr: Matrix3<T> = (cg * cq).into();
            let rr: Matrix3<T> = Matrix3::from(cg) * Matrix3::from(cq);
            eq_mc::<T, 3>(ctx, &key("composition/Matrix3"), m3(lr), of_prod_r, slack);
            eq_mc::<T, 3>(ctx, &key("composition/Matrix3"), m3(rr), model::mmul(model::qmat(mg), model::qmat(mq)), slack);
            if T::EXACT {
                same_slice(ctx, &key("composition/Matrix4"), &flat_m(m4(l4)), &flat_m(m4(r4)));
                same_slice(ctx, &key("composition/Matrix3"), &flat_m(m3(l)), &flat_m(m3(r)));
                same_slice(ctx, &key("composition/Basis3"), &flat_m(basis3_arr(lb)), &flat_m(basis3_arr(rb)));
            }
        },
        |st| format!("q={:?}", st.0),
    );
}

fn all<T: Tier>(rep: &mut Report) {
    convert::<T>(rep);
    group::<T>(rep);
}

fn main() {
    let mut rep = Report::from_args(P);
    rep.assume("rational unit quaternions make 1 + trace = 4w^2 etc. perfect squares, so every square root in the matrix-to-quaternion conversion is exact in tier X and its branch is decided exactly");
    rep.assume("float tiers: unit quaternions rounded to the float type; clauses that assume |q| = 1 carry the unit defect in their tolerance");
    set_lattice(None);
    all::<Ex>(&mut rep);
    all::<f64>(&mut rep);
    all::<f32>(&mut rep);
    std::process::exit(rep.finish());
}
