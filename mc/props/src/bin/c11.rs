//! C11 — magnitude, distance, normalisation, angle, projection.
use cgmath::{InnerSpace, MetricSpace};
use mc_props::*;
use std::f64::consts::PI;
use std::ops::*;

const P: &str = "C11";
/// exact tier: angles are lattice codes; a result that is not a code (an implementation that wraps or reflects with pi
/// or a full turn, which are radian numbers) cannot be expressed there - inconclusive, the float tiers judge it
fn code(a: Ex) -> Ex {
    if !a.is_integer() {
        ex::domain_exit("angle is not a lattice code");
    }
    a
}
/// float tiers: what a rounding of the cosine may do to an angle (eps / sin(angle), at the ends of the range sqrt(2 eps));
/// granted to the 2-D signed angle as it is to the n-D one - the statement gives neither a better accuracy
fn acos_room<T: Tier>(reference: f64) -> f64 {
    let eps = K_TOL * T::U * 16.0;
    (eps / reference.sin().abs().max(1e-300)).min((2.0 * eps).sqrt() * 2.0) + eps
}
fn key(s: &str) -> String {
    format!("{P}/{s}")
}

/// inner-product types of the statement: Vector1..4 and Quaternion
trait Inner<T: Tier, const N: usize>:
    Copy + std::fmt::Debug + InnerSpace<Scalar = T> + MetricSpace<Metric = T> + Neg<Output = Self> + Send + Sync
{
    const NAME: &'static str;
    fn mk(a: [T; N]) -> Self;
    fn arr(self) -> [T; N];
}
macro_rules! inner {
    ($V:ident, $n:expr, $mk:ident, $arr:ident) => {
        impl<T: Tier> Inner<T, $n> for $V<T> {
            const NAME: &'static str = stringify!($V);
            fn mk(a: [T; $n]) -> Self {
                $mk(a)
            }
            fn arr(self) -> [T; $n] {
                $arr(self)
            }
        }
    };
}
inner!(Vector1, 1, mk_v1, v1);
inner!(Vector2, 2, mk_v2, v2);
inner!(Vector3, 3, mk_v3, v3);
inner!(Vector4, 4, mk_v4, v4);
inner!(Quaternion, 4, mk_q, qa);

/// integer vectors with rational (integer) length, per dimension
fn pythagorean(n: usize) -> Vec<Vec<i64>> {
    match n {
        1 => vec![vec![1], vec![-3]],
        2 => alphabet::uv2().into_iter().map(|(v, _)| v.to_vec()).collect(),
        3 => alphabet::uv3(false).into_iter().map(|(v, _)| v.to_vec()).collect(),
        _ => alphabet::uq(0).into_iter().map(|(v, _)| v.to_vec()).collect(),
    }
}

/// exact tier: vectors of rational length
fn exact<V: Inner<Ex, N>, const N: usize>(rep: &mut Report) {
    type T = Ex;
    let py = pythagorean(N);
    // the last two stand for (1 + 2^-20)/L and (1 - 2^-20)/L, L the direction's integer length: vectors a hair off unit
    // length (what an "already normalised" short cut would take for unit vectors)
    let scales: [R; 7] = [(-2, 1), (-1, 1), (1, 1), (2, 1), (1, 2), (0, 1), (0, -1)];
    let gen: Vec<[T; N]> = (0..3).map(|v| vec_from_r::<T, N>(&alphabet::generic(N, v))).collect();
    let mags: [R; 4] = [(1, 1), (3, 1), (-2, 1), (1, 2)];
    let total = py.len() * scales.len() * py.len();
    rep.cases(
        &format!("exact/{}", V::NAME),
        "X",
        &format!("{} Pythagorean directions x 7 scales (+-2, +-1, 1/2, and (1 +- 2^-20)/length) x {} second directions; 3 generic offsets; 4 target magnitudes", py.len(), py.len()),
        total,
        Guard::states(2).distinct(2),
        |i, ctx| {
            let (ui, rest) = (i / (scales.len() * py.len()), i % (scales.len() * py.len()));
            let (si, vi) = (rest / py.len(), rest % py.len());
            let s: T = if scales[si].0 == 0 {
                let l2: i64 = py[ui].iter().map(|x| x * x).sum();
                let l = (l2 as f64).sqrt().round() as i64;
                assert_eq!(l * l, l2, "harness: Pythagorean direction with non-integer length");
                T::q((1 << 20) + scales[si].1, (1 << 20) * l)
            } else {
                rq(scales[si])
            };
            let u: [T; N] = std::array::from_fn(|j| T::int(py[ui][j]) * s);
            let v: [T; N] = std::array::from_fn(|j| T::int(py[vi][j]));
            ctx.describe(|| format!("{} u={:?} v={:?}", V::NAME, u, v));
            ctx.out(&(ui, si, vi));
            let (cu, cv) = (V::mk(u), V::mk(v));
            let (mu, mv) = (u, v);
            // magnitude^2 = magnitude2 >= 0
            let m2 = cu.magnitude2();
            let m = cu.magnitude();
            same_slice(ctx, &key("magnitude2"), &[m2], &[model::vdot(mu, mu)]);
            same_slice(ctx, &key("magnitude/squared"), &[m * m], &[m2]);
            ctx.check(m >= T::int(0) && m2 >= T::int(0), &key("magnitude/non-negative"), || format!("magnitude {:?}", m));
            // normalize: unit length, positive multiple
            let nu = cu.normalize();
            same_slice(ctx, &key("normalize/unit"), &[nu.magnitude2()], &[T::int(1)]);
            same_slice(ctx, &key("normalize/positive-multiple"), &model::vscale(nu.arr(), m), &u);
            for mg in mags {
                let mg: T = rq(mg);
                let r = cu.normalize_to(mg);
                same_slice(ctx, &key("normalize_to/length"), &[r.magnitude2()], &[mg * mg]);
                // a positive multiple of v is stated for m > 0 only; for m < 0 the statement fixes the length |m|
                if mg > T::int(0) {
                    same_slice(ctx, &key("normalize_to/multiple"), &model::vscale(r.arr(), m), &model::vscale(u, mg));
                }
            }
            // distance: u' = w + u, v' = w
            for w in &gen {
                let a = V::mk(model::vadd(*w, u));
                let b = V::mk(*w);
                let d = a.distance(b);
                same_slice(ctx, &key("distance"), &[d], &[m]);
                same_slice(ctx, &key("distance/symmetric"), &[b.distance(a)], &[d]);
                same_slice(ctx, &key("distance2"), &[a.distance2(b)], &[m2]);
                same_slice(ctx, &key("distance2/symmetric"), &[b.distance2(a)], &[m2]);
            }
            // projection of u on v: parallel to v, residual orthogonal to v
            let p = cu.project_on(cv);
            let t = model::vdot(mu, mv) / model::vdot(mv, mv);
            same_slice(ctx, &key("project_on"), &p.arr(), &model::vscale(mv, t));
            let resid = model::vsub(u, p.arr());
            same_slice(ctx, &key("project_on/residual-orthogonal"), &[model::vdot(resid, mv)], &[T::int(0)]);
        },
    );
}

/// exact tier, 2-D / 3-D / 4-D angle on the lattice
fn exact_angle(rep: &mut Report) {
    type T = Ex;
    for li in 0..3 {
        let lat = &ex::lattices()[li];
        let reach = lat.reach().min(8);
        let ks: Vec<i64> = (-reach..=reach).collect();
        let axes = alphabet::uv3(false);
        let total = ks.len() * axes.len();
        set_lattice(Some(li));
        rep.cases(
            &format!("exact-angle/t={}/{}", lat.p, lat.q),
            "X",
            &format!("lattice codes {}..{} x {} rational axes, scales 2 and 1/2; Vector2 (signed), Vector3, Vector4, Quaternion", -reach, reach, axes.len()),
            total,
            // an angle computed another correct way (half-angle formulas) may leave the rational field: inconclusive, not wrong
            Guard::states(50).distinct(20).inconclusive(0.9),
            |i, ctx| {
                let (k, ai) = (ks[i / axes.len()], i % axes.len());
                let (an, ad) = axes[ai];
                let ax: [T; 3] = std::array::from_fn(|j| T::q(an[j], ad));
                let (c, s) = ex::lattice_cs(k);
                let ang = k as f64 * lat.delta;
                ctx.describe(|| format!("code k={k} (angle {:.4} rad) axis={:?}", ang, ax));
                ctx.out(&(k, ai));
                let (r1, r2) = (T::int(2), T::q(1, 2));
                // 2-D: signed counter-clockwise angle from u to v
                if ang.abs() < PI {
                    let u = mk_v2([r1, T::int(0)]);
                    let v = mk_v2([c * r2, s * r2]);
                    same_slice(ctx, &key("angle/Vector2/signed-ccw"), &[code(u.angle(v).0)], &[T::int(k)]);
                    same_slice(ctx, &key("angle/Vector2/signed-ccw"), &[code(v.angle(u).0)], &[T::int(-k)]);
                }
                // 3-D: u perpendicular to the axis, v = u rotated about the axis by k*delta
                let helper = if an[0] == 0 && an[1] == 0 { [T::int(1), T::int(0), T::int(0)] } else { [T::int(0), T::int(0), T::int(1)] };
                let perp = model::cross(ax, helper);
                let n2 = model::vdot(perp, perp);
                if let Some(len) = n2.sqrt_exact() {
                    let u0 = model::vdiv(perp, len);
                    let v0 = model::rodrigues(ax, (c, s), u0);
                    let (u, v) = (mk_v3(model::vscale(u0, r1)), mk_v3(model::vscale(v0, r2)));
                    let want = if ang.abs() <= PI { T::int(k.abs()) } else { T::int(0) };
                    if ang.abs() <= PI {
                        ctx.branch("angle3");
                        same_slice(ctx, &key("angle/Vector3"), &[code(u.angle(v).0)], &[want]);
                        same_slice(ctx, &key("angle/Vector3/symmetric"), &[code(v.angle(u).0)], &[want]);
                    }
                }
                // 4-D and quaternion: u = r1 e_0, v = r2 (cos, sin * axis)
                if ang.abs() <= PI {
                    let want = T::int(k.abs());
                    let u4 = [r1, T::int(0), T::int(0), T::int(0)];
                    let v4a = [c * r2, s * r2 * ax[0], s * r2 * ax[1], s * r2 * ax[2]];
                    same_slice(ctx, &key("angle/Vector4"), &[code(mk_v4(u4).angle(mk_v4(v4a)).0)], &[want]);
                    same_slice(ctx, &key("angle/Vector4/symmetric"), &[code(mk_v4(v4a).angle(mk_v4(u4)).0)], &[want]);
                    same_slice(ctx, &key("angle/Quaternion"), &[code(mk_q(u4).angle(mk_q(v4a)).0)], &[want]);
                    same_slice(ctx, &key("angle/Quaternion/symmetric"), &[code(mk_q(v4a).angle(mk_q(u4)).0)], &[want]);
                    if s == T::int(0) || true {
                        let u1 = mk_v1([r1]);
                        let v1a = mk_v1([if k == 0 { r2 } else { r2 }]);
                        if k == 0 {
                            same_slice(ctx, &key("angle/Vector1"), &[code(u1.angle(v1a).0)], &[T::int(0)]);
                        }
                    }
                }
            },
        );
        set_lattice(None);
    }
}

fn sq(x: Sh) -> Sh {
    x * x
}

/// float tiers: integer grids (irrational lengths), incl. parallel and antiparallel pairs
fn grid<T: Tier + Dom<M = Sh>, V: Inner<T, N>, const N: usize>(rep: &mut Report, signed_angle: bool) {
    let r: i64 = if rep.quick() { if N >= 3 { 2 } else { 3 } } else { 3 };
    let side = (2 * r + 1) as usize;
    let dims: Vec<usize> = vec![side; 2 * N];
    // the last scale makes every vector shorter than the type's machine epsilon (but far from underflow)
    let tiny = if T::NAME == "F" { 2f64.powi(-30) } else { 2f64.powi(-70) };
    // ... and a ladder down to / up to lengths whose fourth powers are still normal numbers (Vector3::angle squares a
    // cross product): a cut-off "below this length a vector counts as zero" placed anywhere on it shows
    let (deep, huge) = if T::NAME == "F" { (2f64.powi(-30), 2f64.powi(28)) } else { (2f64.powi(-250), 2f64.powi(240)) };
    let scales: Vec<f64> = if rep.quick() { vec![1.0, tiny, deep, huge] } else { vec![1.0, 1e-3, 1e3, tiny, 2f64.powi(-20), if T::NAME == "F" { 2f64.powi(-25) } else { 2f64.powi(-45) }, deep, huge, huge.sqrt()] };
    let scales: Vec<f64> = scales.iter().enumerate().filter(|(i, x)| scales[..*i].iter().all(|y| y != *x)).map(|(_, x)| *x).collect();
    let n1 = alphabet::product_len(&dims);
    rep.cases(
        &format!("grid/{}", V::NAME),
        T::NAME,
        &format!("all pairs (u,v) over {{-{r}..{r}}}^{N} x scales {:?}", scales),
        n1 * scales.len(),
        Guard::states(40).distinct(10).need("parallel", 1).need("antiparallel", 1),
        |i, ctx| {
            let (gi, sc) = (i % n1, scales[i / n1]);
            let d = alphabet::decode(gi, &dims);
            let ui: Vec<i64> = d[..N].iter().map(|&x| x as i64 - r).collect();
            let vi: Vec<i64> = d[N..].iter().map(|&x| x as i64 - r).collect();
            let u: [T; N] = std::array::from_fn(|j| num_traits::cast::<f64, T>(ui[j] as f64 * sc).unwrap());
            let v: [T; N] = std::array::from_fn(|j| num_traits::cast::<f64, T>(vi[j] as f64 * sc).unwrap());
            ctx.describe(|| format!("{}<{}> u={:?} v={:?}", V::NAME, T::NAME, u, v));
            ctx.out(&(d.clone(), i / n1));
            let (cu, cv) = (V::mk(u), V::mk(v));
            let (mu, mv) = (lift_v(u), lift_v(v));
            let mm2 = model::vdot(mu, mu);
            eq_s::<T>(ctx, &key("magnitude2"), cu.magnitude2(), mm2);
            let mmag = mm2.sqrt();
            eq_s::<T>(ctx, &key("magnitude"), cu.magnitude(), mmag);
            let dmodel = model::vsub(mu, mv);
            let d2 = model::vdot(dmodel, dmodel);
            eq_s::<T>(ctx, &key("distance2"), cu.distance2(cv), d2);
            eq_s::<T>(ctx, &key("distance2/symmetric"), cv.distance2(cu), d2);
            eq_s::<T>(ctx, &key("distance"), cu.distance(cv), d2.sqrt());
            eq_s::<T>(ctx, &key("distance/symmetric"), cv.distance(cu), d2.sqrt());
            let u_zero = ui.iter().all(|&x| x == 0);
            let v_zero = vi.iter().all(|&x| x == 0);
            if !u_zero {
                let nm = model::vdiv(mu, mmag);
                eq_v::<T, N>(ctx, &key("normalize"), cu.normalize().arr(), nm);
                let n = cu.normalize();
                eq_s::<T>(ctx, &key("normalize/unit"), n.magnitude(), Sh::exact(1.0).with_err_of(model::vdot(nm, nm).sqrt()));
                for mg in [3.0f64, -0.5] {
                    let mgt: T = num_traits::cast::<f64, T>(mg).unwrap();
                    let got = cu.normalize_to(mgt);
                    if mg > 0.0 {
                        let exp = model::vscale(mu, Sh::exact(mg) / mmag);
                        eq_v::<T, N>(ctx, &key("normalize_to"), got.arr(), exp);
                    } else {
                        // m < 0: the statement fixes the length |m| only
                        let nm = model::vdiv(mu, mmag);
                        eq_s::<T>(ctx, &key("normalize_to/length"), got.magnitude(), Sh::exact(mg.abs()).with_err_of(model::vdot(nm, nm).sqrt()).with_abs_err(4.0 * mg.abs()));
                    }
                }
            }
            if !v_zero {
                let t = model::vdot(mu, mv) / model::vdot(mv, mv);
                let pm = model::vscale(mv, t);
                let p = cu.project_on(cv);
                eq_v::<T, N>(ctx, &key("project_on"), p.arr(), pm);
                // residual orthogonal to v
                let resid: [Sh; N] = model::vsub(mu, lift_v(p.arr()));
                let dotr = model::vdot(resid, mv);
                ctx.t();
                let tol = K_TOL * T::U * (dotr.e + mm2.sqrt().v * model::vdot(mv, mv).sqrt().v * 8.0);
                if dotr.v.abs() > tol {
                    ctx.fail(&key("project_on/residual-orthogonal"), || format!("(u - project_on(u,v)) . v = {:e} (tolerance {:e})", dotr.v, tol));
                }
            }
            if u_zero || v_zero {
                return; // angle needs non-zero lengths
            }
            // classification of the pair, from the integer grid (exact)
            let dot: i64 = (0..N).map(|j| ui[j] * vi[j]).sum();
            let uu: i64 = ui.iter().map(|x| x * x).sum();
            let vv: i64 = vi.iter().map(|x| x * x).sum();
            let parallel = dot * dot == uu * vv;
            let cls = if parallel && dot > 0 { "parallel" } else if parallel { "antiparallel" } else { "generic" };
            ctx.branch(cls);
            let a = cu.angle(cv).0;
            let af = a.f();
            let mdot = model::vdot(mu, mv);
            let mlen = mm2.sqrt() * model::vdot(mv, mv).sqrt();
            if signed_angle {
                // 2-D: signed counter-clockwise angle from u to v in [-pi, pi]
                ctx.check(af >= -PI - 4.0 * T::U * PI && af <= PI + 4.0 * T::U * PI, &key(&format!("angle/{}/range/{cls}", V::NAME)), || format!("angle = {:?}", a));
                let perp = mu[0] * mv[1] - mu[1] * mv[0];
                let m = Sh::atan2(perp, mdot);
                ctx.t();
                let tol = K_TOL * T::U * (m.e + m.v.abs()) + acos_room::<T>(m.v);
                let diff = (af - m.v).abs();
                let diff = diff.min((diff - 2.0 * PI).abs()); // +pi and -pi are the same direction
                if !(diff <= tol) {
                    ctx.fail(&key(&format!("angle/{}/signed-ccw/{cls}", V::NAME)), || format!("angle = {:?}, counter-clockwise angle from u to v is {:?}", a, m.v));
                }
            } else {
                // |u||v| cos(angle) = u.v, angle in [0, pi], symmetric
                ctx.check(af >= 0.0 && af <= PI + 4.0 * T::U * PI, &key(&format!("angle/{}/range/{cls}", V::NAME)), || format!("angle(u,v) = {:?} is not in [0, pi]", a));
                ctx.t();
                let lhs = mlen.v * af.cos();
                let tol = K_TOL * T::U * (mlen.e + mdot.e + 8.0 * mlen.v);
                if !((lhs - mdot.v).abs() <= tol) {
                    ctx.fail(&key(&format!("angle/{}/cosine-law/{cls}", V::NAME)), || format!("|u||v|cos(angle) = {:e} but u.v = {:e} (angle {:?})", lhs, mdot.v, a));
                }
                let b = cv.angle(cu).0.f();
                ctx.t();
                // symmetry up to the conditioning of acos near 0 and pi
                let sens = 1.0 / af.sin().abs().max(1e-8);
                if !((af - b).abs() <= K_TOL * T::U * 8.0 * sens || (af.is_nan() && b.is_nan())) {
                    ctx.fail(&key(&format!("angle/{}/symmetric/{cls}", V::NAME)), || format!("angle(u,v) = {:?}, angle(v,u) = {:?}", a, b));
                }
                // agreement with the well-conditioned reference atan2(sqrt(|u|^2|v|^2 - (u.v)^2), u.v)
                let cr2 = (sq(mlen) - sq(mdot)).v.max(0.0);
                let reference = cr2.sqrt().atan2(mdot.v);
                ctx.t();
                // an error eps in the cosine moves the angle by eps / sin(angle); at the ends of the range by sqrt(2 eps)
                let eps = K_TOL * T::U * 16.0;
                let tol = (eps / reference.sin().abs().max(1e-300)).min((2.0 * eps).sqrt() * 2.0) + eps;
                if !((af - reference).abs() <= tol) {
                    ctx.fail(&key(&format!("angle/{}/value/{cls}", V::NAME)), || format!("angle = {:?}, reference {:e} (tolerance {:e})", a, reference, tol));
                }
            }
        },
    );
}

/// points: distance only
macro_rules! point_grid {
    ($fname:ident, $Pt:ident, $n:expr, $mk:ident) => {
        fn $fname<T: Tier>(rep: &mut Report) {
            const N: usize = $n;
            let r: i64 = 3;
            let side = (2 * r + 1) as usize;
            let dims: Vec<usize> = vec![side; 2 * N];
            let n1 = alphabet::product_len(&dims);
            rep.cases(
                concat!("grid/", stringify!($Pt)),
                T::NAME,
                &format!("all pairs over {{-3..3}}^{N}, plus a generic offset"),
                n1,
                Guard::states(40).distinct(10),
                |i, ctx| {
                    let d = alphabet::decode(i, &dims);
                    let off: T = T::q(5, 4);
                    let u: [T; N] = std::array::from_fn(|j| T::int(d[j] as i64 - r) + off);
                    let v: [T; N] = std::array::from_fn(|j| T::int(d[N + j] as i64 - r) + off);
                    ctx.describe(|| format!("{}<{}> p={:?} q={:?}", stringify!($Pt), T::NAME, u, v));
                    ctx.out(&d);
                    let (cu, cv) = ($mk(u), $mk(v));
                    let dm = model::vsub(lift_v(u), lift_v(v));
                    let d2 = model::vdot(dm, dm);
                    eq_s::<T>(ctx, &key(concat!(stringify!($Pt), "/distance2")), cu.distance2(cv), d2);
                    eq_s::<T>(ctx, &key(concat!(stringify!($Pt), "/distance2/symmetric")), cv.distance2(cu), d2);
                    if T::EXACT {
                        if let Some(root) = d2.approx().sqrt().fract().eq(&0.0).then(|| d2.sqrt()) {
                            eq_s::<T>(ctx, &key(concat!(stringify!($Pt), "/distance")), cu.distance(cv), root);
                            eq_s::<T>(ctx, &key(concat!(stringify!($Pt), "/distance/symmetric")), cv.distance(cu), root);
                            eq_s::<T>(ctx, &key(concat!(stringify!($Pt), "/distance/magnitude-of-difference")), (cu - cv).magnitude(), root);
                        }
                    } else {
                        eq_s::<T>(ctx, &key(concat!(stringify!($Pt), "/distance")), cu.distance(cv), d2.sqrt());
                        eq_s::<T>(ctx, &key(concat!(stringify!($Pt), "/distance/symmetric")), cv.distance(cu), d2.sqrt());
                        eq_s::<T>(ctx, &key(concat!(stringify!($Pt), "/distance/magnitude-of-difference")), (cu - cv).magnitude(), d2.sqrt());
                    }
                },
            );
        }
    };
}
point_grid!(pts1, Point1, 1, mk_p1);
point_grid!(pts2, Point2, 2, mk_p2);
point_grid!(pts3, Point3, 3, mk_p3);

/// float tiers: nearby operands with non-dyadic components. distance is magnitude(u - v): the difference of nearby
/// numbers is exact, so the result has the accuracy of a sum of squares of *small* numbers; a route through
/// |u|^2 - 2 u.v + |v|^2 cancels instead (wrong by |u|^2/|u-v|^2 roundings), which integer grids cannot show
fn close_sys<T: Tier + Dom<M = Sh>, const N: usize>(
    rep: &mut Report,
    name: &str,
    d2f: impl Fn([T; N], [T; N]) -> T + Sync,
    df: impl Fn([T; N], [T; N]) -> T + Sync,
) {
    let dims: Vec<usize> = vec![3; N];
    let nw = alphabet::product_len(&dims);
    let deltas: Vec<f64> = if T::NAME == "F" { vec![2f64.powi(-6), 2f64.powi(-9), 2f64.powi(-12)] } else { vec![2f64.powi(-8), 2f64.powi(-20), 2f64.powi(-30)] };
    let nb = 3;
    rep.cases(
        &format!("close/{name}"),
        T::NAME,
        &format!("3 generic non-dyadic u x all offsets w in {{-1,0,1}}^{N} x steps {:?}: v = u + step * w (rounded to the scalar type)", deltas),
        nb * nw * deltas.len(),
        Guard::states(6).distinct(6),
        |i, ctx| {
            let (bi, wi, di) = (i / (nw * deltas.len()), (i / deltas.len()) % nw, i % deltas.len());
            let w = alphabet::decode(wi, &dims);
            let base = alphabet::generic(N, bi);
            let u: [T; N] = std::array::from_fn(|j| num_traits::cast::<f64, T>(base[j].0 as f64 / base[j].1 as f64 / 3.0).unwrap());
            let v: [T; N] = std::array::from_fn(|j| num_traits::cast::<f64, T>(u[j].f() + deltas[di] * (w[j] as f64 - 1.0) * 1.1).unwrap());
            ctx.describe(|| format!("{name}<{}> u={:?} v={:?}", T::NAME, u, v));
            ctx.out(&(bi, wi, di));
            let dm = model::vsub(lift_v(u), lift_v(v));
            let d2 = model::vdot(dm, dm);
            eq_s::<T>(ctx, &key(&format!("{name}/distance2/nearby")), d2f(u, v), d2);
            eq_s::<T>(ctx, &key(&format!("{name}/distance2/nearby")), d2f(v, u), d2);
            eq_s::<T>(ctx, &key(&format!("{name}/distance/nearby")), df(u, v), d2.sqrt());
            eq_s::<T>(ctx, &key(&format!("{name}/distance/nearby")), df(v, u), d2.sqrt());
        },
    );
}
/// 2-D signed angles next to 0 and next to +-pi (non-dyadic components), judged with the room an acos form with the
/// orientation attached needs (the n-D default has the same)
fn small_angle2<T: Tier + Dom<M = Sh>>(rep: &mut Report) {
    let steps: Vec<f64> = if T::NAME == "F" { vec![2f64.powi(-6), 2f64.powi(-10), 2f64.powi(-14)] } else { vec![2f64.powi(-8), 2f64.powi(-20), 2f64.powi(-32)] };
    let ks = [1.0f64, -1.0, 2.5, -0.3];
    let nb = 3;
    rep.cases(
        "small-angle/Vector2",
        T::NAME,
        &format!("3 generic u x steps {:?} x {:?}: v = +-u + step * k * perp(u) (rounded): signed angle next to 0 and next to +-pi", steps, ks),
        nb * steps.len() * ks.len() * 2,
        Guard::states(6).distinct(6),
        |i, ctx| {
            let d = alphabet::decode(i, &[nb, steps.len(), ks.len(), 2]);
            let base = alphabet::generic(2, d[0]);
            let c = |x: f64| num_traits::cast::<f64, T>(x).unwrap();
            let u: [T; 2] = [c(base[0].0 as f64 / base[0].1 as f64 / 3.0), c(base[1].0 as f64 / base[1].1 as f64 / 7.0)];
            let sg = if d[3] == 0 { 1.0 } else { -1.0 };
            let (st, k) = (steps[d[1]], ks[d[2]]);
            let v: [T; 2] = [c(sg * u[0].f() - st * k * u[1].f()), c(sg * u[1].f() + st * k * u[0].f())];
            ctx.describe(|| format!("Vector2<{}> u={:?} v={:?}", T::NAME, u, v));
            ctx.out(&d);
            let (mu, mv): ([Sh; 2], [Sh; 2]) = (lift_v(u), lift_v(v));
            let m = Sh::atan2(mu[0] * mv[1] - mu[1] * mv[0], model::vdot(mu, mv));
            for (a, want) in [(mk_v2(u).angle(mk_v2(v)).0.f(), m.v), (mk_v2(v).angle(mk_v2(u)).0.f(), -m.v)] {
                ctx.t();
                let tol = K_TOL * T::U * (m.e + m.v.abs()) + acos_room::<T>(m.v);
                let diff = (a - want).abs();
                let diff = diff.min((diff - 2.0 * PI).abs());
                if !(diff <= tol) {
                    ctx.fail(&key("angle/Vector2/signed-ccw/nearly-parallel"), || format!("angle = {a:e}, counter-clockwise angle is {want:e} (tolerance {tol:e})"));
                }
            }
        },
    );
}

/// float tiers: vectors a hair off unit length (and off the target length of normalize_to)
fn near_unit<T: Tier + Dom<M = Sh>, V: Inner<T, N>, const N: usize>(rep: &mut Report) {
    let py = pythagorean(N);
    let ks: Vec<i32> = if T::NAME == "F" { (3..=22).collect() } else { (3..=50).collect() };
    rep.cases(
        &format!("near-unit/{}", V::NAME),
        T::NAME,
        &format!("{} rational unit directions x (1 +- 2^-k), k in {:?}: magnitude, normalize, normalize_to(3)", py.len(), ks),
        py.len() * ks.len() * 2,
        Guard::states(4).distinct(4),
        |i, ctx| {
            let (pi, rest) = (i / (ks.len() * 2), i % (ks.len() * 2));
            let (k, sg) = (ks[rest / 2], if rest % 2 == 0 { 1.0 } else { -1.0 });
            let l = (py[pi].iter().map(|x| (x * x) as f64).sum::<f64>()).sqrt();
            let f = (1.0 + sg * 2f64.powi(-k)) / l;
            let u: [T; N] = std::array::from_fn(|j| num_traits::cast::<f64, T>(py[pi][j] as f64 * f).unwrap());
            ctx.describe(|| format!("{}<{}> u={:?} (length 1 {} 2^-{k})", V::NAME, T::NAME, u, if sg > 0.0 { "+" } else { "-" }));
            ctx.out(&(pi, rest));
            let cu = V::mk(u);
            let mu = lift_v(u);
            let mmag = model::vdot(mu, mu).sqrt();
            eq_s::<T>(ctx, &key("magnitude/near-unit"), cu.magnitude(), mmag);
            let nm = model::vdiv(mu, mmag);
            eq_v::<T, N>(ctx, &key("normalize/near-unit"), cu.normalize().arr(), nm);
            eq_s::<T>(ctx, &key("normalize/unit/near-unit"), cu.normalize().magnitude(), Sh::exact(1.0).with_err_of(model::vdot(nm, nm).sqrt()));
            let three: T = num_traits::cast::<f64, T>(3.0).unwrap();
            let v3x: [T; N] = u.map(|x| x * three);
            eq_v::<T, N>(ctx, &key("normalize_to/near-target"), V::mk(v3x).normalize_to(three).arr(), model::vscale(nm, Sh::exact(3.0)).map(|x| x.with_abs_err(8.0)));
            // the angle with itself and with another direction that is nearly unit as well (both operands "already
            // normalised": the lengths still divide out)
            let a0 = cu.angle(cu).0.f();
            ctx.t();
            let eps = K_TOL * T::U * 16.0;
            if !(a0.abs() <= (2.0 * eps).sqrt() * 2.0) {
                ctx.fail(&key("angle/near-unit/with-itself"), || format!("angle(u,u) = {a0:e}"));
            }
            let pj = (pi + 1) % py.len();
            let l2 = (py[pj].iter().map(|x| (x * x) as f64).sum::<f64>()).sqrt();
            let w: [T; N] = std::array::from_fn(|j| num_traits::cast::<f64, T>(py[pj][j] as f64 * (1.0 - sg * 2f64.powi(-k) * 0.75) / l2).unwrap());
            let mw = lift_v(w);
            let (lu, lw) = (mmag, model::vdot(mw, mw).sqrt());
            let (nu, nw) = (model::vdiv(mu, lu), model::vdiv(mw, lw));
            let (df, sm) = (model::vsub(nu, nw), model::vadd(nu, nw));
            let reference = 2.0 * model::vdot(df, df).sqrt().v.atan2(model::vdot(sm, sm).sqrt().v);
            // (the 2-D angle is signed; its orientation is judged elsewhere)
            let a = if N == 2 { cu.angle(V::mk(w)).0.f().abs() } else { cu.angle(V::mk(w)).0.f() };
            ctx.t();
            let tol = (eps / reference.sin().abs().max(1e-300)).min((2.0 * eps).sqrt() * 2.0) + eps;
            if !((a - reference).abs() <= tol) {
                ctx.fail(&key("angle/near-unit/pair"), || format!("angle(u,w) = {a:e}, reference {reference:e} (tolerance {tol:e}); w = {:?}", w));
            }
        },
    );
}

/// unsigned angles (dimension 3, 4, quaternions) next to 0 and next to pi, non-dyadic components
fn small_angle_n<T: Tier + Dom<M = Sh>, V: Inner<T, N>, const N: usize>(rep: &mut Report) {
    let steps: Vec<f64> = vec![2f64.powi(-3), 2f64.powi(-6), 2f64.powi(-9)];
    let nb = 3;
    // (lengths of u, of v): a small angle together with short, long or very different lengths (the angle depends on neither)
    let k = if T::NAME == "F" { 12 } else { 40 };
    let scs: [(i32, i32); 5] = [(0, 0), (-k, -k), (k, k), (-k, k), (k / 2, -k / 2)];
    rep.cases(
        &format!("small-angle/{}", V::NAME),
        T::NAME,
        &format!("3 generic u x steps {:?} x {N} directions x both signs x lengths scaled by 2^{:?}: v = +-u + step * |u| * e_j (rounded): angles next to 0 and next to pi", steps, scs),
        nb * steps.len() * N * 2 * scs.len(),
        Guard::states(6).distinct(6),
        |i, ctx| {
            let d = alphabet::decode(i, &[nb, steps.len(), N, 2, scs.len()]);
            let base = alphabet::generic(N, d[0]);
            let c = |x: f64| num_traits::cast::<f64, T>(x).unwrap();
            let (su, sv) = (2f64.powi(scs[d[4]].0), 2f64.powi(scs[d[4]].1));
            let u0: [f64; N] = std::array::from_fn(|j| base[j].0 as f64 / base[j].1 as f64 / 3.0);
            let ulen = u0.iter().map(|x| x * x).sum::<f64>().sqrt();
            let sg = if d[3] == 0 { 1.0 } else { -1.0 };
            let u: [T; N] = std::array::from_fn(|j| c(u0[j] * su));
            let v: [T; N] = std::array::from_fn(|j| c((sg * u0[j] + if j == d[2] { steps[d[1]] * ulen } else { 0.0 }) * sv));
            ctx.describe(|| format!("{}<{}> u={:?} v={:?}", V::NAME, T::NAME, u, v));
            ctx.out(&d);
            let (mu, mv): ([Sh; N], [Sh; N]) = (lift_v(u), lift_v(v));
            let (lu, lv) = (model::vdot(mu, mu).sqrt(), model::vdot(mv, mv).sqrt());
            let (nu, nv) = (model::vdiv(mu, lu), model::vdiv(mv, lv));
            // well-conditioned everywhere: 2 atan2(|u^ - v^|, |u^ + v^|)
            let (df, sm) = (model::vsub(nu, nv), model::vadd(nu, nv));
            let reference = 2.0 * model::vdot(df, df).sqrt().v.atan2(model::vdot(sm, sm).sqrt().v);
            let mdot = model::vdot(mu, mv);
            let mlen = lu * lv;
            for (a, name) in [(V::mk(u).angle(V::mk(v)).0.f(), "angle(u,v)"), (V::mk(v).angle(V::mk(u)).0.f(), "angle(v,u)")] {
                ctx.check(a >= 0.0 && a <= PI + 4.0 * T::U * PI, &key(&format!("angle/{}/range/nearly-parallel", V::NAME)), || format!("{name} = {a}"));
                ctx.t();
                let lhs = mlen.v * a.cos();
                let tol = K_TOL * T::U * (mlen.e + mdot.e + 8.0 * mlen.v);
                if !((lhs - mdot.v).abs() <= tol) {
                    ctx.fail(&key(&format!("angle/{}/cosine-law/nearly-parallel", V::NAME)), || format!("|u||v|cos({name}) = {lhs:e} but u.v = {:e} ({name} = {a})", mdot.v));
                }
                // an error eps in the cosine moves the angle by eps / sin(angle)
                ctx.t();
                let eps = K_TOL * T::U * 16.0;
                let tol = (eps / reference.sin().abs().max(1e-300)).min((2.0 * eps).sqrt() * 2.0) + eps;
                if !((a - reference).abs() <= tol) {
                    ctx.fail(&key(&format!("angle/{}/value/nearly-parallel", V::NAME)), || format!("{name} = {a:e}, reference {reference:e} (tolerance {tol:e})"));
                }
            }
        },
    );
}

fn close<T: Tier + Dom<M = Sh>>(rep: &mut Report) {
    small_angle_n::<T, Vector3<T>, 3>(rep);
    small_angle_n::<T, Vector4<T>, 4>(rep);
    small_angle_n::<T, Quaternion<T>, 4>(rep);
    near_unit::<T, Vector1<T>, 1>(rep);
    near_unit::<T, Vector2<T>, 2>(rep);
    near_unit::<T, Vector3<T>, 3>(rep);
    near_unit::<T, Vector4<T>, 4>(rep);
    near_unit::<T, Quaternion<T>, 4>(rep);
    small_angle2::<T>(rep);
    close_sys::<T, 1>(rep, "Vector1", |u, v| mk_v1(u).distance2(mk_v1(v)), |u, v| mk_v1(u).distance(mk_v1(v)));
    close_sys::<T, 2>(rep, "Vector2", |u, v| mk_v2(u).distance2(mk_v2(v)), |u, v| mk_v2(u).distance(mk_v2(v)));
    close_sys::<T, 3>(rep, "Vector3", |u, v| mk_v3(u).distance2(mk_v3(v)), |u, v| mk_v3(u).distance(mk_v3(v)));
    close_sys::<T, 4>(rep, "Vector4", |u, v| mk_v4(u).distance2(mk_v4(v)), |u, v| mk_v4(u).distance(mk_v4(v)));
    close_sys::<T, 4>(rep, "Quaternion", |u, v| mk_q(u).distance2(mk_q(v)), |u, v| mk_q(u).distance(mk_q(v)));
    close_sys::<T, 1>(rep, "Point1", |u, v| mk_p1(u).distance2(mk_p1(v)), |u, v| mk_p1(u).distance(mk_p1(v)));
    close_sys::<T, 2>(rep, "Point2", |u, v| mk_p2(u).distance2(mk_p2(v)), |u, v| mk_p2(u).distance(mk_p2(v)));
    close_sys::<T, 3>(rep, "Point3", |u, v| mk_p3(u).distance2(mk_p3(v)), |u, v| mk_p3(u).distance(mk_p3(v)));
}

fn floats<T: Tier + Dom<M = Sh>>(rep: &mut Report) {
    grid::<T, Vector1<T>, 1>(rep, false);
    grid::<T, Vector2<T>, 2>(rep, true);
    grid::<T, Vector3<T>, 3>(rep, false);
    grid::<T, Vector4<T>, 4>(rep, false);
    grid::<T, Quaternion<T>, 4>(rep, false);
    pts1::<T>(rep);
    pts2::<T>(rep);
    pts3::<T>(rep);
    close::<T>(rep);
}

fn main() {
    let mut rep = Report::from_args(P);
    rep.assume("exact tier: vectors of rational length (Pythagorean tuples) so that every square root is exact, angles on three lattices; float tiers: integer grids and scaled copies with running-error tolerances; the angle clause is judged through |u||v|cos(angle) = u.v, the range, symmetry and a well-conditioned reference with the conditioning of acos taken into account");
    set_lattice(None);
    exact::<Vector1<Ex>, 1>(&mut rep);
    exact::<Vector2<Ex>, 2>(&mut rep);
    exact::<Vector3<Ex>, 3>(&mut rep);
    exact::<Vector4<Ex>, 4>(&mut rep);
    exact::<Quaternion<Ex>, 4>(&mut rep);
    pts1::<Ex>(&mut rep);
    pts2::<Ex>(&mut rep);
    pts3::<Ex>(&mut rep);
    exact_angle(&mut rep);
    floats::<f64>(&mut rep);
    floats::<f32>(&mut rep);
    std::process::exit(rep.finish());
}
