//! C02 — inverse, determinant, transpose, swaps.
use cgmath::Transform;
use mc_props::*;

const P: &str = "C02";
fn key(s: &str) -> String {
    format!("{P}/{s}")
}

/// the matrix types' `inverse_transform` through every Transform impl they have
trait InvT<T: Tier>: Sized {
    fn inv_transforms(&self) -> Vec<(&'static str, Option<Self>)>;
}
impl<T: Tier> InvT<T> for Matrix2<T> {
    fn inv_transforms(&self) -> Vec<(&'static str, Option<Self>)> {
        vec![]
    }
}
impl<T: Tier> InvT<T> for Matrix3<T> {
    fn inv_transforms(&self) -> Vec<(&'static str, Option<Self>)> {
        vec![
            ("Matrix3<Point2>", Transform::<Point2<T>>::inverse_transform(self)),
            ("Matrix3<Point3>", Transform::<Point3<T>>::inverse_transform(self)),
        ]
    }
}
impl<T: Tier> InvT<T> for Matrix4<T> {
    fn inv_transforms(&self) -> Vec<(&'static str, Option<Self>)> {
        vec![("Matrix4", Transform::<Point3<T>>::inverse_transform(self))]
    }
}

/// determinant / inverse / transpose laws on one matrix `e`
fn judge<T: Tier, M: MatN<T, N> + InvT<T>, const N: usize>(ctx: &mut Ctx, e: [[T; N]; N]) {
    let me = lift_m(e);
    let a = M::mk(e);
    let det = a.determinant();
    let mdet = model::mdet(me);
    eq_s::<T>(ctx, &key("determinant"), det, mdet);
    eq_s::<T>(ctx, &key("determinant/transpose-invariant"), a.transpose().determinant(), mdet);
    // transpose, transpose_self
    let mt = model::mtranspose(me);
    eq_m::<T, N>(ctx, &key("transpose"), a.transpose().arr(), mt);
    let mut ts = a;
    ts.transpose_self();
    same_slice(ctx, &key("transpose_self"), &flat_m(ts.arr()), &flat_m(a.transpose().arr()));
    same_slice(ctx, &key("transpose/involution"), &flat_m(a.transpose().transpose().arr()), &flat_m(e));
    let inv = a.invert();
    if T::EXACT {
        // None exactly when the determinant is zero; otherwise the exact two-sided inverse
        let singular = mdet.is_zero();
        ctx.branch(if singular { "singular" } else { "invertible" });
        ctx.check(inv.is_none() == singular, &key("invert/none-iff-det-zero"), || {
            format!("det={:?} but invert() is {}", mdet, if inv.is_some() { "Some" } else { "None" })
        });
        if let (Some(n), Some(mn)) = (inv, model::minverse(me)) {
            eq_m::<T, N>(ctx, &key("invert"), n.arr(), mn);
            same_slice(ctx, &key("invert/right-identity"), &flat_m((a * n).arr()), &flat_m(M::identity().arr()));
            same_slice(ctx, &key("invert/left-identity"), &flat_m((n * a).arr()), &flat_m(M::identity().arr()));
        }
    } else {
        // self-consistency of the two API results (a differently rounded but correct algorithm
        // may legitimately see 1e-17 instead of 0); the exact dichotomy is tier X's job
        // None exactly when the determinant is zero - as far as floating point can tell: a determinant whose enclosure
        // excludes zero must give Some, one that is zero over the rationals (all products exact: small dyadic entries)
        // may round either way in either routine, and None is only acceptable when the enclosure contains zero
        ctx.branch(if inv.is_none() { "singular" } else { "invertible" });
        let noise = T::tol(mdet, 1.0);
        if mdet.approx().abs() > noise {
            ctx.check(inv.is_some(), &key("invert/none-iff-det-zero"), || format!("determinant = {:?} (+-{noise:e}) is not zero but invert() is None", mdet.approx()));
        } else if inv.is_none() {
            ctx.branch("none-on-a-numerically-zero-determinant");
        }
        let _ = det;
        if let Some(n) = inv {
            // Cramer's rule over the shadow field: the running error bound carries the conditioning
            if let Some(mn) = model::minverse_adj(me) {
                let worst = flat_m(mn).iter().map(|x| T::tol(*x, 1.0)).fold(0.0, f64::max);
                let size = flat_m(mn).iter().map(|x| x.approx().abs()).fold(0.0, f64::max);
                if worst > 0.05 * size.max(1e-300) {
                    ctx.skip("ill-conditioned (float tier)");
                } else {
                    eq_m::<T, N>(ctx, &key("invert"), n.arr(), mn);
                    let pr = model::mmul(me, mn);
                    let pl = model::mmul(mn, me);
                    let id = model::mident::<T::M, N>();
                    let as_id = |p: [[T::M; N]; N]| -> [[T::M; N]; N] {
                        std::array::from_fn(|c| std::array::from_fn(|r| id[c][r].with_err_of(p[c][r])))
                    };
                    eq_m::<T, N>(ctx, &key("invert/right-identity"), (a * n).arr(), as_id(pr));
                    eq_m::<T, N>(ctx, &key("invert/left-identity"), (n * a).arr(), as_id(pl));
                }
            }
        }
    }
    // inverse_transform of the matrix used as a transform is this same inverse
    for (name, it) in a.inv_transforms() {
        ctx.t();
        let same = match (&it, &inv) {
            (None, None) => true,
            (Some(x), Some(y)) if T::EXACT => flat_m(x.arr()).iter().zip(flat_m(y.arr()).iter()).all(|(p, q)| p.key() == q.key() || p == q),
            // "this same inverse": the same matrix, however it is computed (a fast path for affine matrices rounds differently)
            (Some(x), Some(y)) => {
                let size = flat_m(y.arr()).iter().map(|q| q.f().abs()).fold(0.0, f64::max);
                let cond_slack = match model::minverse_adj(me) { Some(mn) => flat_m(mn).iter().map(|v| T::tol(*v, 1.0)).fold(0.0, f64::max), None => f64::INFINITY };
                flat_m(x.arr()).iter().zip(flat_m(y.arr()).iter()).all(|(p, q)| (p.f() - q.f()).abs() <= cond_slack.max(8.0 * T::U * size) || (p.f().is_nan() && q.f().is_nan()))
            }
            // one Some, one None: two roundings of a determinant that is zero as far as floating point can tell may differ
            _ => !T::EXACT && mdet.approx().abs() <= T::tol(mdet, 1.0),
        };
        if !same {
            ctx.fail(&key(&format!("inverse_transform/{name}")), || format!("inverse_transform()={:?} invert()={:?}", it, inv));
        }
    }
    ctx.out(&flat_m(e).iter().map(|x| x.key()).collect::<Vec<_>>());
}

fn sparse<T: Tier, M: MatN<T, N> + InvT<T>, const N: usize>(rep: &mut Report) {
    let (supp, signed) = if rep.quick() { (N, false) } else { (N + 1, true) };
    let sp = SparseSpace::new(N * N, supp, signed);
    rep.cases(
        &format!("sparse/{}", M::NAME),
        T::NAME,
        &format!("all 0/{}1 matrices with support <= {supp}", if signed { "+-" } else { "" }),
        sp.len(),
        Guard::states(10).need("singular", 3).need("invertible", 2).distinct(5),
        |i, ctx| {
            let bits = sp.get(i);
            let r: Vec<R> = bits.iter().map(|&b| (b, 1)).collect();
            let e: [[T; N]; N] = mat_from_r(&r);
            ctx.describe(|| format!("{} {:?}", M::NAME, e));
            judge::<T, M, N>(ctx, e);
        },
    );
}

fn bases<const N: usize>() -> Vec<(&'static str, Vec<R>)> {
    let mut out = Vec::new();
    for v in 0..3 {
        out.push(("generic", alphabet::generic(N * N, v)));
    }
    // exactly singular, no zero entry: last row = sum of the first two rows (N>=3) / proportional rows (N=2)
    let mut s1 = alphabet::generic(N * N, 1);
    for c in 0..N {
        let (a, b) = (s1[c * N], s1[c * N + 1]);
        s1[c * N + N - 1] = if N >= 3 { add(a, b) } else { (a.0 * 3, a.1) };
    }
    if N == 2 {
        // rows proportional: row1 = 3*row0
        for c in 0..N {
            s1[c * N + 1] = (s1[c * N].0 * 3, s1[c * N].1);
        }
    }
    out.push(("singular-rows", s1));
    // two proportional columns
    let mut s2 = alphabet::generic(N * N, 2);
    for r in 0..N {
        s2[(N - 1) * N + r] = (s2[r].0 * -5, s2[r].1 * 2);
    }
    out.push(("singular-cols", s2));
    // determinant tiny but non-zero: the singular-cols matrix with 2^-40 added to one entry
    let mut s3 = alphabet::generic(N * N, 2);
    for r in 0..N {
        s3[(N - 1) * N + r] = (s3[r].0 * 2, s3[r].1);
    }
    let e = s3[N * N - 1];
    s3[N * N - 1] = (e.0 * (1i64 << 40) / e.1 + 1, 1i64 << 40);
    out.push(("tiny-det", s3));
    // every entry tiny (generic * 2^-20): the determinant is far below machine epsilon but not zero
    // (exponent per dimension so that |det| <= f64 epsilon while the exact tier's i128 rationals still carry it)
    let sh = [0, 0, 30, 25, 20][N];
    let s4: Vec<R> = alphabet::generic(N * N, 0).iter().map(|r| (r.0, r.1 << sh)).collect();
    out.push(("tiny-scale", s4));
    // affine: bottom row (0, ..., 0, 1) exactly - the shape transforms built from scales, rotations and
    // displacements have, and the shape an "affine fast path" would test for
    if N >= 3 {
        let mut s5 = alphabet::generic(N * N, 3);
        for c in 0..N {
            s5[c * N + N - 1] = if c == N - 1 { (1, 1) } else { (0, 1) };
        }
        out.push(("affine", s5));
    }
    if N == 4 {
        // the shapes of the projection matrices (column-major c*4 + r): an off-centre frustum (columns (a,0,0,0), (0,b,0,0),
        // (A,B,C,-1), (0,0,D,0)), the centred perspective (A = B = 0), an off-centre ortho box
        let z: R = (0, 1);
        let fr = |a: R, b: R, aa: R, bb: R, cc: R, dd: R, e: R| -> Vec<R> { vec![a, z, z, z, z, b, z, z, aa, bb, cc, e, z, z, dd, z] };
        out.push(("frustum-shaped", fr((3, 2), (-5, 4), (1, 3), (-2, 7), (-11, 9), (-20, 9), (-1, 1))));
        out.push(("perspective-shaped", fr((3, 2), (5, 4), z, z, (-11, 9), (-20, 9), (-1, 1))));
        out.push(("ortho-shaped", vec![(2, 3), z, z, z, z, (4, 5), z, z, z, z, (-2, 9), z, (-1, 3), (1, 5), (-11, 9), (1, 1)]));
    }
    out
}
fn add(a: R, b: R) -> R {
    (a.0 * b.1 + b.0 * a.1, a.1 * b.1)
}

fn generic<T: Tier, M: MatN<T, N> + InvT<T>, const N: usize>(rep: &mut Report) {
    let k = rep.pick(2, 3);
    let letters = alphabet::A1;
    let dev = DevSpace::new(N * N, letters.len(), k);
    let bs = bases::<N>();
    rep.cases(
        &format!("generic/{}", M::NAME),
        T::NAME,
        &format!("7-11 bases (3 generic, 2 exactly singular without zero entries, 1 with det ~2^-40, 1 scaled so that |det| << machine epsilon, for n >= 3 one affine with bottom row 0..0 1, for n = 4 the shapes of an off-centre frustum, a centred perspective and an ortho matrix) x <= {k} deviations over A1"),
        bs.len() * dev.len(),
        Guard::states(100).need("singular", 2).need("invertible", 50).distinct(50).inconclusive(0.02),
        |i, ctx| {
            let (bi, di) = (i / dev.len(), i % dev.len());
            let r = deviate(&bs[bi].1, &dev.get(di), &letters);
            let e: [[T; N]; N] = mat_from_r(&r);
            ctx.describe(|| format!("{} base={} {:?}", M::NAME, bs[bi].0, e));
            if T::EXACT && di == 0 {
                // the constructed bases really are what their names say
                let d = model::mdet(lift_m(e));
                let want_singular = bs[bi].0.starts_with("singular");
                assert!(d.is_zero() == want_singular, "harness base {} has det {:?}", bs[bi].0, d);
            }
            judge::<T, M, N>(ctx, e);
        },
    );
}

fn swaps<T: Tier, M: MatN<T, N>, const N: usize>(rep: &mut Report) {
    let e: [[T; N]; N] = mat_from_r(&alphabet::generic(N * N, 0));
    // cases: swap_rows (N^2) + swap_columns (N^2) + swap_elements (N^4) + replace_col (N)
    let n_sw = N * N;
    let total = 2 * n_sw + n_sw * n_sw + N;
    rep.cases(
        &format!("swaps/{}", M::NAME),
        T::NAME,
        "every index pair (incl. equal ones) for swap_rows/swap_columns, every pair of element coordinates for swap_elements, every column for replace_col, on a generic matrix",
        total,
        Guard::states(10).distinct(8),
        |i, ctx| {
            let mut a = M::mk(e);
            let mut m = e;
            if i < n_sw {
                let (x, y) = (i / N, i % N);
                ctx.describe(|| format!("swap_rows({x},{y}) on {:?}", e));
                a.swap_rows(x, y);
                for c in 0..N {
                    m[c].swap(x, y);
                }
                ctx.out(&("rows", x, y));
                same_slice(ctx, &key("swap_rows"), &flat_m(a.arr()), &flat_m(m));
            } else if i < 2 * n_sw {
                let j = i - n_sw;
                let (x, y) = (j / N, j % N);
                ctx.describe(|| format!("swap_columns({x},{y}) on {:?}", e));
                a.swap_columns(x, y);
                m.swap(x, y);
                ctx.out(&("cols", x, y));
                same_slice(ctx, &key("swap_columns"), &flat_m(a.arr()), &flat_m(m));
            } else if i < 2 * n_sw + n_sw * n_sw {
                let j = i - 2 * n_sw;
                let (p, q) = (j / n_sw, j % n_sw);
                let (pc, pr, qc, qr) = (p / N, p % N, q / N, q % N);
                ctx.describe(|| format!("swap_elements(({pc},{pr}),({qc},{qr})) on {:?}", e));
                cgmath::Matrix::swap_elements(&mut a, (pc, pr), (qc, qr));
                let t = m[pc][pr];
                m[pc][pr] = m[qc][qr];
                m[qc][qr] = t;
                ctx.out(&("elems", p, q));
                same_slice(ctx, &key("swap_elements"), &flat_m(a.arr()), &flat_m(m));
            } else {
                let c = i - (2 * n_sw + n_sw * n_sw);
                let newcol: [T; N] = vec_from_r(&alphabet::generic(N, 2));
                ctx.describe(|| format!("replace_col({c}, {:?}) on {:?}", newcol, e));
                let old = a.replace_col(c, M::V::mk(newcol));
                ctx.out(&("replace", c));
                same_slice(ctx, &key("replace_col/returned"), &old.arr(), &e[c]);
                m[c] = newcol;
                same_slice(ctx, &key("replace_col/installed"), &flat_m(a.arr()), &flat_m(m));
            }
        },
    );
}

fn closure<T: Tier, M: MatN<T, N> + InvT<T>, const N: usize>(rep: &mut Report) {
    let depth = rep.pick(2, 4);
    // generators with small integer entries: unimodular-ish, shear, permutation with scale, singular
    let mut g0 = lower_m::<T, N>(model::mident());
    for c in 0..N {
        for r in 0..N {
            if r < c {
                g0[c][r] = T::int(((c * 2 + r) % 3) as i64 - 1);
            }
            if r == c + 1 {
                g0[c][r] = T::int(1);
            }
        }
    }
    g0[0][0] = T::int(2);
    let mut shear = lower_m::<T, N>(model::mident());
    shear[N - 1][0] = T::q(3, 2);
    let mut perm: [[T; N]; N] = [[T::zero(); N]; N];
    for c in 0..N {
        perm[c][(c + 1) % N] = T::q(if c % 2 == 0 { 2 } else { -1 }, 1);
    }
    let mut sing = g0;
    for r in 0..N {
        sing[N - 1][r] = sing[0][r] + sing[0][r];
    }
    let gens = [g0, shear, perm, sing];
    let inits: Vec<St<T>> = gens.iter().map(|g| St(flat_m(*g))).collect();
    let nact = 4 + 4 + 4;
    rep.bfs(
        &format!("closure/{}", M::NAME),
        T::NAME,
        &format!("register A from 4 generators; actions A*g, g*A (4 generators each), transpose, transpose_self, invert, inverse_transform; depth {depth}"),
        inits,
        nact,
        depth,
        Guard::states(60).inconclusive(0.05),
        |st, act, ctx| {
            let a: [[T; N]; N] = st.mat(0);
            let ma = lift_m(a);
            let ca = M::mk(a);
            let next = match act {
                0..=3 => {
                    let g = gens[act];
                    let r = (ca * M::mk(g)).arr();
                    eq_m::<T, N>(ctx, &key("closure/mul"), r, model::mmul(ma, lift_m(g)));
                    r
                }
                4..=7 => {
                    let g = gens[act - 4];
                    let r = (M::mk(g) * ca).arr();
                    eq_m::<T, N>(ctx, &key("closure/mul"), r, model::mmul(lift_m(g), ma));
                    r
                }
                8 => {
                    let r = ca.transpose().arr();
                    eq_m::<T, N>(ctx, &key("closure/transpose"), r, model::mtranspose(ma));
                    r
                }
                9 => {
                    let mut t = ca;
                    t.transpose_self();
                    eq_m::<T, N>(ctx, &key("closure/transpose_self"), t.arr(), model::mtranspose(ma));
                    t.arr()
                }
                10 => match ca.invert() {
                    Some(n) => n.arr(),
                    None => return None,
                },
                _ => match ca.inv_transforms().into_iter().next() {
                    Some((_, Some(n))) => n.arr(),
                    _ => return None,
                },
            };
            if ctx.failed() || flat_m(next).iter().any(|x| !(x.f().abs() < 1e6)) {
                return None;
            }
            Some(St(flat_m(next)))
        },
        |st, ctx| {
            let a: [[T; N]; N] = st.mat(0);
            judge::<T, M, N>(ctx, a);
            if ctx.is_skipped() {
                return;
            }
            let g = gens[0];
            let (ma, mg) = (lift_m(a), lift_m(g));
            let (ca, cg) = (M::mk(a), M::mk(g));
            // det(A g) = det A det g
            let lhs = (ca * cg).determinant();
            let rhs = ca.determinant() * cg.determinant();
            let mprod = model::mdet(ma) * model::mdet(mg);
            eq_s::<T>(ctx, &key("law/det-multiplicative"), lhs, model::mdet(model::mmul(ma, mg)));
            eq_s::<T>(ctx, &key("law/det-multiplicative"), rhs, mprod);
            if T::EXACT {
                same_slice(ctx, &key("law/det-multiplicative"), &[lhs], &[rhs]);
            }
            // (A g)^T = g^T A^T
            let l = (ca * cg).transpose().arr();
            let r = (cg.transpose() * ca.transpose()).arr();
            let mt = model::mtranspose(model::mmul(ma, mg));
            eq_m::<T, N>(ctx, &key("law/transpose-antihomomorphism"), l, mt);
            eq_m::<T, N>(ctx, &key("law/transpose-antihomomorphism"), r, mt);
            // (A^-1)^-1 = A
            if T::EXACT {
                if let Some(n) = ca.invert() {
                    match n.invert() {
                        Some(nn) => {
                            same_slice(ctx, &key("law/inverse-involution"), &flat_m(nn.arr()), &flat_m(a));
                        }
                        None => ctx.fail(&key("law/inverse-involution"), || "inverse of an inverse is None".into()),
                    }
                }
            }
        },
        |st| st.show(),
    );
}

/// invertible matrices one unit roundoff away from a singular one, whose determinant and inverse are exactly
/// representable: the identity with the 2x2 block [[1, 1], [1, 1 + e]] (or its mirror images) in rows/columns (i, j),
/// e the machine epsilon of the tier (2^-52 in the exact tier). det = +-e however it is expanded (every product and
/// every partial sum is exact), so determinant() must say exactly that and invert() must return the inverse - a
/// "small relative to the entries" test in either would call these singular
fn near_singular<T: Tier, M: MatN<T, N> + InvT<T>, const N: usize>(rep: &mut Report) {
    let pairs: Vec<(usize, usize)> = (0..N).flat_map(|i| (i + 1..N).map(move |j| (i, j))).collect();
    let nv = 4;
    rep.cases(
        &format!("near-singular/{}", M::NAME),
        T::NAME,
        &format!("{} index pairs x 4 placements of the entry 1 + e (and sign of the off-diagonal pair)", pairs.len()),
        pairs.len() * nv,
        Guard::states(4).distinct(4),
        |i, ctx| {
            let ((p, q), var) = (pairs[i / nv], i % nv);
            let e: T = if T::EXACT { T::q(1, 1i64 << 52) } else { num_traits::cast::<f64, T>(T::U * 2.0).unwrap() };
            let one = T::one();
            let mut m = lower_m::<T, N>(model::mident());
            // block (rows/cols p, q): [[a, s], [s, d]] column-major m[col][row]
            let (a, d, sgn) = match var { 0 => (one, one + e, one), 1 => (one + e, one, one), 2 => (one, one + e, -one), _ => (one + e, one, -one) };
            m[p][p] = a;
            m[q][q] = d;
            m[p][q] = sgn;
            m[q][p] = sgn;
            ctx.describe(|| format!("{} {:?}", M::NAME, m));
            ctx.out(&(p, q, var));
            let cm = M::mk(m);
            // a*d - s*s = (1 + e) - 1 = e
            // (to a rounding: an elimination with pivoting returns e(1 + e) on some of these)
            for d in [cm.determinant(), cm.transpose().determinant()] {
                ctx.t();
                if !((d.f() - e.f()).abs() <= 32.0 * T::U * e.f().abs()) {
                    ctx.fail(&key("determinant/near-singular"), || format!("determinant() = {:?}, exactly {:?}", d, e));
                }
            }
            let inv = cm.invert();
            ctx.check(inv.is_some(), &key("invert/some-near-singular"), || format!("invert() is None although the determinant is {:?}", e));
            if let Some(n) = inv {
                // inverse block = (1/e) [[d, -s], [-s, a]]
                let ie = one / e;
                let mut want = lower_m::<T, N>(model::mident());
                want[p][p] = d * ie;
                want[q][q] = a * ie;
                want[p][q] = -sgn * ie;
                want[q][p] = -sgn * ie;
                let got = n.arr();
                for c in 0..N {
                    for r in 0..N {
                        ctx.t();
                        let (g, w) = (got[c][r].f(), want[c][r].f());
                        if !((g - w).abs() <= 32.0 * T::U * w.abs()) {
                            ctx.fail(&key("invert/near-singular"), || format!("inverse[{c}][{r}] = {:?}, expected {:?}", got[c][r], want[c][r]));
                        }
                    }
                }
            }
            for (name, it) in cm.inv_transforms() {
                ctx.check(it.is_some(), &key(&format!("inverse_transform/{name}/some-near-singular")), || "inverse_transform() is None for an invertible matrix".to_string());
            }
        },
    );
}

/// scaling by a power of two is exact: det(2^k M) = 2^(kn) det(M) and invert(2^k M) = 2^-k invert(M), bit for bit, for
/// every algorithm built from + - * / and comparisons of like quantities. An absolute threshold anywhere (a cut-off on
/// the determinant, an `is_diagonal()` / `is_zero()` fast path) breaks it at one end of the ladder or the other
fn scaling<T: Tier, M: MatN<T, N> + InvT<T>, const N: usize>(rep: &mut Report) {
    // (exponents such that nothing leaves the range - 8.5 - and the exact tier's integers stay within i128)
    let ks: Vec<i32> = if T::EXACT { vec![-6, 6] } else if T::NAME == "F" { (-20..=20).step_by(2).filter(|k| *k != 0).collect() } else { (-60..=60).step_by(4).filter(|k| *k != 0).collect() };
    let bs: Vec<(&'static str, Vec<R>)> = bases::<N>().into_iter().filter(|b| !b.0.starts_with("tiny")).collect();
    rep.cases(
        &format!("scaling/{}", M::NAME),
        T::NAME,
        &format!("{} bases x powers of two 2^k, k in {:?}", bs.len(), ks),
        bs.len() * ks.len(),
        Guard::states(6).distinct(6),
        |i, ctx| {
            let (bi, k) = (i / ks.len(), ks[i % ks.len()]);
            // two rungs of the ladder against each other (not against the unscaled base: a fast path keyed on an exact
            // pattern of the base - a bottom row 0..0 1 - is legitimate, rounds differently and is lost on every rung)
            let k0 = if k == ks[0] { ks[ks.len() - 1] } else { ks[0] };
            let p2 = |k: i32| -> T { if k >= 0 { T::q(1i64 << k, 1) } else { T::q(1, 1i64 << -k) } };
            let e0: [[T; N]; N] = mat_from_r(&bs[bi].1);
            let e: [[T; N]; N] = e0.map(|c| c.map(|x| x * p2(k0)));
            let f: T = p2(k) / p2(k0);
            let es: [[T; N]; N] = e0.map(|c| c.map(|x| x * p2(k)));
            ctx.describe(|| format!("{} base={} scaled by 2^{k} (against the same scaled by 2^{k0}): {:?}", M::NAME, bs[bi].0, es));
            ctx.out(&(bi, k));
            let (a, b) = (M::mk(e), M::mk(es));
            // (factor by factor: f^n itself may leave the range between the two ends of the ladder)
            let mut want_det = a.determinant();
            for _ in 0..N {
                want_det = want_det * f;
            }
            same_slice(ctx, &key("determinant/scales-exactly"), &[b.determinant()], &[want_det]);
            match (a.invert(), b.invert()) {
                (Some(x), Some(y)) => { same_slice(ctx, &key("invert/scales-exactly"), &flat_m(y.arr()), &flat_m(x.arr().map(|c| c.map(|v| v / f)))); }
                (None, None) => {}
                (x, y) => ctx.fail(&key("invert/scales-exactly"), || format!("invert() is {} but {} after scaling by 2^{k}", if x.is_some() { "Some" } else { "None" }, if y.is_some() { "Some" } else { "None" })),
            }
        },
    );
}


/// float tiers: matrices that are *almost* of a special shape. The approximate predicates of the library (`is_identity`,
/// `is_diagonal`, `is_symmetric`, `is_zero`: ulps comparisons with tolerances up to 1e-6) are the natural guards of a
/// fast path; a short cut taken on their word is wrong by the part they ignore, which is far above rounding here
fn nearly_special<T: Tier + Dom<M = Sh>, const N: usize>(shape: usize, di: usize) -> (&'static str, [[T; N]; N]) {
    let g: [[T; N]; N] = mat_from_r(&alphabet::generic(N * N, 1));
    let h: [[T; N]; N] = mat_from_r(&alphabet::generic(N * N, 2));
    let c = |x: f64| num_traits::cast::<f64, T>(x).unwrap();
    // the part a tolerant predicate ignores: exactly absent, below the scalar epsilon, 2^-30, 2^-22 (times entries of size 0.1..20)
    let d = [0.0, T::U / 64.0, 2f64.powi(-30), 2f64.powi(-22)][di];
    let mut m = [[T::zero(); N]; N];
    let name = ["identity", "diagonal", "symmetric", "scaled identity", "zero"][shape];
    for cc in 0..N {
        for r in 0..N {
            let off = c(d * h[cc][r].f() / 8.0);
            m[cc][r] = match shape {
                0 => (if cc == r { T::one() } else { T::zero() }) + off,
                1 => (if cc == r { g[cc][cc] } else { T::zero() }) + if cc == r { T::zero() } else { off },
                2 => g[cc.min(r)][cc.max(r)] + if cc < r { off } else { T::zero() },
                3 => (if cc == r { c(2.5) } else { T::zero() }) + if cc == r { T::zero() } else { off },
                _ => off,
            };
        }
    }
    (name, m)
}
fn near_special<T: Tier + Dom<M = Sh>, M: MatN<T, N> + InvT<T>, const N: usize>(rep: &mut Report) {
    rep.cases(
        &format!("nearly-special/{}", M::NAME),
        T::NAME,
        "identity, diagonal, symmetric, scaled identity (zero: not invertible, left out) x {exactly, off by a few roundings, by 2^-30, by 2^-22}: determinant, invert, inverse_transform against the model",
        4 * 4,
        Guard::states(16).need("invertible", 8),
        |i, ctx| {
            let (name, e) = nearly_special::<T, N>(i / 4, i % 4);
            ctx.describe(|| format!("{} nearly {} (variant {}): {:?}", M::NAME, name, i % 4, e));
            ctx.out(&i);
            judge::<T, M, N>(ctx, e);
        },
    );
}
fn all_float<T: Tier + Dom<M = Sh>>(rep: &mut Report) {
    near_special::<T, Matrix2<T>, 2>(rep);
    near_special::<T, Matrix3<T>, 3>(rep);
    near_special::<T, Matrix4<T>, 4>(rep);
}
fn all<T: Tier>(rep: &mut Report) {
    scaling::<T, Matrix2<T>, 2>(rep);
    scaling::<T, Matrix3<T>, 3>(rep);
    scaling::<T, Matrix4<T>, 4>(rep);
    near_singular::<T, Matrix2<T>, 2>(rep);
    near_singular::<T, Matrix3<T>, 3>(rep);
    near_singular::<T, Matrix4<T>, 4>(rep);
    sparse::<T, Matrix2<T>, 2>(rep);
    sparse::<T, Matrix3<T>, 3>(rep);
    sparse::<T, Matrix4<T>, 4>(rep);
    generic::<T, Matrix2<T>, 2>(rep);
    generic::<T, Matrix3<T>, 3>(rep);
    generic::<T, Matrix4<T>, 4>(rep);
    swaps::<T, Matrix2<T>, 2>(rep);
    swaps::<T, Matrix3<T>, 3>(rep);
    swaps::<T, Matrix4<T>, 4>(rep);
    closure::<T, Matrix2<T>, 2>(rep);
    closure::<T, Matrix3<T>, 3>(rep);
    closure::<T, Matrix4<T>, 4>(rep);
}

fn main() {
    let mut rep = Report::from_args(P);
    rep.assume("the determinant is multilinear of degree n, cofactors of degree n-1: the sparse 0/1 systems with support <= n decide them for all inputs for implementations of that degree profile (DESIGN 2.6)");
    rep.assume("float tiers: invert() judged against Cramer's rule over a running-error shadow field; cases whose bound exceeds 5% of the largest entry of the inverse are skipped as ill-conditioned; the exact None <=> det = 0 dichotomy is decided in the rational tier");
    all::<Ex>(&mut rep);
    all::<f64>(&mut rep);
    all::<f32>(&mut rep);
    all_float::<f64>(&mut rep);
    all_float::<f32>(&mut rep);
    std::process::exit(rep.finish());
}
