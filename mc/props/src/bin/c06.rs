//! C06 — angle and axis-angle constructors give proper right-handed rotations.
use cgmath::{One, Rotation, Rotation2, Rotation3, SquareMatrix};
use mc_props::*;
use std::f64::consts::PI;

const P: &str = "C06";
fn key(s: &str) -> String {
    format!("{P}/{s}")
}

/// the four 3-D rotation representations, seen through their public API only
trait Rep3<T: Tier>: Copy + Send + Sync {
    const NAME: &'static str;
    const HALF_ANGLE: bool;
    fn axis_angle(a: Vector3<T>, r: Rad<T>) -> Self;
    /// from_angle_x / _y / _z
    fn about(i: usize, r: Rad<T>) -> Self;
    fn mul(self, o: Self) -> Self;
    fn inv(self) -> Self;
    fn one() -> Self;
    fn rot_v(self, v: Vector3<T>) -> Vector3<T>;
    fn rot_p(self, p: Point3<T>) -> Point3<T>;
    /// images of the three basis vectors (the rotation matrix, by action)
    fn mat(self) -> [[T; 3]; 3] {
        let e = |i: usize| -> Vector3<T> {
            let mut a = [T::zero(); 3];
            a[i] = T::one();
            mk_v3(a)
        };
        [v3(self.rot_v(e(0))), v3(self.rot_v(e(1))), v3(self.rot_v(e(2)))]
    }
    /// extra structural check (Matrix4: the homogeneous part is that of the identity)
    fn structure_ok(self) -> bool {
        true
    }
    /// largest deviation of the homogeneous part from the identity's (for results that went through a division)
    fn structure_dev(self) -> f64 {
        0.0
    }
    /// the representation's own components ("= one()" is an equation between values of the type: for a quaternion,
    /// -one() acts like one() but is not one())
    fn comps(self) -> Vec<T> {
        flat_m(self.mat()).to_vec()
    }
}
impl<T: Tier> Rep3<T> for Matrix3<T> {
    const NAME: &'static str = "Matrix3";
    const HALF_ANGLE: bool = false;
    fn axis_angle(a: Vector3<T>, r: Rad<T>) -> Self {
        Matrix3::from_axis_angle(a, r)
    }
    fn about(i: usize, r: Rad<T>) -> Self {
        match i {
            0 => Matrix3::from_angle_x(r),
            1 => Matrix3::from_angle_y(r),
            _ => Matrix3::from_angle_z(r),
        }
    }
    fn mul(self, o: Self) -> Self {
        self * o
    }
    fn inv(self) -> Self {
        self.invert().expect("rotation matrix must be invertible")
    }
    fn one() -> Self {
        One::one()
    }
    fn rot_v(self, v: Vector3<T>) -> Vector3<T> {
        self * v
    }
    fn rot_p(self, p: Point3<T>) -> Point3<T> {
        cgmath::Transform::<Point3<T>>::transform_point(&self, p)
    }
}
impl<T: Tier> Rep3<T> for Matrix4<T> {
    const NAME: &'static str = "Matrix4";
    const HALF_ANGLE: bool = false;
    fn axis_angle(a: Vector3<T>, r: Rad<T>) -> Self {
        Matrix4::from_axis_angle(a, r)
    }
    fn about(i: usize, r: Rad<T>) -> Self {
        match i {
            0 => Matrix4::from_angle_x(r),
            1 => Matrix4::from_angle_y(r),
            _ => Matrix4::from_angle_z(r),
        }
    }
    fn mul(self, o: Self) -> Self {
        self * o
    }
    fn inv(self) -> Self {
        self.invert().expect("rotation matrix must be invertible")
    }
    fn one() -> Self {
        One::one()
    }
    fn rot_v(self, v: Vector3<T>) -> Vector3<T> {
        cgmath::Transform::<Point3<T>>::transform_vector(&self, v)
    }
    fn rot_p(self, p: Point3<T>) -> Point3<T> {
        cgmath::Transform::<Point3<T>>::transform_point(&self, p)
    }
    fn structure_ok(self) -> bool {
        let a = m4(self);
        let (z, o) = (T::zero(), T::one());
        a[0][3] == z && a[1][3] == z && a[2][3] == z && a[3][0] == z && a[3][1] == z && a[3][2] == z && a[3][3] == o
    }
    fn structure_dev(self) -> f64 {
        let a = m4(self);
        [a[0][3].f(), a[1][3].f(), a[2][3].f(), a[3][0].f(), a[3][1].f(), a[3][2].f(), a[3][3].f() - 1.0].iter().fold(0.0f64, |m, x| if x.is_nan() { f64::INFINITY } else { m.max(x.abs()) })
    }
}
impl<T: Tier> Rep3<T> for Basis3<T> {
    const NAME: &'static str = "Basis3";
    const HALF_ANGLE: bool = false;
    fn axis_angle(a: Vector3<T>, r: Rad<T>) -> Self {
        Rotation3::from_axis_angle(a, r)
    }
    fn about(i: usize, r: Rad<T>) -> Self {
        match i {
            0 => Rotation3::from_angle_x(r),
            1 => Rotation3::from_angle_y(r),
            _ => Rotation3::from_angle_z(r),
        }
    }
    fn mul(self, o: Self) -> Self {
        self * o
    }
    fn inv(self) -> Self {
        Rotation::invert(&self)
    }
    fn one() -> Self {
        One::one()
    }
    fn rot_v(self, v: Vector3<T>) -> Vector3<T> {
        self.rotate_vector(v)
    }
    fn rot_p(self, p: Point3<T>) -> Point3<T> {
        self.rotate_point(p)
    }
}
impl<T: Tier> Rep3<T> for Quaternion<T> {
    const NAME: &'static str = "Quaternion";
    const HALF_ANGLE: bool = true;
    fn axis_angle(a: Vector3<T>, r: Rad<T>) -> Self {
        Rotation3::from_axis_angle(a, r)
    }
    fn about(i: usize, r: Rad<T>) -> Self {
        match i {
            0 => Rotation3::from_angle_x(r),
            1 => Rotation3::from_angle_y(r),
            _ => Rotation3::from_angle_z(r),
        }
    }
    fn mul(self, o: Self) -> Self {
        self * o
    }
    fn inv(self) -> Self {
        Rotation::invert(&self)
    }
    fn one() -> Self {
        One::one()
    }
    fn rot_v(self, v: Vector3<T>) -> Vector3<T> {
        self.rotate_vector(v)
    }
    fn rot_p(self, p: Point3<T>) -> Point3<T> {
        self.rotate_point(p)
    }
    fn comps(self) -> Vec<T> {
        qa(self).to_vec()
    }
}

fn probes<T: Tier>() -> Vec<[T; 3]> {
    let mut v: Vec<[T; 3]> = (0..3).map(|i| vec_from_r::<T, 3>(&alphabet::generic(3, i))).collect();
    // a long vector (a far point): with the small angles of the ladders, both factors of a "small angle and large vector" short cut
    v.push(vec_from_r::<T, 3>(&alphabet::generic(3, 1).iter().map(|r| (r.0 << 14, r.1)).collect::<Vec<_>>()));
    v
}

/// All clauses for one (axis, angle) in representation R. `ang` is the angle handed to the
/// constructor, `cs`/`cs2` the model's (cos, sin) of the angle and of twice the angle,
/// `theta` its radian measure (for the sense-of-rotation clause).
fn judge<T: Tier, R: Rep3<T>>(ctx: &mut Ctx, ax: [T; 3], ang: Rad<T>, cs: (T::M, T::M), cs2: (T::M, T::M), theta: f64, axis_index: Option<usize>, slack: f64) {
    let max = lift_v(ax);
    let r = R::axis_angle(mk_v3(ax), ang);
    // entries of a rotation matrix are sums of O(1) terms: a route through half angles (the quaternion) knows them to an
    // absolute, not a relative, rounding (the sine entries of axis-aligned rotations are judged relatively below)
    let want = model::axis_angle_mat(max, cs).map(|c| c.map(|x| x.with_abs_err(4.0)));
    let name = R::NAME;
    // maps every v to Rodrigues' formula
    eq_mc::<T, 3>(ctx, &key(&format!("from_axis_angle/{name}")), r.mat(), want, slack);
    for v in probes::<T>() {
        let rv = v3(r.rot_v(mk_v3(v)));
        eq_vc::<T, 3>(ctx, &key(&format!("from_axis_angle/{name}/rodrigues")), rv, model::rodrigues(max, cs, lift_v(v)), slack);
        // counter-clockwise about the axis for 0 < angle < pi
        let th = theta.rem_euclid(2.0 * PI);
        if th > 1e-3 && th < PI - 1e-3 {
            let axv = model::cross(max, lift_v(v));
            let sense = model::vdot(axv, lift_v(rv));
            ctx.check(sense.approx() > 0.0, &key(&format!("from_axis_angle/{name}/counter-clockwise")), || format!("(a x v).(R v) = {:?} for angle {theta}", sense));
        }
        // rotate_point(p) = rotate_vector(p - origin): the same numbers in the exact tier, the same up to rounding otherwise
        if T::EXACT {
            same_slice(ctx, &key(&format!("rotate_point/{name}")), &p3(r.rot_p(mk_p3(v))), &rv);
        } else {
            eq_vc::<T, 3>(ctx, &key(&format!("rotate_point/{name}")), p3(r.rot_p(mk_p3(v))), model::rodrigues(max, cs, lift_v(v)), slack);
        }
    }
    ctx.check(r.structure_ok(), &key(&format!("from_axis_angle/{name}/homogeneous-part")), || "fourth row/column is not that of the identity".to_string());
    // fixes the axis, orthonormal with determinant +1 (on the matrix of images)
    eq_vc::<T, 3>(ctx, &key(&format!("from_axis_angle/{name}/fixes-axis")), v3(r.rot_v(mk_v3(ax))), max.map(|x| x.with_abs_err(8.0)), slack);
    let m = r.mat();
    let mt = model::mmul(model::mtranspose(want), want);
    let id = model::mident::<T::M, 3>();
    let got_mtm = m3(mk_m3(m).transpose() * mk_m3(m));
    let idm: [[T::M; 3]; 3] = std::array::from_fn(|c| std::array::from_fn(|r| id[c][r].with_err_of(mt[c][r])));
    eq_mc::<T, 3>(ctx, &key(&format!("from_axis_angle/{name}/orthonormal")), got_mtm, idm, slack);
    eq_slice::<T>(ctx, &key(&format!("from_axis_angle/{name}/det+1")), &[mk_m3(m).determinant()], &[T::M::one().with_err_of(model::mdet(want))], slack);
    // from_angle_x/y/z equal from_axis_angle about the unit axes
    if let Some(i) = axis_index {
        let s = R::about(i, ang);
        eq_mc::<T, 3>(ctx, &key(&format!("from_angle_{}/{name}", ["x", "y", "z"][i])), s.mat(), want, slack);
        // the two sine entries of an axis-aligned rotation are +-sin(angle) itself in every representation (2 sin cos of the
        // half angle for the quaternion): known to a relative rounding, however small the angle
        let sm = s.mat();
        let (j, k) = ((i + 1) % 3, (i + 2) % 3);
        eq_slice::<T>(ctx, &key(&format!("from_angle_{}/{name}/sine-entries", ["x", "y", "z"][i])), &[sm[j][k], sm[k][j]], &[cs.1, -cs.1], slack);
        // ... and it is the same value of the type as from_axis_angle about the unit axis (up to rounding)
        let (sc, rc) = (s.comps(), r.comps());
        let rcm: Vec<T::M> = rc.iter().map(|x| x.lift().with_abs_err(4.0)).collect();
        eq_slice::<T>(ctx, &key(&format!("from_angle_{}/{name}/as-a-value", ["x", "y", "z"][i])), &sc, &rcm, slack);
        ctx.check(s.structure_ok(), &key(&format!("from_angle_{}/{name}/homogeneous-part", ["x", "y", "z"][i])), || "fourth row/column is not that of the identity".to_string());
    }
    // angles add under composition about a common axis; r * invert(r) = one()
    let rr = r.mul(r);
    eq_mc::<T, 3>(ctx, &key(&format!("compose/{name}/angles-add")), rr.mat(), model::axis_angle_mat(max, cs2).map(|c| c.map(|x| x.with_abs_err(8.0))), slack * 2.0);
    ctx.check(rr.structure_ok(), &key(&format!("compose/{name}/homogeneous-part")), || "r*r: fourth row/column is not that of the identity".to_string());
    let e = r.mul(r.inv());
    let dev = r.inv().structure_dev().max(e.structure_dev());
    ctx.check(dev <= if T::EXACT { 0.0 } else { 64.0 * T::U }, &key(&format!("compose/{name}/homogeneous-part")), || format!("invert(r) or r*invert(r): fourth row/column deviates from the identity's by {dev:e}"));
    let idw: [[T::M; 3]; 3] = std::array::from_fn(|c| std::array::from_fn(|r| id[c][r].with_abs_err(8.0)));
    eq_mc::<T, 3>(ctx, &key(&format!("compose/{name}/r*invert(r)=one")), e.mat(), idw, slack);
    if T::EXACT {
        same_slice(ctx, &key(&format!("compose/{name}/r*invert(r)=one")), &flat_m(e.mat()), &flat_m(R::one().mat()));
        same_slice(ctx, &key(&format!("compose/{name}/r*invert(r)=one/as-a-value")), &e.comps(), &R::one().comps());
        same_slice(ctx, &key(&format!("compose/{name}/r*invert(r)=one/as-a-value")), &r.inv().mul(r).comps(), &R::one().comps());
    } else {
        let onec: Vec<T::M> = R::one().comps().iter().map(|x| x.lift().with_abs_err(8.0)).collect();
        eq_slice::<T>(ctx, &key(&format!("compose/{name}/r*invert(r)=one/as-a-value")), &e.comps(), &onec, slack);
        eq_slice::<T>(ctx, &key(&format!("compose/{name}/r*invert(r)=one/as-a-value")), &r.inv().mul(r).comps(), &onec, slack);
    }
}

/// angles add under composition about a common axis: R(a, k) * R(a, k2) = R(a, k + k2), both orders
fn compose<R: Rep3<Ex>>(ctx: &mut Ctx, ax: [Ex; 3], k: i64, k2: i64) {
    let (a, b) = (R::axis_angle(mk_v3(ax), Rad(Ex::int(k))), R::axis_angle(mk_v3(ax), Rad(Ex::int(k2))));
    let want = model::axis_angle_mat(ax, ex::lattice_cs(k + k2));
    eq_mc::<Ex, 3>(ctx, &key(&format!("compose/{}/angles-add", R::NAME)), a.mul(b).mat(), want, 1.0);
    eq_mc::<Ex, 3>(ctx, &key(&format!("compose/{}/angles-add", R::NAME)), b.mul(a).mat(), want, 1.0);
    // and the inverse is the rotation by the opposite angle
    eq_mc::<Ex, 3>(ctx, &key(&format!("compose/{}/invert-is-opposite-angle", R::NAME)), a.inv().mat(), model::axis_angle_mat(ax, ex::lattice_cs(-k)), 1.0);
    // ... also as a value of the type: invert(R(a, k)) = R(a, -k) (a quaternion and its negative act alike)
    same_slice(ctx, &key(&format!("compose/{}/invert-is-opposite-angle/as-a-value", R::NAME)), &a.inv().comps(), &R::axis_angle(mk_v3(ax), Rad(Ex::int(-k))).comps());
}

fn exact(rep: &mut Report) {
    type T = Ex;
    let axes = alphabet::uv3(true);
    for li in 0..3 {
        let lat = &ex::lattices()[li];
        let kmax = lat.reach().min(8) / 2; // so that code 2k is also on the lattice
        let ks: Vec<i64> = (-kmax..=kmax).collect();
        set_lattice(Some(li));
        rep.cases(
            &format!("rodrigues/t={}/{}", lat.p, lat.q),
            "X",
            &format!("{} rational unit axes x lattice codes {:?} (even codes for the half-angle quaternion) x 3 probes x 4 representations; composition r*r and r*invert(r)", axes.len(), ks),
            axes.len() * ks.len(),
            Guard::states(100).distinct(100).inconclusive(0.02),
            |i, ctx| {
                let (ai, k) = (i / ks.len(), ks[i % ks.len()]);
                let (an, ad) = axes[ai];
                let ax: [T; 3] = std::array::from_fn(|j| T::q(an[j], ad));
                ctx.describe(|| format!("axis={:?}/{} angle code {k} ({:.4} rad)", an, ad, k as f64 * lat.delta));
                ctx.out(&(ai, k));
                let axis_index = if ad == 1 && an.iter().all(|x| *x >= 0) { an.iter().position(|x| *x == 1) } else { None };
                let theta = k as f64 * lat.delta;
                let (cs, cs2) = (ex::lattice_cs(k), ex::lattice_cs(2 * k));
                judge::<T, Matrix3<T>>(ctx, ax, Rad(T::int(k)), cs, cs2, theta, axis_index, 1.0);
                judge::<T, Matrix4<T>>(ctx, ax, Rad(T::int(k)), cs, cs2, theta, axis_index, 1.0);
                judge::<T, Basis3<T>>(ctx, ax, Rad(T::int(k)), cs, cs2, theta, axis_index, 1.0);
                if k % 2 == 0 {
                    ctx.branch("quaternion");
                    judge::<T, Quaternion<T>>(ctx, ax, Rad(T::int(k)), cs, cs2, theta, axis_index, 1.0);
                }
                for k2 in [1i64, -2, 3] {
                    compose::<Matrix3<T>>(ctx, ax, k, k2);
                    compose::<Matrix4<T>>(ctx, ax, k, k2);
                    compose::<Basis3<T>>(ctx, ax, k, k2);
                }
                if k % 2 == 0 {
                    for k2 in [2i64, -2, 4] {
                        compose::<Quaternion<T>>(ctx, ax, k, k2);
                    }
                }
                // 2-D
                let want2 = model::rot2(cs);
                same_slice(ctx, &key("from_angle/Matrix2"), &flat_m(m2(Matrix2::from_angle(Rad(T::int(k))))), &flat_m(want2));
                let b2: Basis2<T> = Rotation2::from_angle(Rad(T::int(k)));
                same_slice(ctx, &key("from_angle/Basis2"), &flat_m(basis2_arr(b2)), &flat_m(want2));
                same_slice(ctx, &key("from_angle/Basis2/(1,0)"), &v2(b2.rotate_vector(mk_v2([T::int(1), T::int(0)]))), &[cs.0, cs.1]);
                same_slice(ctx, &key("from_angle/Basis2/(0,1)"), &v2(b2.rotate_vector(mk_v2([T::int(0), T::int(1)]))), &[-cs.1, cs.0]);
                same_slice(ctx, &key("from_angle/Matrix2/(1,0)"), &v2(Matrix2::from_angle(Rad(T::int(k))) * mk_v2([T::int(1), T::int(0)])), &[cs.0, cs.1]);
                same_slice(ctx, &key("from_angle/Matrix2/(0,1)"), &v2(Matrix2::from_angle(Rad(T::int(k))) * mk_v2([T::int(0), T::int(1)])), &[-cs.1, cs.0]);
                let bb = b2 * b2;
                same_slice(ctx, &key("compose/Basis2/angles-add"), &flat_m(basis2_arr(bb)), &flat_m(model::rot2(cs2)));
                same_slice(ctx, &key("compose/Basis2/r*invert(r)=one"), &flat_m(basis2_arr(b2 * Rotation::invert(&b2))), &flat_m(model::mident::<T, 2>()));
                // two different angles, either order, and the identity on either side (a product that is right for equal
                // factors - r*r, r*invert(r) - need not be right for unequal ones)
                for k2 in [1i64, -2, 3] {
                    if (k + k2).abs() > lat.reach() {
                        continue;
                    }
                    let b2b: Basis2<T> = Rotation2::from_angle(Rad(T::int(k2)));
                    let want12 = model::rot2(ex::lattice_cs(k + k2));
                    same_slice(ctx, &key("compose/Basis2/angles-add/unequal"), &flat_m(basis2_arr(b2 * b2b)), &flat_m(want12));
                    same_slice(ctx, &key("compose/Basis2/angles-add/unequal"), &flat_m(basis2_arr(b2b * b2)), &flat_m(want12));
                }
                same_slice(ctx, &key("compose/Basis2/one-is-neutral"), &flat_m(basis2_arr(b2 * Basis2::one())), &flat_m(want2));
                same_slice(ctx, &key("compose/Basis2/one-is-neutral"), &flat_m(basis2_arr(Basis2::one() * b2)), &flat_m(want2));
                same_slice(ctx, &key("rotate_point/Basis2"), &p2(b2.rotate_point(mk_p2([T::int(3), T::q(-1, 2)]))), &v2(b2.rotate_vector(mk_v2([T::int(3), T::q(-1, 2)]))));
            },
        );
        set_lattice(None);
    }
}

/// float tiers on non-lattice angles, in radians and in degrees
fn floats<T: Tier + Dom<M = Sh>>(rep: &mut Report) {
    let axes = alphabet::uv3(true);
    let mut rads: Vec<f64> = vec![0.0, 1e-8, -1e-8, PI / 2.0, -PI / 2.0, PI, -PI, 1e3];
    // a ladder of small angles (a small-angle shortcut), neighbourhoods of the quarter, half and full turn, and angles
    // of many turns (an argument reduction by a rounded full turn): sin and cos are the real functions of the measure
    for k in 1..=7 {
        rads.push(10f64.powi(-k) * 3.0);
        rads.push(-(10f64.powi(-k)));
    }
    // ... and every second power of two down to 2^-40 (a band between two decades)
    for k in (2..=40).step_by(2) {
        rads.push(if k % 4 == 0 { 1.0 } else { -1.0 } * 2f64.powi(-k) * 1.25);
    }
    for c in [PI / 2.0, PI, 2.0 * PI] {
        for d in [1e-4, -1e-4, 1e-2] {
            rads.push(c + d);
            rads.push(-c + d);
        }
    }
    rads.extend([1e4, -1e4, 1e5, 123456.7]);
    if T::NAME == "D" {
        rads.extend([1e6, -1e7, 1e9]);
    }
    let jmax = rep.pick(20, 200);
    for j in 1..=jmax {
        rads.push(0.37 * j as f64 * 20.0 / jmax as f64);
        rads.push(-0.37 * j as f64 * 20.0 / jmax as f64);
    }
    let n_ang = rads.len();
    // axes next to a coordinate axis (either sense): what a tolerant "is this unit_x?" test would send down the
    // from_angle_x path, off by less than epsilon, by 2^-30 and by 2^-22
    let mut near_axes: Vec<[f64; 3]> = Vec::new();
    for k in 0..3 {
        for sg in [1.0, -1.0] {
            for d in [T::U / 64.0, 2f64.powi(-30), 2f64.powi(-22)] {
                let mut a = [0.0; 3];
                a[k] = sg;
                a[(k + 1) % 3] = d;
                a[(k + 2) % 3] = -d / 2.0;
                let n = (1.0 + 1.25 * d * d).sqrt();
                near_axes.push(a.map(|x| x / n));
            }
        }
    }
    let n_axes = axes.len() + near_axes.len();
    rep.cases(
        "rodrigues/native",
        T::NAME,
        &format!("{} rational unit axes (rounded) and {} axes next to a coordinate axis x {} angles in radians and the same in degrees x 3 probes x 4 representations", axes.len(), near_axes.len(), n_ang),
        n_axes * n_ang * 2,
        Guard::states(100).distinct(100),
        |i, ctx| {
            let (ai, rest) = (i / (n_ang * 2), i % (n_ang * 2));
            let (an, ad) = if ai < axes.len() { axes[ai] } else { ([0, 0, 0], 2) };
            let in_deg = rest >= n_ang;
            let th = rads[rest % n_ang];
            let ax: [T; 3] = if ai < axes.len() { std::array::from_fn(|j| T::q(an[j], ad)) } else { near_axes[ai - axes.len()].map(|x| num_traits::cast::<f64, T>(x).unwrap()) };
            // the angle value handed over, and its radian measure as the implementation sees it
            let (ang, rad_m): (Rad<T>, Sh) = if in_deg {
                let d: T = num_traits::cast::<f64, T>(th * 180.0 / PI).unwrap();
                (Deg(d).into(), Sh::exact(d.f()) * Sh::rounded(num_traits::cast::<f64, T>(PI / 180.0).unwrap().f()))
            } else {
                let r: T = num_traits::cast::<f64, T>(th).unwrap();
                (Rad(r), Sh::exact(r.f()))
            };
            ctx.describe(|| format!("axis={:?} angle {} {}", ax, if in_deg { th * 180.0 / PI } else { th }, if in_deg { "deg" } else { "rad" }));
            ctx.out(&(ai, rest));
            // when the angle came in degrees the conversion happened above through the public From impl
            let cs = rad_m.cos_sin();
            let two = Sh { v: 2.0 * rad_m.v, e: 2.0 * rad_m.e };
            let cs2 = two.cos_sin();
            let axis_defect = (model::vdot(lift_v(ax), lift_v(ax)).v - 1.0).abs();
            let slack = 4.0 + 8.0 * axis_defect / (T::U * K_TOL) + th.abs() * 0.0;
            let axis_index = if ad == 1 && an.iter().all(|x| *x >= 0) { an.iter().position(|x| *x == 1) } else { None };
            judge::<T, Matrix3<T>>(ctx, ax, ang, cs, cs2, th, axis_index, slack);
            judge::<T, Matrix4<T>>(ctx, ax, ang, cs, cs2, th, axis_index, slack);
            judge::<T, Basis3<T>>(ctx, ax, ang, cs, cs2, th, axis_index, slack);
            judge::<T, Quaternion<T>>(ctx, ax, ang, cs, cs2, th, axis_index, slack * 2.0);
            let want2 = model::rot2(cs);
            eq_mc::<T, 2>(ctx, &key("from_angle/Matrix2"), m2(Matrix2::from_angle(ang)), want2, slack);
            let b2: Basis2<T> = Rotation2::from_angle(ang);
            eq_mc::<T, 2>(ctx, &key("from_angle/Basis2"), basis2_arr(b2), want2, slack);
            if in_deg {
                // the Deg-typed entry points themselves (conversion inside the constructor)
                let d: T = num_traits::cast::<f64, T>(th * 180.0 / PI).unwrap();
                // (the same rotation: entries agree to the rounding of the angle, however each unit reduces its argument)
                let mut near = |name: &str, x: Vec<T>, y: Vec<T>| {
                    ctx.t();
                    let tol = 64.0 * T::U * (1.0 + th.abs());
                    if T::EXACT { same_slice(ctx, &key(name), &x, &y); } else if !x.iter().zip(y.iter()).all(|(p, q)| (p.f() - q.f()).abs() <= tol) {
                        ctx.fail(&key(name), || format!("built from Deg: {:?}, from the same angle in Rad: {:?}", x, y));
                    }
                };
                near("from_angle/Matrix2/Deg", flat_m(m2(Matrix2::from_angle(Deg(d)))), flat_m(m2(Matrix2::from_angle(ang))));
                near("from_axis_angle/Matrix3/Deg", flat_m(m3(Matrix3::from_axis_angle(mk_v3(ax), Deg(d)))), flat_m(m3(Matrix3::from_axis_angle(mk_v3(ax), ang))));
                let qd: Quaternion<T> = Rotation3::from_axis_angle(mk_v3(ax), Deg(d));
                let qr: Quaternion<T> = Rotation3::from_axis_angle(mk_v3(ax), ang);
                near("from_axis_angle/Quaternion/Deg", qa(qd).to_vec(), qa(qr).to_vec());
            }
        },
    );
}

/// long chains (f32): r = r * step repeated 2^18 times, as an animation loop does. The product of rotations about a
/// common axis is the rotation by the sum of the angles: orthonormal, determinant +1 - to the drift n roundings allow
fn long_chain(rep: &mut Report) {
    type T = f32;
    let steps: [f64; 3] = [0.000_873, 0.011, 0.37];
    let axes: [[f64; 3]; 2] = [[0.0, 0.0, 1.0], [2.0 / 7.0, 3.0 / 7.0, 6.0 / 7.0]];
    rep.cases(
        "long-chain/Basis3+Matrix3+Basis2",
        "F",
        "r = r * step, 2^18 times, for 3 step angles x 2 axes; orthonormality, determinant and accumulated angle at every power of two",
        steps.len() * axes.len(),
        Guard::states(6).distinct(6),
        |i, ctx| {
            let (th, ax) = (steps[i / axes.len()], axes[i % axes.len()]);
            ctx.describe(|| format!("step {th} rad about {:?}", ax));
            ctx.out(&i);
            let axis = mk_v3::<T>(ax.map(|x| x as f32));
            let step3: Basis3<T> = Rotation3::from_axis_angle(axis, Rad(th as f32));
            let stepm: Matrix3<T> = Matrix3::from_axis_angle(axis, Rad(th as f32));
            let step2: Basis2<T> = Rotation2::from_angle(Rad(th as f32));
            let (mut r3, mut rm, mut r2) = (step3, stepm, step2);
            let thf = (th as f32) as f64;
            for n in 2..=(1u32 << 18) {
                r3 = r3 * step3;
                rm = rm * stepm;
                r2 = r2 * step2;
                if n.is_power_of_two() {
                    let tol = 16.0 * n as f64 * <T as Tier>::U + 1e-5;
                    for (name, m) in [("Basis3", mk_m3(basis3_arr(r3))), ("Matrix3", rm)] {
                        ctx.t();
                        let g = m3(m.transpose() * m);
                        let dev = (0..3).flat_map(|c| (0..3).map(move |r| (c, r))).map(|(c, r)| (g[c][r] as f64 - if c == r { 1.0 } else { 0.0 }).abs()).fold(0.0, f64::max);
                        let det = m.determinant() as f64;
                        // the accumulated angle, from the trace: 1 + 2 cos(n theta)
                        let tr = (m.x.x + m.y.y + m.z.z) as f64;
                        let want_tr = 1.0 + 2.0 * (n as f64 * thf).cos();
                        if !(dev <= tol && (det - 1.0).abs() <= tol && (tr - want_tr).abs() <= 4.0 * tol) {
                            ctx.fail(&key(&format!("compose/{name}/long-chain")), || format!("after {n} products: orthonormality defect {dev:e}, determinant {det}, trace {tr} (rotation by n theta: {want_tr}); allowed {tol:e}"));
                        }
                    }
                    ctx.t();
                    let b = basis2_arr(r2);
                    let (c, sn) = ((n as f64 * thf).cos(), (n as f64 * thf).sin());
                    let dev2 = [(b[0][0] as f64 - c).abs(), (b[0][1] as f64 - sn).abs(), (b[1][0] as f64 + sn).abs(), (b[1][1] as f64 - c).abs()].iter().cloned().fold(0.0, f64::max);
                    if !(dev2 <= 4.0 * tol) {
                        ctx.fail(&key("compose/Basis2/long-chain"), || format!("after {n} products: {:?}, rotation by n theta has (cos, sin) = ({c}, {sn}); allowed {:e}", b, 4.0 * tol));
                    }
                }
            }
        },
    );
}

fn main() {
    let mut rep = Report::from_args(P);
    rep.assume("exact tier: angles are lattice codes k (angle k*delta with rational sine and cosine), axes rational points of the sphere; the quaternion constructor halves the angle, so it is explored on even codes; Deg is explored in the float tiers (its conversion factor is a radian constant)");
    rep.assume("float tiers: libm sin/cos of the radian measure as reference, running-error tolerance, axes rounded to the float type with their unit defect carried in the tolerance");
    exact(&mut rep);
    floats::<f64>(&mut rep);
    floats::<f32>(&mut rep);
    long_chain(&mut rep);
    std::process::exit(rep.finish());
}
