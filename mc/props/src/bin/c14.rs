//! C14 — lerp, nlerp and slerp interpolate with exact endpoints along the shortest path.
use cgmath::VectorSpace;
use mc_props::*;
use std::f64::consts::PI;

const P: &str = "C14";
fn key(s: &str) -> String {
    format!("{P}/{s}")
}

// ------------------------------------------------------------------ lerp
fn lerp_vec<D: Dom, V: VecN<D, N>, const N: usize>(rep: &mut Report) {
    let ts: Vec<R> = if D::INTEGER { if D::SIGNED { vec![(0, 1), (1, 1), (-1, 1), (3, 1)] } else { vec![(0, 1), (1, 1), (3, 1)] } } else { vec![(0, 1), (1, 1), (1, 2), (-1, 1), (3, 1)] };
    let l: Vec<R> = if D::INTEGER { if D::SIGNED { (-3..=3).map(|i| (i, 1)).collect() } else { (0..=3).map(|i| (i, 1)).collect() } } else { alphabet::A1.to_vec() };
    let k = rep.pick(2, 3);
    let dev = DevSpace::new(2 * N, l.len(), k);
    let nb = 3;
    let base = |v: usize| -> Vec<R> {
        if D::INTEGER {
            let pool: [i64; 5] = if D::SIGNED { [2, -3, 1, -2, 3] } else { [2, 3, 1, 2, 3] };
            (0..2 * N).map(|i| (pool[(i * (v + 1) + v) % 5], 1)).collect()
        } else {
            alphabet::generic(2 * N, v)
        }
    };
    rep.cases(
        &format!("lerp/{}", V::NAME),
        D::NAME,
        &format!("3 bases (a,b) x <= {k} deviations over {} letters x amounts {:?}", l.len(), ts),
        nb * dev.len() * ts.len(),
        Guard::states(30).distinct(10),
        |i, ctx| {
            let (ci, ti) = (i / ts.len(), i % ts.len());
            let r = deviate(&base(ci / dev.len()), &dev.get(ci % dev.len()), &l);
            let a: [D; N] = vec_from_r(&r[..N]);
            let b: [D; N] = vec_from_r(&r[N..]);
            let t: D = rq(ts[ti]);
            ctx.describe(|| format!("{}<{}> a={:?} b={:?} t={:?}", V::NAME, D::NAME, a, b, t));
            ctx.out(&(r.clone(), ti));
            if !D::SIGNED && (0..N).any(|j| b[j] < a[j]) {
                ctx.skip("b - a underflows an unsigned type");
                return;
            }
            let (ma, mb) = (lift_v(a), lift_v(b));
            let want = model::vadd(ma, model::vscale(model::vsub(mb, ma), t.lift()));
            if !want.iter().all(|m| D::representable(*m)) {
                ctx.skip("result not representable");
                return;
            }
            let got = V::mk(a).lerp(V::mk(b), t).arr();
            eq_v::<D, N>(ctx, &key("lerp"), got, want);
            if ts[ti] == (0, 1) {
                same_slice(ctx, &key("lerp/t=0-is-a"), &got, &a);
            }
            if ts[ti] == (1, 1) && D::EXACT {
                same_slice(ctx, &key("lerp/t=1-is-b"), &got, &b);
            }
        },
    );
}
fn lerp_other<T: Tier>(rep: &mut Report) {
    let ts: [R; 5] = [(0, 1), (1, 1), (1, 2), (-1, 1), (3, 1)];
    // bases 3..5: the second operand negated (negative dot product: lerp, unlike nlerp, never flips), 6: b = -a, 7: b = a
    let nb = 8;
    rep.cases(
        "lerp/Quaternion+Matrix2..4",
        T::NAME,
        "8 bases (a,b): 3 generic, the same with b negated, b = -a, b = a; x 5 amounts; Quaternion, Matrix2, Matrix3, Matrix4",
        nb * ts.len(),
        Guard::states(15).distinct(10),
        |i, ctx| {
            let (v, ti) = (i / ts.len(), i % ts.len());
            let t: T = rq(ts[ti]);
            let mut g = alphabet::generic(32, v % 3);
            if (3..6).contains(&v) {
                for k in [4usize, 5, 6, 7, 9, 10, 11, 12, 13, 14, 15, 16, 17, 18, 19, 20, 21, 22, 23, 24, 25, 26, 27, 28, 29, 30, 31] {
                    g[k] = (-g[k].0, g[k].1);
                }
            } else if v >= 6 {
                // second operand = +-first operand, for each of the slices used below
                let sg = if v == 6 { -1 } else { 1 };
                let h = g.clone();
                for k in 0..4 { g[4 + k] = (sg * h[k].0, h[k].1); }
                for k in 0..9 { g[9 + k] = (sg * h[k].0, h[k].1); }
                for k in 0..16 { g[16 + k] = (sg * h[k].0, h[k].1); }
            }
            ctx.describe(|| format!("base {v} t={:?}", t));
            ctx.out(&(v, ti));
            let mt = t.lift();
            let lerp_m = |a: &[T::M], b: &[T::M]| -> Vec<T::M> { a.iter().zip(b).map(|(x, y)| *x + (*y - *x) * mt).collect() };
            let (qa_, qb): ([T; 4], [T; 4]) = (vec_from_r(&g[..4]), vec_from_r(&g[4..8]));
            eq_slice::<T>(ctx, &key("lerp/Quaternion"), &qa(mk_q(qa_).lerp(mk_q(qb), t)), &lerp_m(&lift_v(qa_), &lift_v(qb)), 1.0);
            let (a2, b2): ([[T; 2]; 2], [[T; 2]; 2]) = (mat_from_r(&g[..4]), mat_from_r(&g[4..8]));
            eq_slice::<T>(ctx, &key("lerp/Matrix2"), &flat_m(m2(mk_m2(a2).lerp(mk_m2(b2), t))), &lerp_m(&model::mflat(lift_m(a2)), &model::mflat(lift_m(b2))), 1.0);
            let (a3, b3): ([[T; 3]; 3], [[T; 3]; 3]) = (mat_from_r(&g[..9]), mat_from_r(&g[9..18]));
            eq_slice::<T>(ctx, &key("lerp/Matrix3"), &flat_m(m3(mk_m3(a3).lerp(mk_m3(b3), t))), &lerp_m(&model::mflat(lift_m(a3)), &model::mflat(lift_m(b3))), 1.0);
            let (a4, b4): ([[T; 4]; 4], [[T; 4]; 4]) = (mat_from_r(&g[..16]), mat_from_r(&g[16..32]));
            eq_slice::<T>(ctx, &key("lerp/Matrix4"), &flat_m(m4(mk_m4(a4).lerp(mk_m4(b4), t))), &lerp_m(&model::mflat(lift_m(a4)), &model::mflat(lift_m(b4))), 1.0);
        },
    );
}
/// float tiers: end points a few roundings apart and large amounts. `lerp` is a + (b - a) t for every a, b: a
/// short cut for "b - a is zero" decided with a tolerance (the approximate `is_zero` of quaternions and matrices) returns
/// a where the statement moves by t (b - a)
fn lerp_near<T: Tier + Dom<M = Sh>>(rep: &mut Report) {
    // how far b is from a, component by component (relative, then absolute)
    let deltas: [(&str, f64, f64); 5] = [("2 roundings", 4.0 * T::U, 0.0), ("8 roundings", 16.0 * T::U, 0.0), ("epsilon/2 absolute", 0.0, T::U), ("1e-9 relative", 1e-9, 0.0), ("5e-7 absolute", 0.0, 5e-7)];
    let ts: [f64; 5] = [1.0, 0.5, 3.0, 1048576.0, 1099511627776.0];
    let nb = 3;
    rep.cases(
        "lerp/nearby-end-points",
        T::NAME,
        "3 generic a x 5 distances of b from a (a few roundings ... 5e-7, every component) x amounts {1, 1/2, 3, 2^20, 2^40}; Vector1-4, Quaternion, Matrix2-4",
        nb * deltas.len() * ts.len(),
        Guard::states(30).distinct(10),
        |i, ctx| {
            let d = alphabet::decode(i, &[nb, deltas.len(), ts.len()]);
            let g: Vec<T> = alphabet::generic(16, d[0]).iter().map(|&r| rq::<T>(r) / T::int(8)).collect();
            let (_, rel, abs) = deltas[d[1]];
            let c = |x: f64| num_traits::cast::<f64, T>(x).unwrap();
            // (a distance below the spacing of the floats at x becomes two roundings: b differs from a in every component)
            let h: Vec<T> = g.iter().enumerate().map(|(j, x)| {
                let y = c(x.f() * (1.0 + rel * (1 + j % 3) as f64) + abs * (1 + j % 2) as f64);
                if y == *x { c(x.f() * (1.0 + 4.0 * T::U)) } else { y }
            }).collect();
            let t: T = c(ts[d[2]]);
            ctx.describe(|| format!("b = a moved by {} in every component, t = {:?}, a = {:?}", deltas[d[1]].0, t, g));
            ctx.out(&d);
            assert!(g.iter().zip(&h).all(|(x, y)| x != y), "harness: b equals a in a component");
            let mt = t.lift();
            let mut judge = |name: &str, got: Vec<T>, n: usize| {
                let want: Vec<Sh> = (0..n).map(|j| g[j].lift() + (h[j].lift() - g[j].lift()) * mt).collect();
                eq_slice::<T>(ctx, &key(&format!("lerp/{name}/nearby")), &got, &want, 1.0);
                if ts[d[2]] == 1.0 {
                    // "hence b at t = 1": to a fraction of the distance between the end points (plus two roundings)
                    ctx.t();
                    let ok = (0..n).all(|j| (got[j].f() - h[j].f()).abs() <= 0.25 * (h[j].f() - g[j].f()).abs() + 4.0 * T::U * h[j].f().abs());
                    if !ok {
                        ctx.fail(&key(&format!("lerp/{name}/t=1-is-b")), || format!("lerp(a,b,1) = {:?}, b = {:?}", got, &h[..n]));
                    }
                }
            };
            let a = |n: usize| -> Vec<T> { g[..n].to_vec() };
            let b = |n: usize| -> Vec<T> { h[..n].to_vec() };
            let arr = |v: Vec<T>| -> [T; 4] { [v[0], v[1], v[2], v[3]] };
            judge("Vector1", v1(mk_v1([g[0]]).lerp(mk_v1([h[0]]), t)).to_vec(), 1);
            judge("Vector2", v2(mk_v2([g[0], g[1]]).lerp(mk_v2([h[0], h[1]]), t)).to_vec(), 2);
            judge("Vector3", v3(mk_v3([g[0], g[1], g[2]]).lerp(mk_v3([h[0], h[1], h[2]]), t)).to_vec(), 3);
            judge("Vector4", v4(mk_v4(arr(a(4))).lerp(mk_v4(arr(b(4))), t)).to_vec(), 4);
            judge("Quaternion", qa(mk_q(arr(a(4))).lerp(mk_q(arr(b(4))), t)).to_vec(), 4);
            let m = |v: &Vec<T>, n: usize| -> Vec<Vec<T>> { (0..n).map(|cc| v[cc * n..cc * n + n].to_vec()).collect() };
            let (ga, hb) = (g.clone(), h.clone());
            let m2a = |v: &Vec<T>| -> [[T; 2]; 2] { let x = m(v, 2); [[x[0][0], x[0][1]], [x[1][0], x[1][1]]] };
            let m3a = |v: &Vec<T>| -> [[T; 3]; 3] { let x = m(v, 3); std::array::from_fn(|cc| std::array::from_fn(|r| x[cc][r])) };
            let m4a = |v: &Vec<T>| -> [[T; 4]; 4] { let x = m(v, 4); std::array::from_fn(|cc| std::array::from_fn(|r| x[cc][r])) };
            judge("Matrix2", flat_m(m2(mk_m2(m2a(&ga)).lerp(mk_m2(m2a(&hb)), t))), 4);
            judge("Matrix3", flat_m(m3(mk_m3(m3a(&ga)).lerp(mk_m3(m3a(&hb)), t))), 9);
            judge("Matrix4", flat_m(m4(mk_m4(m4a(&ga)).lerp(mk_m4(m4a(&hb)), t))), 16);
        },
    );
}
fn lerp_all<D: Dom>(rep: &mut Report) {
    lerp_vec::<D, Vector1<D>, 1>(rep);
    lerp_vec::<D, Vector2<D>, 2>(rep);
    lerp_vec::<D, Vector3<D>, 3>(rep);
    lerp_vec::<D, Vector4<D>, 4>(rep);
}

// ------------------------------------------------------------------ exact lattice slerp
fn lattice(rep: &mut Report) {
    type T = Ex;
    let axes = alphabet::uv3(false);
    for li in [2usize, 3] {
        let lat = &ex::lattices()[li];
        let kmax = if li == 3 { 5 } else { 3 };
        let mut cases: Vec<(i64, i64, usize)> = Vec::new();
        for k in 1..=kmax {
            if (k as f64 * lat.delta) < PI / 2.0 {
                for j in 0..=k {
                    for ai in 0..axes.len() {
                        cases.push((k, j, ai));
                    }
                }
            }
        }
        set_lattice(Some(li));
        rep.cases(
            &format!("lattice-slerp/t={}/{}", lat.p, lat.q),
            "X",
            &format!("a = 1, b = (cos k delta, sin k delta * axis), amount j/k for k <= {kmax}, 0 <= j <= k, {} axes: slerp is exactly (cos j delta, sin j delta * axis)", axes.len()),
            cases.len(),
            Guard::states(50).distinct(30).inconclusive(0.25).need("slerp-regime", 20),
            |i, ctx| {
                let (k, j, ai) = cases[i];
                let (an, ad) = axes[ai];
                let ax: [T; 3] = std::array::from_fn(|q| T::q(an[q], ad));
                let (ck, sk) = ex::lattice_cs(k);
                let (cj, sj) = ex::lattice_cs(j);
                let a = mk_q([T::int(1), T::int(0), T::int(0), T::int(0)]);
                let b = mk_q([ck, sk * ax[0], sk * ax[1], sk * ax[2]]);
                let t = T::q(j, k);
                ctx.describe(|| format!("k={k} j={j} axis={:?}/{ad} (angle k*delta = {:.4} rad, amount {j}/{k})", an, k as f64 * lat.delta));
                ctx.out(&(k, j, ai));
                if ck > Ex::from_f64_exact(0.9995).unwrap() {
                    ctx.branch("nlerp-regime");
                } else {
                    ctx.branch("slerp-regime");
                }
                let r = a.slerp(b, t);
                same_slice(ctx, &key("slerp/constant-angular-speed"), &qa(r), &[cj, sj * ax[0], sj * ax[1], sj * ax[2]]);
                // endpoints and midpoint of nlerp where its normalisation is rational
                if j == 0 {
                    same_slice(ctx, &key("nlerp/t=0-is-a"), &qa(a.nlerp(b, t)), &qa(a));
                }
                if j == k {
                    same_slice(ctx, &key("nlerp/t=1-is-b"), &qa(a.nlerp(b, t)), &qa(b));
                }
                // (interior amounts of nlerp are not fixed by the statement beyond "unit, in the plane, on the shorter arc")
                if k % 2 == 0 && 2 * j == k {
                    let (ch, sh) = ex::lattice_cs(k / 2);
                    let r = qa(a.nlerp(b, t));
                    let n2 = r[0] * r[0] + r[1] * r[1] + r[2] * r[2] + r[3] * r[3];
                    same_slice(ctx, &key("nlerp/unit"), &[n2], &[Ex::int(1)]);
                    let _ = (ch, sh);
                }
            },
        );
        set_lattice(None);
    }
}

// ------------------------------------------------------------------ float tiers on the sphere
fn dot4(a: [f64; 4], b: [f64; 4]) -> f64 {
    (0..4).map(|i| a[i] * b[i]).sum()
}
fn norm4(a: [f64; 4]) -> f64 {
    dot4(a, a).sqrt()
}
fn sub4(a: [f64; 4], b: [f64; 4]) -> [f64; 4] {
    std::array::from_fn(|i| a[i] - b[i])
}
fn add4(a: [f64; 4], b: [f64; 4]) -> [f64; 4] {
    std::array::from_fn(|i| a[i] + b[i])
}
fn scale4(a: [f64; 4], s: f64) -> [f64; 4] {
    std::array::from_fn(|i| a[i] * s)
}
/// angle between two unit 4-vectors, well conditioned everywhere
fn ang4(a: [f64; 4], b: [f64; 4]) -> f64 {
    2.0 * norm4(sub4(a, b)).atan2(norm4(add4(a, b)))
}

const SPEED_C: f64 = 64.0; // the unchanged code needs between 1 and 4
fn sphere<T: Tier + Dom<M = Sh>>(rep: &mut Report) {
    let uq = if rep.quick() { alphabet::uq(0) } else { alphabet::uq(1) };
    let sub: Vec<_> = uq.iter().step_by(rep.pick(1, 5)).copied().collect();
    let axes = alphabet::uv3(false);
    // (cos theta, sin theta) of the constructed pairs: bracketing the 0.9995 threshold, and arcs so short that the dot
    // product rounds to 1 in f32 (theta < 2.4e-4) or even in f64 (theta < 1.5e-8) although b is not a
    let mut cosines: Vec<(f64, f64)> = [0.96, 0.99, 0.9990, 0.9994, 0.99949, 0.99951, 0.9996, 0.99999, 1.0, -0.9994, -0.99949, -0.99951, -0.9996, -1.0].iter().map(|&c: &f64| (c, (1.0 - c * c).max(0.0).sqrt())).collect();
    for th in [3e-4f64, 1.5e-4, 5e-5, 1e-6, 1e-8] {
        cosines.push((th.cos(), th.sin()));
        cosines.push((-th.cos(), th.sin()));
    }
    // amounts: every 64th, and ladders towards 0, 1/2 and 1 from both sides (a short cut for "the midpoint", "almost
    // there", "hardly started" has its band somewhere on them)
    let grain = rep.pick(64, 256);
    let mut ts: Vec<f64> = (0..=grain).map(|k| k as f64 / grain as f64).collect();
    for j in 7..=12 {
        let d = 2f64.powi(-j);
        ts.extend([d, 1.0 - d, 0.5 - d, 0.5 + d]);
    }
    for d in [0.3, 0.0123, 0.005, 0.004] {
        ts.extend([0.5 - d, 0.5 + d]);
    }
    ts.sort_by(|a, b| a.partial_cmp(b).unwrap());
    ts.dedup();
    let n_pairs = sub.len() * sub.len();
    let n_con = sub.len() * cosines.len();
    // nearly orthogonal pairs whose tiny dot product is computed exactly (one non-zero term)
    // (-0.0: the pair a = -e_p, b = e_q - 0.0 e_p, whose dot product is the negative zero: still "a.b >= 0")
    let eps_list: [f64; 8] = [0.0, -0.0, 1e-17, -1e-17, 1e-10, -1e-10, 3e-8, -3e-8];
    let n_orth = 12 * eps_list.len();
    rep.cases(
        "sphere",
        T::NAME,
        &format!("all {}x{} pairs of rational unit quaternions + {} constructed pairs b = a*R(axis, theta), (cos theta, sin theta) in {:?}; {} amounts (every 64th - thorough: 256th -, ladders towards 0, 1/2, 1); nlerp and slerp", sub.len(), sub.len(), n_con, cosines, ts.len()),
        n_pairs + n_con + n_orth,
        Guard::states(100).distinct(100).need("slerp-regime", 20).need("nlerp-regime", 5).need("negative-dot", 20).need("zero-dot", 1),
        |i, ctx| {
            let c = |x: f64| num_traits::cast::<f64, T>(x).unwrap();
            let (a, b): ([T; 4], [T; 4]) = if i >= n_pairs + n_con {
                // a = e_p, b = e_q + eps * e_p (p != q): a.b = eps exactly, |b| = 1 up to eps^2
                let j = i - n_pairs - n_con;
                let (pq, e) = (j / eps_list.len(), eps_list[j % eps_list.len()]);
                let (p, q) = (pq / 3, (pq / 3 + 1 + pq % 3) % 4);
                let mut av = [0.0f64; 4];
                let mut bv = [0.0f64; 4];
                av[p] = if e == 0.0 && e.is_sign_negative() { -1.0 } else { 1.0 };
                bv[q] = 1.0;
                bv[p] = if e == 0.0 { 0.0 } else { e };
                (av.map(c), bv.map(c))
            } else if i < n_pairs {
                let (x, y) = (sub[i / sub.len()], sub[i % sub.len()]);
                (std::array::from_fn(|j| T::q(x.0[j], x.1)), std::array::from_fn(|j| T::q(y.0[j], y.1)))
            } else {
                let j = i - n_pairs;
                let (x, (ct, st)) = (sub[j / cosines.len()], cosines[j % cosines.len()]);
                let (an, ad) = axes[j % axes.len()];
                let af: [f64; 4] = std::array::from_fn(|q| x.0[q] as f64 / x.1 as f64);
                let rot = [ct, st * an[0] as f64 / ad as f64, st * an[1] as f64 / ad as f64, st * an[2] as f64 / ad as f64];
                let bm = model::qmul(af.map(Sh::exact), rot.map(Sh::exact));
                let bf: [f64; 4] = bm.map(|s| s.v);
                let nb = norm4(bf);
                (std::array::from_fn(|q| c(af[q])), std::array::from_fn(|q| c(bf[q] / nb)))
            };
            ctx.describe(|| format!("a={:?} b={:?} (w,x,y,z)", a, b));
            ctx.out(&(a.map(|x| x.key()), b.map(|x| x.key())));
            let (af, bf): ([f64; 4], [f64; 4]) = (a.map(|x| x.f()), b.map(|x| x.f()));
            let (af, bf) = (scale4(af, 1.0 / norm4(af)), scale4(bf, 1.0 / norm4(bf)));
            let dot = dot4(af, bf);
            // shorter arc: towards b if a.b >= 0, else towards -b. When a.b is zero up to rounding, its
            // computed sign is noise and either arc (both a quarter turn) satisfies the statement.
            // "zero up to rounding": the dot product as the implementation evaluates it (in T) can differ from
            // the true one by a few u * (sum of |terms|); below that its sign is noise, above it is a fact
            let dsh = model::vdot::<Sh, 4>(a.map(|x| Sh::exact(x.f())), b.map(|x| Sh::exact(x.f())));
            // ... unless the dot product has at most one non-zero term: then every implementation computes it exactly,
            // and a.b = 0 means "a.b >= 0": the arc towards +b
            let terms = (0..4).filter(|&j| a[j].f() * b[j].f() != 0.0).count();
            let ambiguous = terms > 1 && dsh.v.abs() <= 8.0 * T::U * dsh.e;
            let dot = if ambiguous { dot } else { dsh.v };
            let cands: Vec<[f64; 4]> = if ambiguous { vec![bf, scale4(bf, -1.0)] } else if dot < 0.0 { vec![scale4(bf, -1.0)] } else { vec![bf] };
            if dot == 0.0 || ambiguous {
                ctx.branch("zero-dot");
            }
            if dot < 0.0 {
                ctx.branch("negative-dot");
            }
            let adot = dot.abs();
            let guard = 64.0 * T::U;
            let regime = if adot > 0.9995 + guard { "nlerp-regime" } else if adot <= 0.9995 - guard { "slerp-regime" } else { "threshold-band" };
            ctx.branch(regime);
            let base_tol = K_TOL * T::U * 16.0;
            for t in ts.iter().copied() {
                for (name, r) in [("nlerp", mk_q(a).nlerp(mk_q(b), c(t))), ("slerp", mk_q(a).slerp(mk_q(b), c(t)))] {
                    let rf: [f64; 4] = qa(r).map(|x| x.f());
                    ctx.tn(6);
                    // all clauses for one admissible choice of the far endpoint
                    let eval = |bs: [f64; 4]| -> Vec<(String, String)> {
                        let mut fails: Vec<(String, String)> = Vec::new();
                        let whole = ang4(af, bs);
                        if !((norm4(rf) - 1.0).abs() <= base_tol) {
                            fails.push((format!("{name}/unit"), format!("|{name}(a,b,{t})| = {}", norm4(rf))));
                        }
                        let rn = scale4(rf, 1.0 / norm4(rf));
                        let e2 = sub4(bs, scale4(af, dot4(af, bs)));
                        let ne2 = norm4(e2);
                        if ne2 > 1e-4 {
                            let e2 = scale4(e2, 1.0 / ne2);
                            let off = sub4(sub4(rn, scale4(af, dot4(rn, af))), scale4(e2, dot4(rn, e2)));
                            if !(norm4(off) <= base_tol / ne2) {
                                fails.push((format!("{name}/coplanar"), format!("{name}(a,b,{t}) leaves the plane of a and b by {:e}", norm4(off))));
                            }
                        }
                        let (d1, d2) = (ang4(af, rn), ang4(rn, bs));
                        if !(d1 + d2 <= whole + base_tol * 4.0 + 1e-12) {
                            fails.push((format!("{name}/on-shorter-arc"), format!("angle(a,r) + angle(r,+-b) = {} > angle(a,+-b) = {whole} at t = {t}", d1 + d2)));
                        }
                        // endpoints: a handful of roundings, not the accumulated tolerance of the arc clauses
                        // (below the threshold, where the arc is recovered through acos and sin, the same conditioning applies)
                        // (next to the threshold an implementation may still take the arc route: same conditioning, capped by the
                        // statement's own bound there)
                        let end_tol = if name == "slerp" { (64.0 * T::U * (1.0 + 0.125 / whole.sin().abs().max(1e-3))).min(if regime == "nlerp-regime" { 1e-5 } else { f64::INFINITY }) } else { 64.0 * T::U };
                        if t == 0.0 && !(norm4(sub4(rn, af)) <= end_tol) {
                            fails.push((format!("{name}/t=0-is-a"), format!("{name}(a,b,0) = {:?}", rf)));
                        }
                        if t == 1.0 && !(norm4(sub4(rn, bs)) <= end_tol) {
                            fails.push((format!("{name}/t=1-is-+-b"), format!("{name}(a,b,1) = {:?}, expected {:?}", rf, bs)));
                        }
                        if name == "slerp" {
                            let want = t * whole;
                            let tol = match regime {
                                // exact up to the conditioning of acos / sin at small and large arcs
                                // a dot product good to a few roundings fixes the arc to (a few roundings) / sin(arc)
                                "slerp-regime" => SPEED_C * T::U * (4.0 + 1.0 / whole.sin().abs().max(1e-3)),
                                _ => 1e-5,
                            };
                            if !((d1 - want).abs() <= tol) {
                                fails.push((format!("slerp/constant-angular-speed/{regime}"), format!("arc from a to slerp(a,b,{t}) is {d1}, expected {t} * {whole} = {want} (tolerance {tol:e}, a.b = {dot})")));
                            }
                        }
                        fails
                    };
                    let results: Vec<Vec<(String, String)>> = cands.iter().map(|bs| eval(*bs)).collect();
                    if !results.iter().any(|f| f.is_empty()) {
                        let (k, m) = results[0][0].clone();
                        ctx.fail(&key(&k), || m);
                    }
                }
            }
        },
    );
}

fn main() {
    let mut rep = Report::from_args(P);
    rep.assume("exact tier: slerp from the identity to a lattice rotation with amount j/k is an equality (constant angular speed with no tolerance); float tiers: unit length, coplanarity, shorter arc, endpoints and the arc-length clause on rational and constructed pairs bracketing the 0.9995 threshold (0.9994 / 0.9996, both signs)");
    set_lattice(None);
    for_all_doms!(lerp_all, &mut rep);
    lerp_other::<Ex>(&mut rep);
    lerp_other::<f64>(&mut rep);
    lerp_other::<f32>(&mut rep);
    lerp_near::<f64>(&mut rep);
    lerp_near::<f32>(&mut rep);
    lattice(&mut rep);
    sphere::<f64>(&mut rep);
    sphere::<f32>(&mut rep);
    std::process::exit(rep.finish());
}
