//! C01 — column-major, column-vector convention; matrices form a ring acting linearly.
use cgmath::Transform;
use mc_props::*;

const P: &str = "C01";

fn key(s: &str) -> String {
    format!("{P}/{s}")
}

/// layout: constructors, element access, row/transpose/diagonal/trace, diagonal constructors
fn layout<T: Tier, M: MatN<T, N>, const N: usize>(rep: &mut Report) {
    let k = rep.pick(2, 3);
    let letters = alphabet::A1;
    let dev = DevSpace::new(N * N, letters.len(), k);
    let nb = 3;
    let total = nb * dev.len();
    let name = format!("layout/{}", M::NAME);
    rep.cases(
        &name,
        T::NAME,
        &format!("3 generic bases, <= {k} deviations over A1 ({} letters), {} positions", letters.len(), N * N),
        total,
        Guard::states(50).distinct(40),
        |i, ctx| {
            let (bi, di) = (i / dev.len(), i % dev.len());
            let base = alphabet::generic(N * N, bi);
            let r = deviate(&base, &dev.get(di), &letters);
            let e: [[T; N]; N] = mat_from_r(&r);
            let me = lift_m(e);
            ctx.describe(|| format!("{} entries[col][row]={:?}", M::NAME, e));
            // constructors store exactly the given elements
            let a = M::new_flat(e);
            same_slice(ctx, &key("layout/new"), &flat_m(a.arr()), &flat_m(e));
            let b = M::from_cols_arr(e);
            same_slice(ctx, &key("layout/from_cols"), &flat_m(b.arr()), &flat_m(e));
            let c = M::from_nested(e);
            same_slice(ctx, &key("layout/from_array"), &flat_m(c.arr()), &flat_m(e));
            ctx.out(&flat_m(e).iter().map(|x| x.key()).collect::<Vec<_>>());
            // element (column c, row r) through indexing
            let mut idx = Vec::new();
            for c in 0..N {
                for r in 0..N {
                    idx.push(a[c][r]);
                }
            }
            same_slice(ctx, &key("layout/index"), &idx, &flat_m(e));
            for r in 0..N {
                eq_v::<T, N>(ctx, &key("row"), a.row(r).arr(), model::mrow(me, r));
            }
            eq_m::<T, N>(ctx, &key("transpose"), a.transpose().arr(), model::mtranspose(me));
            eq_v::<T, N>(ctx, &key("diagonal"), a.diagonal().arr(), model::mdiag(me));
            eq_s::<T>(ctx, &key("trace"), a.trace(), model::mtrace(me));
            // diagonal constructors, judged by their elements and by their action on a vector
            let s = e[0][0];
            let d: [T; N] = e[N - 1];
            let v: [T; N] = e[0];
            let mv = lift_v(v);
            eq_m::<T, N>(ctx, &key("identity"), M::identity().arr(), model::mident());
            eq_m::<T, N>(ctx, &key("from_value"), M::from_value(s).arr(), model::mscale(model::mident(), s.lift()));
            eq_v::<T, N>(ctx, &key("from_value/action"), (M::from_value(s) * M::V::mk(v)).arr(), model::vscale(mv, s.lift()));
            let md = lift_v(d);
            let mut dm = model::mzero::<T::M, N>();
            for j in 0..N {
                dm[j][j] = md[j];
            }
            eq_m::<T, N>(ctx, &key("from_diagonal"), M::from_diagonal(M::V::mk(d)).arr(), dm);
            let scaled: [T::M; N] = std::array::from_fn(|j| md[j] * mv[j]);
            eq_v::<T, N>(ctx, &key("from_diagonal/action"), (M::from_diagonal(M::V::mk(d)) * M::V::mk(v)).arr(), scaled);
            eq_v::<T, N>(ctx, &key("identity/action"), (M::identity() * M::V::mk(v)).arr(), mv);
        },
    );
}

/// embeddings of smaller matrices and the homogeneous scale/translation constructors,
/// judged by their action on points and vectors through the three matrix Transform impls
fn homogeneous<T: Tier>(rep: &mut Report) {
    let k = rep.pick(2, 3);
    let letters = alphabet::A1;
    // slots: 9 matrix entries (3x3 block), 3 scale factors, 3 translation, 3 probe point, 3 probe vector
    let slots = 9 + 3 + 3 + 3 + 3;
    let dev = DevSpace::new(slots, letters.len(), k);
    let nb = 3;
    rep.cases(
        "homogeneous",
        T::NAME,
        &format!("3 generic bases x <= {k} deviations over A1, {slots} slots (block, scale, offset, point, vector)"),
        nb * dev.len(),
        Guard::states(50).distinct(40),
        |i, ctx| {
            let (bi, di) = (i / dev.len(), i % dev.len());
            let base = alphabet::generic(slots, bi);
            let r = deviate(&base, &dev.get(di), &letters);
            let e3: [[T; 3]; 3] = mat_from_r(&r[0..9]);
            let e2: [[T; 2]; 2] = [[e3[0][0], e3[0][1]], [e3[1][0], e3[1][1]]];
            let sc: [T; 3] = vec_from_r(&r[9..12]);
            let tr: [T; 3] = vec_from_r(&r[12..15]);
            let pt: [T; 3] = vec_from_r(&r[15..18]);
            let vc: [T; 3] = vec_from_r(&r[18..21]);
            ctx.describe(|| format!("block={:?} scale={:?} offset={:?} point={:?} vector={:?}", e3, sc, tr, pt, vc));
            ctx.out(&r);
            let (m3e, m2e) = (lift_m(e3), lift_m(e2));
            // embeddings read and write exactly the top-left block of an identity
            let a2 = mk_m2(e2);
            let a3 = mk_m3(e3);
            eq_m::<T, 3>(ctx, &key("embed/2->3"), m3(Matrix3::from(a2)), model::embed::<_, 2, 3>(m2e));
            eq_m::<T, 4>(ctx, &key("embed/2->4"), m4(Matrix4::from(a2)), model::embed::<_, 2, 4>(m2e));
            eq_m::<T, 4>(ctx, &key("embed/3->4"), m4(Matrix4::from(a3)), model::embed::<_, 3, 4>(m3e));
            let (msc, mtr, mpt, mvc) = (lift_v(sc), lift_v(tr), lift_v(pt), lift_v(vc));
            // --- Matrix4 acting on Point3 / Vector3
            let p = mk_p3(pt);
            let v = mk_v3(vc);
            let t4 = Matrix4::from_translation(mk_v3(tr));
            eq_v::<T, 3>(ctx, &key("Matrix4::from_translation/point"), p3(t4.transform_point(p)), model::vadd(mpt, mtr));
            eq_v::<T, 3>(ctx, &key("Matrix4::from_translation/vector"), v3(t4.transform_vector(v)), mvc);
            let s4 = Matrix4::from_scale(sc[0]);
            eq_v::<T, 3>(ctx, &key("Matrix4::from_scale/point"), p3(s4.transform_point(p)), model::vscale(mpt, msc[0]));
            eq_v::<T, 3>(ctx, &key("Matrix4::from_scale/vector"), v3(s4.transform_vector(v)), model::vscale(mvc, msc[0]));
            let n4 = Matrix4::from_nonuniform_scale(sc[0], sc[1], sc[2]);
            let sp: [T::M; 3] = std::array::from_fn(|j| msc[j] * mpt[j]);
            let sv: [T::M; 3] = std::array::from_fn(|j| msc[j] * mvc[j]);
            eq_v::<T, 3>(ctx, &key("Matrix4::from_nonuniform_scale/point"), p3(n4.transform_point(p)), sp);
            eq_v::<T, 3>(ctx, &key("Matrix4::from_nonuniform_scale/vector"), v3(n4.transform_vector(v)), sv);
            // the same constructors judged on full homogeneous coordinates: (p,1) -> (p',1), (v,0) -> (v',0); the points
            // and directions span the space, so this fixes every element (transform_point drops w and cannot see row 3)
            {
                let one = T::M::one();
                let zero = T::M::zero();
                let hp = mk_v4([pt[0], pt[1], pt[2], T::one()]);
                let hv = mk_v4([vc[0], vc[1], vc[2], T::zero()]);
                for (nm, m, ep, ev) in [
                    ("Matrix4::from_translation", t4, model::vadd(mpt, mtr), mvc),
                    ("Matrix4::from_scale", s4, model::vscale(mpt, msc[0]), model::vscale(mvc, msc[0])),
                    ("Matrix4::from_nonuniform_scale", n4, sp, sv),
                ] {
                    eq_v::<T, 4>(ctx, &key(&format!("{nm}/homogeneous-point")), v4(m * hp), model::extend::<_, 3, 4>(ep, one));
                    eq_v::<T, 4>(ctx, &key(&format!("{nm}/homogeneous-vector")), v4(m * hv), model::extend::<_, 3, 4>(ev, zero));
                }
            }
            // general Matrix4 = embedded block then translation: column-vector convention
            let g4 = t4 * Matrix4::from(a3);
            let lin_p = model::mvec(m3e, mpt);
            let lin_v = model::mvec(m3e, mvc);
            eq_v::<T, 3>(ctx, &key("Matrix4/transform_point"), p3(g4.transform_point(p)), model::vadd(lin_p, mtr));
            eq_v::<T, 3>(ctx, &key("Matrix4/transform_vector"), v3(g4.transform_vector(v)), lin_v);
            let h = g4 * mk_v4([pt[0], pt[1], pt[2], T::one()]);
            let exp_h: [T::M; 4] = model::extend::<_, 3, 4>(model::vadd(lin_p, mtr), T::M::one());
            eq_v::<T, 4>(ctx, &key("Matrix4/mul_homogeneous"), v4(h), exp_h);
            // concat(s, t) = s * t
            let c4 = Transform::<Point3<T>>::concat(&t4, &n4);
            eq_v::<T, 3>(ctx, &key("Matrix4/concat"), p3(c4.transform_point(p)), model::vadd(sp, mtr));
            eq_m::<T, 4>(ctx, &key("Matrix4/concat=product"), m4(c4), model::mmul(lift_m(m4(t4)), lift_m(m4(n4))));
            let c4g = Transform::<Point3<T>>::concat(&g4, &n4);
            eq_m::<T, 4>(ctx, &key("Matrix4/concat=product"), m4(c4g), model::mmul(lift_m(m4(g4)), lift_m(m4(n4))));
            // both operands without special structure (no zero entry, bottom row not 0 0 0 1): a generic 4x4 from the slots
            let gen4 = mk_m4([[e3[0][0], e3[0][1], e3[0][2], sc[0]], [e3[1][0], e3[1][1], e3[1][2], sc[1]], [e3[2][0], e3[2][1], e3[2][2], sc[2]], [tr[0], tr[1], tr[2], pt[0]]]);
            let gen4b = mk_m4([[vc[0], pt[1], tr[2], e3[2][0]], [pt[2], vc[1], e3[0][1], tr[0]], [sc[1], e3[1][2], vc[2], pt[0]], [e3[2][2], sc[2], tr[1], e3[1][0]]]);
            eq_m::<T, 4>(ctx, &key("Matrix4/concat=product"), m4(Transform::<Point3<T>>::concat(&gen4, &gen4b)), model::mmul(lift_m(m4(gen4)), lift_m(m4(gen4b))));
            let gen3b = mk_m3([[vc[0], pt[1], tr[2]], [pt[2], vc[1], sc[0]], [sc[1], tr[0], vc[2]]]);
            eq_m::<T, 3>(ctx, &key("Matrix3<P3>/concat=product"), m3(Transform::<Point3<T>>::concat(&a3, &gen3b)), model::mmul(m3e, lift_m(m3(gen3b))));
            eq_m::<T, 3>(ctx, &key("Matrix3<P2>/concat=product"), m3(Transform::<Point2<T>>::concat(&a3, &gen3b)), model::mmul(m3e, lift_m(m3(gen3b))));
            // Matrix3 as a transform of 3-space: concat is the matrix product, in this order
            let a3t = a3.transpose();
            let c33 = Transform::<Point3<T>>::concat(&a3, &a3t);
            eq_m::<T, 3>(ctx, &key("Matrix3<P3>/concat=product"), m3(c33), model::mmul(m3e, model::mtranspose(m3e)));
            let c33r = Transform::<Point3<T>>::concat(&a3t, &a3);
            eq_m::<T, 3>(ctx, &key("Matrix3<P3>/concat=product"), m3(c33r), model::mmul(model::mtranspose(m3e), m3e));
            // --- Matrix3 acting on Point3 / Vector3 (pure linear)
            eq_v::<T, 3>(ctx, &key("Matrix3<P3>/transform_point"), p3(Transform::<Point3<T>>::transform_point(&a3, p)), lin_p);
            eq_v::<T, 3>(ctx, &key("Matrix3<P3>/transform_vector"), v3(Transform::<Point3<T>>::transform_vector(&a3, v)), lin_v);
            // --- Matrix3 acting on Point2 / Vector2 (homogeneous 2-D)
            let q = mk_p2([pt[0], pt[1]]);
            let w = mk_v2([vc[0], vc[1]]);
            let (mq, mw): ([T::M; 2], [T::M; 2]) = ([mpt[0], mpt[1]], [mvc[0], mvc[1]]);
            let mtr2: [T::M; 2] = [mtr[0], mtr[1]];
            let t3 = Matrix3::from_translation(mk_v2([tr[0], tr[1]]));
            eq_v::<T, 2>(ctx, &key("Matrix3::from_translation/point"), p2(Transform::<Point2<T>>::transform_point(&t3, q)), model::vadd(mq, mtr2));
            eq_v::<T, 2>(ctx, &key("Matrix3::from_translation/vector"), v2(Transform::<Point2<T>>::transform_vector(&t3, w)), mw);
            let s3 = Matrix3::from_scale(sc[0]);
            eq_v::<T, 2>(ctx, &key("Matrix3::from_scale/point"), p2(Transform::<Point2<T>>::transform_point(&s3, q)), model::vscale(mq, msc[0]));
            eq_v::<T, 2>(ctx, &key("Matrix3::from_scale/vector"), v2(Transform::<Point2<T>>::transform_vector(&s3, w)), model::vscale(mw, msc[0]));
            let n3 = Matrix3::from_nonuniform_scale(sc[0], sc[1]);
            let sq: [T::M; 2] = [msc[0] * mq[0], msc[1] * mq[1]];
            let sw: [T::M; 2] = [msc[0] * mw[0], msc[1] * mw[1]];
            eq_v::<T, 2>(ctx, &key("Matrix3::from_nonuniform_scale/point"), p2(Transform::<Point2<T>>::transform_point(&n3, q)), sq);
            eq_v::<T, 2>(ctx, &key("Matrix3::from_nonuniform_scale/vector"), v2(Transform::<Point2<T>>::transform_vector(&n3, w)), sw);
            {
                let one = T::M::one();
                let zero = T::M::zero();
                let hq = mk_v3([pt[0], pt[1], T::one()]);
                let hw = mk_v3([vc[0], vc[1], T::zero()]);
                for (nm, m, ep, ev) in [
                    ("Matrix3::from_translation", t3, model::vadd(mq, mtr2), mw),
                    ("Matrix3::from_scale", s3, model::vscale(mq, msc[0]), model::vscale(mw, msc[0])),
                    ("Matrix3::from_nonuniform_scale", n3, sq, sw),
                ] {
                    eq_v::<T, 3>(ctx, &key(&format!("{nm}/homogeneous-point")), v3(m * hq), model::extend::<_, 2, 3>(ep, one));
                    eq_v::<T, 3>(ctx, &key(&format!("{nm}/homogeneous-vector")), v3(m * hw), model::extend::<_, 2, 3>(ev, zero));
                }
            }
            let g3 = t3 * Matrix3::from(a2);
            let lq = model::mvec(m2e, mq);
            let lw = model::mvec(m2e, mw);
            eq_v::<T, 2>(ctx, &key("Matrix3<P2>/transform_point"), p2(Transform::<Point2<T>>::transform_point(&g3, q)), model::vadd(lq, mtr2));
            eq_v::<T, 2>(ctx, &key("Matrix3<P2>/transform_vector"), v2(Transform::<Point2<T>>::transform_vector(&g3, w)), lw);
            let c3 = Transform::<Point2<T>>::concat(&t3, &n3);
            eq_v::<T, 2>(ctx, &key("Matrix3<P2>/concat"), p2(Transform::<Point2<T>>::transform_point(&c3, q)), model::vadd(sq, mtr2));
            eq_m::<T, 3>(ctx, &key("Matrix3<P2>/concat=product"), m3(c3), model::mmul(lift_m(m3(t3)), lift_m(m3(n3))));
            let c3g = Transform::<Point2<T>>::concat(&g3, &n3);
            eq_m::<T, 3>(ctx, &key("Matrix3<P2>/concat=product"), m3(c3g), model::mmul(lift_m(m3(g3)), lift_m(m3(n3))));
        },
    );
}

/// bilinear: all 0/1 operand pairs with at most two ones in total — decides the product
/// formulas for every implementation that is bilinear in its operands (DESIGN 2.6)
fn bilinear<T: Tier, M: MatN<T, N>, const N: usize>(rep: &mut Report) {
    let sp = SparseSpace::new(2 * N * N, 2, false);
    let name = format!("bilinear/{}", M::NAME);
    rep.cases(
        &name,
        T::NAME,
        &format!("all 0/1 assignments to the {} entries of (A,B) with <= 2 ones", 2 * N * N),
        sp.len(),
        Guard::states(30).distinct(5),
        |i, ctx| {
            let bits = sp.get(i);
            let r: Vec<R> = bits.iter().map(|&b| (b, 1)).collect();
            let a: [[T; N]; N] = mat_from_r(&r[..N * N]);
            let b: [[T; N]; N] = mat_from_r(&r[N * N..]);
            ctx.describe(|| format!("A={:?} B={:?}", a, b));
            ctx.out(&bits);
            eq_m::<T, N>(ctx, &key("mul_matrix"), (M::mk(a) * M::mk(b)).arr(), model::mmul(lift_m(a), lift_m(b)));
        },
    );
    let sp = SparseSpace::new(N * N + N, 2, false);
    let name = format!("bilinear-vec/{}", M::NAME);
    rep.cases(
        &name,
        T::NAME,
        &format!("all 0/1 assignments to the {} entries of (A,v) with <= 2 ones", N * N + N),
        sp.len(),
        Guard::states(10).distinct(3),
        |i, ctx| {
            let bits = sp.get(i);
            let r: Vec<R> = bits.iter().map(|&b| (b, 1)).collect();
            let a: [[T; N]; N] = mat_from_r(&r[..N * N]);
            let v: [T; N] = vec_from_r(&r[N * N..]);
            ctx.describe(|| format!("A={:?} v={:?}", a, v));
            ctx.out(&bits);
            eq_v::<T, N>(ctx, &key("mul_vector"), (M::mk(a) * M::V::mk(v)).arr(), model::mvec(lift_m(a), lift_v(v)));
        },
    );
}

/// generic: dense, pairwise-distinct operands with bounded deviations; all ring operations
fn generic<T: Tier, M: MatN<T, N>, const N: usize>(rep: &mut Report) {
    let k = rep.pick(2, 3);
    // the 4x4 case has 37 slots: three deviations over the 10-letter alphabet would be 7.8e6 cases per base
    let letters: &[R] = if rep.quick() || N == 4 { &alphabet::A1 } else { &alphabet::A2 };
    let slots = 2 * N * N + N + 1; // A, B, v, s
    let dev = DevSpace::new(slots, letters.len(), k);
    let nb = 3;
    let name = format!("generic/{}", M::NAME);
    rep.cases(
        &name,
        T::NAME,
        &format!("3 generic bases (A,B,v,s) x <= {k} deviations over {} letters in {slots} slots", letters.len()),
        nb * dev.len(),
        Guard::states(50).distinct(40),
        |i, ctx| {
            let (bi, di) = (i / dev.len(), i % dev.len());
            let base = alphabet::generic(slots, bi);
            let r = deviate(&base, &dev.get(di), letters);
            let a: [[T; N]; N] = mat_from_r(&r[..N * N]);
            let b: [[T; N]; N] = mat_from_r(&r[N * N..2 * N * N]);
            let v: [T; N] = vec_from_r(&r[2 * N * N..2 * N * N + N]);
            let s: T = rq(r[2 * N * N + N]);
            ctx.describe(|| format!("A={:?} B={:?} v={:?} s={:?}", a, b, v, s));
            ctx.out(&r);
            let (ma, mb, mv, ms) = (lift_m(a), lift_m(b), lift_v(v), s.lift());
            let (ca, cb, cv) = (M::mk(a), M::mk(b), M::V::mk(v));
            let prod = ca * cb;
            eq_m::<T, N>(ctx, &key("mul_matrix"), prod.arr(), model::mmul(ma, mb));
            eq_v::<T, N>(ctx, &key("mul_vector"), (ca * cv).arr(), model::mvec(ma, mv));
            // "all by-value/by-reference operand forms": each of them is the product (C17 compares the spellings with one
            // another; here each is held to the convention itself)
            for (f, p) in ["&a*b", "a*&b", "&a*&b"].iter().zip(M::mul_forms(ca, cb)) {
                eq_m::<T, N>(ctx, &key(&format!("mul_matrix/{f}")), p.arr(), model::mmul(ma, mb));
            }
            for (f, p) in ["&a*v", "a*&v", "&a*&v"].iter().zip(M::mulv_forms(ca, cv)) {
                eq_v::<T, N>(ctx, &key(&format!("mul_vector/{f}")), p.arr(), model::mvec(ma, mv));
            }
            // column c of A*B equals A*(column c of B)
            for c in 0..N {
                let col = ca * M::V::mk(b[c]);
                eq_v::<T, N>(ctx, &key("column_of_product"), col.arr(), model::mmul(ma, mb)[c]);
                if T::EXACT {
                    same_slice(ctx, &key("column_of_product"), &col.arr(), &prod.arr()[c]);
                }
            }
            eq_m::<T, N>(ctx, &key("add"), (ca + cb).arr(), model::madd(ma, mb));
            eq_m::<T, N>(ctx, &key("sub"), (ca - cb).arr(), model::msub(ma, mb));
            eq_m::<T, N>(ctx, &key("neg"), (-ca).arr(), model::mneg(ma));
            eq_m::<T, N>(ctx, &key("mul_scalar"), (ca * s).arr(), model::mscale(ma, ms));
            if !ms.is_zero() {
                let dm: [[T::M; N]; N] = std::array::from_fn(|c| std::array::from_fn(|r| ma[c][r] / ms));
                eq_m::<T, N>(ctx, &key("div_scalar"), (ca / s).arr(), dm);
                if T::EXACT {
                    // remainder: a - s*trunc(a/s), element-wise
                    let got = (ca % s).arr();
                    let exp: [[T; N]; N] = std::array::from_fn(|c| std::array::from_fn(|r| a[c][r] % s));
                    same_slice(ctx, &key("rem_scalar"), &flat_m(got), &flat_m(exp));
                } else {
                    let got = (ca % s).arr();
                    let exp: [[T; N]; N] = std::array::from_fn(|c| std::array::from_fn(|r| a[c][r] % s));
                    same_slice(ctx, &key("rem_scalar"), &flat_m(got), &flat_m(exp));
                }
            }
            // compound assignment forms give the same matrices
            let mut t = ca;
            t += cb;
            eq_m::<T, N>(ctx, &key("add_assign"), t.arr(), model::madd(ma, mb));
            let mut t = ca;
            t -= cb;
            eq_m::<T, N>(ctx, &key("sub_assign"), t.arr(), model::msub(ma, mb));
            let mut t = ca;
            t *= s;
            eq_m::<T, N>(ctx, &key("mul_assign"), t.arr(), model::mscale(ma, ms));
        },
    );
}

/// magnitudes and non-dyadic entries: (2^-k A)(2^k B) = AB, 2^-k A + 2^-k B = 2^-k (A + B), (2^-k A) v = 2^-k (A v) hold
/// bit for bit (scaling by a power of two is exact), so a short cut keyed on "this operand is numerically zero /
/// diagonal / the identity" shows at one end of the ladder; entries with denominators 3, 7, 9, 11, 13 make every
/// float operation round, so a detour through another number type shows
fn magnitudes<T: Tier, M: MatN<T, N>, const N: usize>(rep: &mut Report) {
    let ks: Vec<i64> = if T::EXACT { vec![0, 6] } else if T::NAME == "F" { (0..=24).step_by(3).collect() } else { (0..=60).step_by(4).collect() };
    let nb = 3;
    rep.cases(
        &format!("magnitudes/{}", M::NAME),
        T::NAME,
        &format!("3 bases (A,B,v) with non-dyadic entries x scalings 2^-k / 2^k, k in {:?}", ks),
        nb * ks.len(),
        Guard::states(3).distinct(3),
        |i, ctx| {
            let (bi, k) = (i / ks.len(), ks[i % ks.len()]);
            let dens: [i64; 5] = [3, 7, 9, 11, 13];
            let r: Vec<R> = alphabet::generic(2 * N * N + N, bi).iter().enumerate().map(|(j, q)| (q.0, q.1 * dens[(j + bi) % 5])).collect();
            let a: [[T; N]; N] = mat_from_r(&r[..N * N]);
            let b: [[T; N]; N] = mat_from_r(&r[N * N..2 * N * N]);
            let v: [T; N] = vec_from_r(&r[2 * N * N..]);
            let (dn, up): (T, T) = (T::q(1, 1i64 << k), T::q(1i64 << k, 1));
            ctx.describe(|| format!("A={:?} B={:?} v={:?} scaled by 2^-{k} / 2^{k}", a, b, v));
            ctx.out(&(bi, k));
            let (ma, mb, mv) = (lift_m(a), lift_m(b), lift_v(v));
            let (ca, cb, cv) = (M::mk(a), M::mk(b), M::V::mk(v));
            // against the model (every operation rounds: tolerance)
            eq_m::<T, N>(ctx, &key("mul_matrix/non-dyadic"), (ca * cb).arr(), model::mmul(ma, mb));
            eq_v::<T, N>(ctx, &key("mul_vector/non-dyadic"), (ca * cv).arr(), model::mvec(ma, mv));
            eq_m::<T, N>(ctx, &key("add/non-dyadic"), (ca + cb).arr(), model::madd(ma, mb));
            // scaled operands: the same numbers, bit for bit
            let (sa, sb, ua) = (M::mk(a.map(|c| c.map(|x| x * dn))), M::mk(b.map(|c| c.map(|x| x * up))), M::mk(b.map(|c| c.map(|x| x * dn))));
            same_slice(ctx, &key("mul_matrix/scaling"), &flat_m((sa * sb).arr()), &flat_m((ca * cb).arr()));
            same_slice(ctx, &key("mul_matrix/scaling"), &flat_m((sb * sa).arr()), &flat_m((cb * ca).arr()));
            same_slice(ctx, &key("add/scaling"), &flat_m((sa + ua).arr()), &flat_m((ca + cb).arr().map(|c| c.map(|x| x * dn))));
            same_slice(ctx, &key("sub/scaling"), &flat_m((sa - ua).arr()), &flat_m((ca - cb).arr().map(|c| c.map(|x| x * dn))));
            same_slice(ctx, &key("mul_vector/scaling"), &(sa * cv).arr(), &(ca * cv).arr().map(|x| x * dn));
            same_slice(ctx, &key("mul_scalar/scaling"), &flat_m((sa * up).arr()), &flat_m(a));
            same_slice(ctx, &key("transpose/scaling"), &flat_m(sa.transpose().arr()), &flat_m(ca.transpose().arr().map(|c| c.map(|x| x * dn))));
        },
    );
}

/// ring: BFS over chains of ring operations; ring laws evaluated on every reached state
fn ring<T: Tier, M: MatN<T, N>, const N: usize>(rep: &mut Report) {
    let depth = rep.pick(2, 3);
    // generators: generic, shear, permutation-with-scale, singular
    let g0: [[T; N]; N] = mat_from_r(&alphabet::generic(N * N, 1));
    let mut shear = lower_m::<T, N>(model::mident());
    shear[N - 1][0] = T::q(3, 2);
    let mut perm: [[T; N]; N] = [[T::zero(); N]; N];
    for c in 0..N {
        perm[c][(c + 1) % N] = T::q(if c % 2 == 0 { 2 } else { -1 }, 1);
    }
    let mut sing: [[T; N]; N] = mat_from_r(&alphabet::generic(N * N, 2));
    for r in 0..N {
        sing[N - 1][r] = sing[0][r] + sing[0][r]; // last column = 2 * first column
    }
    let gens = [g0, shear, perm, sing];
    let v0: [T; N] = vec_from_r(&alphabet::generic(N, 0));
    let w0: [T; N] = vec_from_r(&alphabet::generic(N, 2));
    let s0: T = T::q(-3, 2);
    let mut inits = Vec::new();
    for a in 0..4 {
        for b in 0..4 {
            let mut vals = flat_m(gens[a]);
            vals.extend(flat_m(gens[b]));
            vals.extend(v0);
            inits.push(St::<T>(vals));
        }
    }
    const ACTIONS: [&str; 9] = ["A<-A+B", "A<-A-B", "A<-A*B", "A<-B*A", "A<--A", "A<-A*s", "A<-transpose(A)", "v<-A*v", "v<-v+w"];
    let name = format!("ring/{}", M::NAME);
    let gm = gens;
    rep.bfs(
        &name,
        T::NAME,
        &format!("registers (A,B,v); 16 initial pairs of 4 generators; 9 actions; depth {depth}"),
        inits,
        ACTIONS.len(),
        depth,
        Guard::states(100),
        |st, act, ctx| {
            let a: [[T; N]; N] = st.mat(0);
            let b: [[T; N]; N] = st.mat(N * N);
            let v: [T; N] = st.vec(2 * N * N);
            let (ma, mb, mv) = (lift_m(a), lift_m(b), lift_v(v));
            let (ca, cb, cv) = (M::mk(a), M::mk(b), M::V::mk(v));
            ctx.branch(ACTIONS[act]);
            let (na, nv) = match act {
                0 => {
                    let r = (ca + cb).arr();
                    eq_m::<T, N>(ctx, &key("ring/add"), r, model::madd(ma, mb));
                    (r, v)
                }
                1 => {
                    let r = (ca - cb).arr();
                    eq_m::<T, N>(ctx, &key("ring/sub"), r, model::msub(ma, mb));
                    (r, v)
                }
                2 => {
                    let r = (ca * cb).arr();
                    eq_m::<T, N>(ctx, &key("ring/mul"), r, model::mmul(ma, mb));
                    (r, v)
                }
                3 => {
                    let r = (cb * ca).arr();
                    eq_m::<T, N>(ctx, &key("ring/mul"), r, model::mmul(mb, ma));
                    (r, v)
                }
                4 => {
                    let r = (-ca).arr();
                    eq_m::<T, N>(ctx, &key("ring/neg"), r, model::mneg(ma));
                    (r, v)
                }
                5 => {
                    let r = (ca * s0).arr();
                    eq_m::<T, N>(ctx, &key("ring/mul_scalar"), r, model::mscale(ma, s0.lift()));
                    (r, v)
                }
                6 => {
                    let r = ca.transpose().arr();
                    eq_m::<T, N>(ctx, &key("ring/transpose"), r, model::mtranspose(ma));
                    (r, v)
                }
                7 => {
                    let r = (ca * cv).arr();
                    eq_v::<T, N>(ctx, &key("ring/mul_vector"), r, model::mvec(ma, mv));
                    (a, r)
                }
                _ => {
                    let r = (cv + M::V::mk(w0)).arr();
                    eq_v::<T, N>(ctx, &key("ring/vadd"), r, model::vadd(mv, lift_v(w0)));
                    (a, r)
                }
            };
            if ctx.failed() {
                return None;
            }
            // keep magnitudes inside the float tiers' comfortable range
            if flat_m(na).iter().chain(nv.iter()).any(|x| x.f().abs() > 1e12) {
                return None;
            }
            let mut vals = flat_m(na);
            vals.extend(flat_m(b));
            vals.extend(nv);
            Some(St(vals))
        },
        |st, ctx| {
            // ring laws on the registers, with generator C = gens[0] and vector w0
            let a: [[T; N]; N] = st.mat(0);
            let b: [[T; N]; N] = st.mat(N * N);
            let v: [T; N] = st.vec(2 * N * N);
            let c = gm[0];
            let (ma, mb, mc, mv, mw) = (lift_m(a), lift_m(b), lift_m(c), lift_v(v), lift_v(w0));
            let (ca, cb, cc, cv, cw) = (M::mk(a), M::mk(b), M::mk(c), M::V::mk(v), M::V::mk(w0));
            let abc = model::mmul(model::mmul(ma, mb), mc);
            eq_m::<T, N>(ctx, &key("law/assoc-left"), ((ca * cb) * cc).arr(), abc);
            eq_m::<T, N>(ctx, &key("law/assoc-right"), (ca * (cb * cc)).arr(), model::mmul(ma, model::mmul(mb, mc)));
            let dl = model::mmul(ma, model::madd(mb, mc));
            eq_m::<T, N>(ctx, &key("law/distrib-left"), (ca * (cb + cc)).arr(), dl);
            eq_m::<T, N>(ctx, &key("law/distrib-left"), (ca * cb + ca * cc).arr(), model::madd(model::mmul(ma, mb), model::mmul(ma, mc)));
            eq_m::<T, N>(ctx, &key("law/distrib-right"), ((ca + cb) * cc).arr(), model::mmul(model::madd(ma, mb), mc));
            eq_m::<T, N>(ctx, &key("law/distrib-right"), (ca * cc + cb * cc).arr(), model::madd(model::mmul(ma, mc), model::mmul(mb, mc)));
            same_slice(ctx, &key("law/identity-left"), &flat_m((M::identity() * ca).arr()), &flat_m(a));
            same_slice(ctx, &key("law/identity-right"), &flat_m((ca * M::identity()).arr()), &flat_m(a));
            // the additive and multiplicative identities of the ring, as the num-traits style constructors name them
            same_slice(ctx, &key("zero()"), &flat_m(<M as cgmath::Zero>::zero().arr()), &vec![T::zero(); N * N]);
            same_slice(ctx, &key("law/zero-is-additive-identity"), &flat_m((ca + <M as cgmath::Zero>::zero()).arr()), &flat_m(a));
            same_slice(ctx, &key("law/zero-is-additive-identity"), &flat_m((<M as cgmath::Zero>::zero() + ca).arr()), &flat_m(a));
            same_slice(ctx, &key("one()"), &flat_m(<M as cgmath::One>::one().arr()), &flat_m(M::identity().arr()));
            eq_v::<T, N>(ctx, &key("law/linear-add"), (ca * (cv + cw)).arr(), model::mvec(ma, model::vadd(mv, mw)));
            eq_v::<T, N>(ctx, &key("law/linear-add"), (ca * cv + ca * cw).arr(), model::vadd(model::mvec(ma, mv), model::mvec(ma, mw)));
            eq_v::<T, N>(ctx, &key("law/linear-scale"), (ca * (cv * s0)).arr(), model::mvec(ma, model::vscale(mv, s0.lift())));
            eq_v::<T, N>(ctx, &key("law/linear-scale"), ((ca * cv) * s0).arr(), model::vscale(model::mvec(ma, mv), s0.lift()));
            if T::EXACT {
                // in the exact tier both sides of every law are *equal*, not merely close
                same_slice(ctx, &key("law/assoc"), &flat_m(((ca * cb) * cc).arr()), &flat_m((ca * (cb * cc)).arr()));
                same_slice(ctx, &key("law/distrib-left"), &flat_m((ca * (cb + cc)).arr()), &flat_m((ca * cb + ca * cc).arr()));
                same_slice(ctx, &key("law/distrib-right"), &flat_m(((ca + cb) * cc).arr()), &flat_m((ca * cc + cb * cc).arr()));
                same_slice(ctx, &key("law/linear-add"), &(ca * (cv + cw)).arr(), &(ca * cv + ca * cw).arr());
                same_slice(ctx, &key("law/linear-scale"), &(ca * (cv * s0)).arr(), &((ca * cv) * s0).arr());
            }
        },
        |st| st.show(),
    );
}


/// float tiers: matrices that are *almost* of a special shape. The approximate predicates of the library (`is_identity`,
/// `is_diagonal`, `is_symmetric`, `is_zero`: ulps comparisons with tolerances up to 1e-6) are the natural guards of a
/// fast path; a short cut taken on their word is wrong by the part they ignore, which is far above rounding here
fn nearly_special<T: Tier + Dom<M = Sh>, const N: usize>(shape: usize, di: usize) -> (&'static str, [[T; N]; N]) {
    let g: [[T; N]; N] = mat_from_r(&alphabet::generic(N * N, 1));
    let h: [[T; N]; N] = mat_from_r(&alphabet::generic(N * N, 2));
    let c = |x: f64| num_traits::cast::<f64, T>(x).unwrap();
    // the part a tolerant predicate ignores: exactly absent, below the scalar epsilon, 2^-30, 2^-22 (times entries of size 0.1..20)
    let d = [0.0, T::U / 64.0, 2f64.powi(-30), 2f64.powi(-22)][di];
    let mut m = [[T::zero(); N]; N];
    let name = ["identity", "diagonal", "symmetric", "scaled identity", "zero"][shape];
    for cc in 0..N {
        for r in 0..N {
            let off = c(d * h[cc][r].f() / 8.0);
            m[cc][r] = match shape {
                0 => (if cc == r { T::one() } else { T::zero() }) + off,
                1 => (if cc == r { g[cc][cc] } else { T::zero() }) + if cc == r { T::zero() } else { off },
                2 => g[cc.min(r)][cc.max(r)] + if cc < r { off } else { T::zero() },
                3 => (if cc == r { c(2.5) } else { T::zero() }) + if cc == r { T::zero() } else { off },
                _ => off,
            };
        }
    }
    (name, m)
}
fn near_special<T: Tier + Dom<M = Sh>, M: MatN<T, N>, const N: usize>(rep: &mut Report)
where
    M: std::ops::Mul<M, Output = M> + std::ops::Add<M, Output = M> + std::ops::Sub<M, Output = M> + std::ops::Mul<M::V, Output = M::V>,
{
    rep.cases(
        &format!("nearly-special/{}", M::NAME),
        T::NAME,
        "a generic A and B nearly {identity, diagonal, symmetric, scaled identity, zero} x {exactly, off by a few roundings, by 2^-30, by 2^-22}: A*B, B*A, B*B, A+B, A-B, B*v, transpose(B), trace, diagonal against the model",
        5 * 4,
        Guard::states(20).distinct(20),
        |i, ctx| {
            let (name, b) = nearly_special::<T, N>(i / 4, i % 4);
            let a: [[T; N]; N] = mat_from_r(&alphabet::generic(N * N, 0));
            let v: [T; N] = vec_from_r(&alphabet::generic(N, 1));
            ctx.describe(|| format!("{} A generic, B nearly {} (variant {}): {:?}", M::NAME, name, i % 4, b));
            ctx.out(&i);
            let (ca, cb, cv) = (M::mk(a), M::mk(b), M::V::mk(v));
            let (ma, mb, mv) = (lift_m(a), lift_m(b), lift_v(v));
            eq_m::<T, N>(ctx, &key("nearly-special/A*B"), (ca * cb).arr(), model::mmul(ma, mb));
            eq_m::<T, N>(ctx, &key("nearly-special/B*A"), (cb * ca).arr(), model::mmul(mb, ma));
            eq_m::<T, N>(ctx, &key("nearly-special/B*B"), (cb * cb).arr(), model::mmul(mb, mb));
            eq_m::<T, N>(ctx, &key("nearly-special/A+B"), (ca + cb).arr(), model::madd(ma, mb));
            eq_m::<T, N>(ctx, &key("nearly-special/A-B"), (ca - cb).arr(), model::madd(ma, model::mscale(mb, -Sh::one())));
            eq_v::<T, N>(ctx, &key("nearly-special/B*v"), (cb * cv).arr(), model::mvec(mb, mv));
            // reading and re-arranging elements is exact whatever the shape
            same_slice(ctx, &key("nearly-special/transpose"), &flat_m(cb.transpose().arr()), &flat_m::<T, N>(std::array::from_fn(|cc| std::array::from_fn(|r| b[r][cc]))));
            same_slice(ctx, &key("nearly-special/diagonal"), &cb.diagonal().arr(), &std::array::from_fn::<T, N, _>(|j| b[j][j]));
            let mut tr = b[0][0].lift();
            for j in 1..N {
                tr = tr + b[j][j].lift();
            }
            eq_s::<T>(ctx, &key("nearly-special/trace"), cb.trace(), tr);
        },
    );
}
/// both operands of a product of a *structured* shape - what transforms built from scales, rotations, translations and
/// projections look like, and what a fast path tests for with exact comparisons: every pair of shapes, generic entries
/// elsewhere
fn shape_of<T: Tier, const N: usize>(shape: usize, v: usize) -> [[T; N]; N] {
    let g: [[T; N]; N] = mat_from_r(&alphabet::generic(N * N, v));
    let mut m = g;
    let last = N - 1;
    for c in 0..N {
        for r in 0..N {
            let (zero, one) = (T::zero(), T::one());
            m[c][r] = match shape {
                // generic
                0 => g[c][r],
                // affine: bottom row 0 .. 0 1, generic linear part and translation
                1 => if r == last { if c == last { one } else { zero } } else { g[c][r] },
                // linear part only (an embedded smaller matrix)
                2 => if r == last || c == last { if r == c { one } else { zero } } else { g[c][r] },
                // translation only
                3 => if c == last && r != last { g[c][r] } else if r == c { one } else { zero },
                // diagonal
                4 => if r == c { g[c][r] } else { zero },
                // the identity plus one entry in the bottom row (a one-point perspective)
                5 => if r == c { one } else if r == last && c + 2 == N { g[c][r] } else { zero },
                // affine with the bottom-right entry not 1
                _ => if r == last { if c == last { g[c][r] } else { zero } } else { g[c][r] },
            };
        }
    }
    m
}
fn shapes<T: Tier, M: MatN<T, N>, const N: usize>(rep: &mut Report)
where
    M: std::ops::Mul<M, Output = M> + std::ops::Mul<M::V, Output = M::V>,
{
    const NS: usize = 7;
    rep.cases(
        &format!("shapes/{}", M::NAME),
        T::NAME,
        "A and B each of the shapes {generic, affine, linear part only, translation only, diagonal, identity plus one bottom-row entry, affine with another bottom-right entry}: A*B, B*A, (A*B)*v against the model",
        NS * NS,
        Guard::states(40).distinct(40),
        |i, ctx| {
            let (sa, sb) = (i / NS, i % NS);
            let (a, b): ([[T; N]; N], [[T; N]; N]) = (shape_of::<T, N>(sa, 0), shape_of::<T, N>(sb, 1));
            let v: [T; N] = vec_from_r(&alphabet::generic(N, 2));
            ctx.describe(|| format!("{} shapes ({sa},{sb}): A={:?} B={:?}", M::NAME, a, b));
            ctx.out(&i);
            let (ca, cb, cv) = (M::mk(a), M::mk(b), M::V::mk(v));
            let (ma, mb, mv) = (lift_m(a), lift_m(b), lift_v(v));
            let mab = model::mmul(ma, mb);
            eq_m::<T, N>(ctx, &key("shapes/A*B"), (ca * cb).arr(), mab);
            eq_m::<T, N>(ctx, &key("shapes/B*A"), (cb * ca).arr(), model::mmul(mb, ma));
            eq_v::<T, N>(ctx, &key("shapes/(A*B)*v"), ((ca * cb) * cv).arr(), model::mvec(mab, mv));
            eq_v::<T, N>(ctx, &key("shapes/A*(B*v)"), (ca * (cb * cv)).arr(), model::mvec(ma, model::mvec(mb, mv)));
        },
    );
}
fn all_float<T: Tier + Dom<M = Sh>>(rep: &mut Report) {
    near_special::<T, Matrix2<T>, 2>(rep);
    near_special::<T, Matrix3<T>, 3>(rep);
    near_special::<T, Matrix4<T>, 4>(rep);
}
fn all<T: Tier>(rep: &mut Report) {
    layout::<T, Matrix2<T>, 2>(rep);
    layout::<T, Matrix3<T>, 3>(rep);
    layout::<T, Matrix4<T>, 4>(rep);
    homogeneous::<T>(rep);
    bilinear::<T, Matrix2<T>, 2>(rep);
    bilinear::<T, Matrix3<T>, 3>(rep);
    bilinear::<T, Matrix4<T>, 4>(rep);
    generic::<T, Matrix2<T>, 2>(rep);
    generic::<T, Matrix3<T>, 3>(rep);
    generic::<T, Matrix4<T>, 4>(rep);
    magnitudes::<T, Matrix2<T>, 2>(rep);
    magnitudes::<T, Matrix3<T>, 3>(rep);
    magnitudes::<T, Matrix4<T>, 4>(rep);
    shapes::<T, Matrix2<T>, 2>(rep);
    shapes::<T, Matrix3<T>, 3>(rep);
    shapes::<T, Matrix4<T>, 4>(rep);
    ring::<T, Matrix2<T>, 2>(rep);
    ring::<T, Matrix3<T>, 3>(rep);
    ring::<T, Matrix4<T>, 4>(rep);
}

fn main() {
    let mut rep = Report::from_args(P);
    rep.assume("entries range over the stated alphabets; float tiers judged with the running-error tolerance of DESIGN 2.5");
    rep.assume("for implementations that are polynomial of degree <=1 per operand entry, the bilinear systems decide the product formulas for all inputs (DESIGN 2.6)");
    all::<Ex>(&mut rep);
    all::<f64>(&mut rep);
    all::<f32>(&mut rep);
    all_float::<f64>(&mut rep);
    all_float::<f32>(&mut rep);
    std::process::exit(rep.finish());
}
