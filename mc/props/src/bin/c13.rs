//! C13 — Rad / Deg: conversion, normalisation, trigonometry.
use cgmath::{Angle, Zero};
use mc_props::*;
use num_traits::Float;
use std::f64::consts::PI;

const P: &str = "C13";
fn key(s: &str) -> String {
    format!("{P}/{s}")
}

/// floor-based reference: a - turn*floor(a/turn) in [0, turn)
fn m_norm<F: Field>(a: F, turn: F, floor: &dyn Fn(F) -> F) -> F {
    a - turn * floor(a / turn)
}
trait Fl: Tier {
    fn floor_m(x: Self::M) -> Self::M;
    fn eps() -> f64;
}
impl Fl for Ex {
    fn floor_m(x: Ex) -> Ex {
        Float::floor(x)
    }
    fn eps() -> f64 {
        0.0
    }
}
impl Fl for f64 {
    fn floor_m(x: Sh) -> Sh {
        Sh { v: x.v.floor(), e: 0.0 }
    }
    fn eps() -> f64 {
        f64::EPSILON
    }
}
impl Fl for f32 {
    fn floor_m(x: Sh) -> Sh {
        Sh { v: x.v.floor(), e: 0.0 }
    }
    fn eps() -> f64 {
        f32::EPSILON as f64
    }
}

/// is `d` a whole number of turns (exactly in tier X, up to rounding of the operands otherwise)?
fn whole_turns<T: Fl>(d: T, turn: T, scale: f64) -> bool {
    let q = d / turn;
    if T::EXACT {
        q == Float::round(q)
    } else {
        let qf = q.f();
        (qf - qf.round()).abs() <= 64.0 * T::U * (scale / turn.f() + 1.0)
    }
}

macro_rules! angle_systems {
    ($modname:ident, $A:ident, $label:expr, $is_rad:expr) => {
        mod $modname {
            use super::*;
            use cgmath::$A as A;

            pub fn values<T: Fl>(fine: bool) -> Vec<T> {
                let turn: T = A::<T>::full_turn().0;
                let mut out = Vec::new();
                let div = if fine { 96 } else { 8 };
                let jmax = if fine { 480 } else { 20 };
                let tiny = if T::EXACT { T::q(1, 1 << 40) } else { T::q(1, 1 << 20) };
                for j in -jmax..=jmax {
                    let base = turn * T::int(j) / T::int(div);
                    for e in [T::zero(), T::q(1, 7), -T::q(1, 7), tiny, -tiny] {
                        out.push(base + e);
                    }
                }
                if !T::EXACT {
                    // native edge values
                    for x in [T::min_positive_value(), -T::min_positive_value(), T::q(1, 1) * T::q(1000000, 1) * T::q(1000000000, 1), -T::q(1000000, 1) * T::q(1000000000, 1)] {
                        out.push(x);
                    }
                    let sub = T::min_positive_value() / T::q(1 << 20, 1);
                    out.push(sub);
                    out.push(-sub);
                    out.push(T::neg_zero());
                }
                out
            }

            /// the modular clauses for one angle
            pub fn judge_one<T: Fl>(ctx: &mut Ctx, a: T) {
                let turn: T = A::<T>::full_turn().0;
                let half = turn / T::int(2);
                let ang = A(a);
                ctx.out(&a.key());
                // normalize in [0, turn], differs from a by whole turns
                let n = ang.normalize().0;
                ctx.check(n >= T::zero() && n <= turn, &key(concat!($label, "/normalize/range")), || format!("normalize({:?}) = {:?} not in [0, {:?}]", a, n, turn));
                ctx.check(whole_turns::<T>(a - n, turn, a.f().abs()), &key(concat!($label, "/normalize/congruent")), || format!("normalize({:?}) = {:?} differs by {:?} turns", a, n, ((a - n) / turn)));
                if T::EXACT {
                    // the representative in [0, turn); at whole multiples of the turn the statement's closed interval
                    // allows the other end as well
                    let m = m_norm::<T::M>(a.lift(), turn.lift(), &|x| T::floor_m(x));
                    if !(m.is_zero() && n == turn) {
                        eq_s::<T>(ctx, &key(concat!($label, "/normalize")), n, m);
                    }
                    // a normalised angle is its own normal form (at the two ends of the closed interval: one of the ends)
                    let nn = A(n).normalize().0;
                    let ends = |x: T| x.is_zero() || x == turn;
                    ctx.check(nn == n || (ends(n) && ends(nn)), &key(concat!($label, "/normalize/idempotent")), || format!("normalize({:?}) = {:?}, normalised again {:?}", a, n, nn));
                }
                // normalize_signed in [-turn/2, turn/2]
                let s = ang.normalize_signed().0;
                ctx.check(s >= -half && s <= half, &key(concat!($label, "/normalize_signed/range")), || format!("normalize_signed({:?}) = {:?} not in [-{:?}, {:?}]", a, s, half, half));
                ctx.check(whole_turns::<T>(a - s, turn, a.f().abs()), &key(concat!($label, "/normalize_signed/congruent")), || format!("normalize_signed({:?}) = {:?}", a, s));
                // opposite(a) = normalize(a + half turn)
                let o = ang.opposite().0;
                let via = (ang + A::<T>::turn_div_2()).normalize().0;
                if T::EXACT {
                    // (at odd multiples of the half turn: either end of the closed interval)
                    let ends = |x: T| x.is_zero() || x == turn;
                    ctx.check(o == via || (ends(o) && ends(via)), &key(concat!($label, "/opposite")), || format!("opposite({:?}) = {:?}, normalize(a + half turn) = {:?}", a, o, via));
                } else {
                    // the same number up to rounding (or the other end of the closed interval)
                    ctx.check(whole_turns::<T>(o - via, turn, a.f().abs()), &key(concat!($label, "/opposite")), || format!("opposite({:?}) = {:?}, normalize(a + half turn) = {:?}", a, o, via));
                }
                ctx.check(o >= T::zero() && o <= turn, &key(concat!($label, "/opposite/range")), || format!("opposite({:?}) = {:?}", a, o));
                ctx.check(whole_turns::<T>(o - a - half, turn, a.f().abs()), &key(concat!($label, "/opposite/half-turn-away")), || format!("opposite({:?}) = {:?}", a, o));
            }

            /// signed distance from x to y in (-turn/2, turn/2], computed by the harness
            fn sdist<T: Fl>(x: T, y: T, turn: T) -> T {
                let d = y - x;
                let n = d - turn * Float::floor(d / turn);
                if n > turn / T::int(2) {
                    n - turn
                } else {
                    n
                }
            }

            pub fn modular<T: Fl>(rep: &mut Report) {
                let vals = values::<T>(rep.thorough());
                rep.cases(
                    concat!("modular/", $label),
                    T::NAME,
                    &format!("{} angles j*turn/{} + eps, eps in {{0, +-1/7, +-tiny}}{}", vals.len(), if rep.thorough() { 96 } else { 8 }, if T::EXACT { "" } else { " plus native edge values" }),
                    vals.len(),
                    Guard::states(100).distinct(100),
                    |i, ctx| {
                        let a = vals[i];
                        ctx.describe(|| format!("{}({:?})", $label, a));
                        judge_one::<T>(ctx, a);
                    },
                );
                // constants
                rep.cases(concat!("constants/", $label), T::NAME, "full_turn and turn_div_k, k = 2,3,4,6", 5, Guard::states(5), |i, ctx| {
                    let turn: T = A::<T>::full_turn().0;
                    ctx.describe(|| format!("constant #{i} of {}", $label));
                    ctx.out(&i);
                    match i {
                        0 => {
                            let want: T = if $is_rad { num_traits::cast::<f64, T>(2.0 * PI).unwrap() } else { T::int(360) };
                            same_slice(ctx, &key(concat!($label, "/full_turn")), &[turn], &[want]);
                        }
                        _ => {
                            let kk = [2, 3, 4, 6][i - 1];
                            let part: T = match kk {
                                2 => A::<T>::turn_div_2().0,
                                3 => A::<T>::turn_div_3().0,
                                4 => A::<T>::turn_div_4().0,
                                _ => A::<T>::turn_div_6().0,
                            };
                            let back = part * T::int(kk);
                            // (the constants are roundings of f64 numbers in every tier: an equation up to that rounding)
                            let ok = back == turn || (back.f() - turn.f()).abs() <= 4.0 * (if T::EXACT { f64::EPSILON } else { T::eps() }) * turn.f();
                            ctx.check(ok, &key(concat!($label, "/turn_div_k")), || format!("turn_div_{kk}() * {kk} = {:?}, full_turn = {:?}", back, turn));
                            // and it is the k-th part, not some other
                            let ratio = turn.f() / part.f();
                            ctx.check((ratio - kk as f64).abs() < 1e-6, &key(concat!($label, "/turn_div_k")), || format!("full_turn / turn_div_{kk}() = {ratio}"));
                        }
                    }
                });
            }

            pub fn bisect<T: Fl>(rep: &mut Report) {
                // pairs over a thinned value list: every 2nd value of the coarse lattice (quick) / every 4th value of the
                // fine one (thorough; the stride is coprime to the five offsets per lattice point, so every offset occurs)
                let vals: Vec<T> = if rep.quick() { values::<T>(false).into_iter().step_by(2).collect() } else { values::<T>(true).into_iter().step_by(4).collect() };
                let n = vals.len();
                rep.cases(
                    concat!("bisect/", $label),
                    T::NAME,
                    &format!("all ordered pairs of {} angles", n),
                    n * n,
                    Guard::states(1000).distinct(1000),
                    |i, ctx| {
                        let (a, b) = (vals[i / n], vals[i % n]);
                        ctx.describe(|| format!("{}: bisect({:?}, {:?})", $label, a, b));
                        ctx.out(&(a.key(), b.key()));
                        let turn: T = A::<T>::full_turn().0;
                        if !T::EXACT && (a.f().abs() > 1e6 || b.f().abs() > 1e6 || (a.f() != 0.0 && a.f().abs() < 1e-30) || (b.f() != 0.0 && b.f().abs() < 1e-30)) {
                            ctx.skip("magnitude outside the bisect grid (float tier)");
                            return;
                        }
                        let m = A(a).bisect(A(b)).0;
                        let d1 = sdist::<T>(m, a, turn); // from the bisector to a
                        let d2 = sdist::<T>(m, b, turn); // from the bisector to b
                        let quarter = turn / T::int(4);
                        // float tiers: a few roundings of quantities of size turn + |a| + |b|
                        let tol: T = num_traits::cast::<f64, T>(64.0 * T::U * (turn.f() + a.f().abs() + b.f().abs())).unwrap();
                        // equal and opposite signed distances (modulo a whole turn when both are half a turn)
                        let sum = d1 + d2;
                        let opposite = Float::abs(sum) <= tol || Float::abs(Float::abs(sum) - turn) <= tol;
                        let cls = {
                            let ab = sdist::<T>(a, b, turn);
                            if ab > T::zero() { "b-counter-clockwise-of-a" } else if ab < T::zero() { "b-clockwise-of-a" } else { "a=b" }
                        };
                        ctx.t();
                        if !opposite {
                            ctx.fail(&key(&format!("{}/bisect/midway/{}", $label, cls)), || format!("bisect({:?},{:?}) = {:?}: signed distances to a and b are {:?} and {:?}", a, b, m, d1, d2));
                        }
                        ctx.t();
                        if Float::abs(d1) > quarter + tol || Float::abs(d2) > quarter + tol {
                            ctx.fail(&key(&format!("{}/bisect/within-quarter-turn/{}", $label, cls)), || format!("bisect({:?},{:?}) = {:?}: distances {:?}, {:?} exceed a quarter turn {:?}", a, b, m, d1, d2, quarter));
                        }
                    },
                );
            }

            pub fn arithmetic<T: Fl>(rep: &mut Report) {
                let l: Vec<T> = alphabet::generic(6, 1).iter().map(|&r| rq::<T>(r)).chain([T::zero(), T::one(), T::q(-1, 2)]).collect();
                let n = l.len();
                rep.cases(
                    concat!("arithmetic/", $label),
                    T::NAME,
                    &format!("all ordered triples (a, b, s) over {} values", n),
                    n * n * n,
                    Guard::states(100).distinct(100),
                    |i, ctx| {
                        let (a, b, s) = (l[i / (n * n)], l[(i / n) % n], l[i % n]);
                        ctx.describe(|| format!("{}: a={:?} b={:?} s={:?}", $label, a, b, s));
                        ctx.out(&(a.key(), b.key(), s.key()));
                        let (x, y) = (A(a), A(b));
                        same_slice(ctx, &key(concat!($label, "/add")), &[(x + y).0], &[a + b]);
                        same_slice(ctx, &key(concat!($label, "/sub")), &[(x - y).0], &[a - b]);
                        same_slice(ctx, &key(concat!($label, "/neg")), &[(-x).0], &[-a]);
                        same_slice(ctx, &key(concat!($label, "/mul_scalar")), &[(x * s).0], &[a * s]);
                        // ... whichever way the operands are passed (C17 compares the spellings with one another; here each
                        // of them is held to the underlying number)
                        same_slice(ctx, &key(concat!($label, "/neg/by-reference")), &[(-&x).0], &[-a]);
                        same_slice(ctx, &key(concat!($label, "/add/by-reference")), &[(&x + &y).0, (x + &y).0, (&x + y).0], &[a + b, a + b, a + b]);
                        same_slice(ctx, &key(concat!($label, "/sub/by-reference")), &[(&x - &y).0, (x - &y).0, (&x - y).0], &[a - b, a - b, a - b]);
                        same_slice(ctx, &key(concat!($label, "/mul_scalar/by-reference")), &[(&x * s).0], &[a * s]);
                        let mut t = x;
                        t += y;
                        same_slice(ctx, &key(concat!($label, "/add_assign")), &[t.0], &[a + b]);
                        let mut t = x;
                        t -= y;
                        same_slice(ctx, &key(concat!($label, "/sub_assign")), &[t.0], &[a - b]);
                        let mut t = x;
                        t *= s;
                        same_slice(ctx, &key(concat!($label, "/mul_assign")), &[t.0], &[a * s]);
                        if !s.is_zero() {
                            same_slice(ctx, &key(concat!($label, "/div_scalar")), &[(x / s).0], &[a / s]);
                            let mut t = x;
                            t /= s;
                            same_slice(ctx, &key(concat!($label, "/div_assign")), &[t.0], &[a / s]);
                        }
                        if !b.is_zero() {
                            same_slice(ctx, &key(concat!($label, "/div_angle")), &[x / y], &[a / b]);
                            same_slice(ctx, &key(concat!($label, "/rem")), &[(x % y).0], &[a % b]);
                            let mut t = x;
                            t %= y;
                            same_slice(ctx, &key(concat!($label, "/rem_assign")), &[t.0], &[a % b]);
                        }
                        let list = [x, y, A(s)];
                        let by_val: A<T> = list.iter().copied().sum();
                        let by_ref: A<T> = list.iter().sum();
                        same_slice(ctx, &key(concat!($label, "/sum")), &[by_val.0], &[T::zero() + a + b + s]);
                        same_slice(ctx, &key(concat!($label, "/sum/refs")), &[by_ref.0], &[T::zero() + a + b + s]);
                        same_slice(ctx, &key(concat!($label, "/zero")), &[A::<T>::zero().0], &[T::zero()]);
                        let none: [A<T>; 0] = [];
                        let (e_val, e_ref): (A<T>, A<T>) = (none.iter().copied().sum(), none.iter().sum());
                        same_slice(ctx, &key(concat!($label, "/sum/empty")), &[e_val.0, e_ref.0], &[T::zero(), T::zero()]);
                        let one = [x];
                        let (o_val, o_ref): (A<T>, A<T>) = (one.iter().copied().sum(), one.iter().sum());
                        same_slice(ctx, &key(concat!($label, "/sum/singleton")), &[o_val.0, o_ref.0], &[T::zero() + a, T::zero() + a]);
                    },
                );
            }

            /// chains of normalising operations: range closure from non-initial states
            pub fn chains<T: Fl>(rep: &mut Report) {
                let depth = rep.pick(3, 6);
                let inits: Vec<St<T>> = values::<T>(false).into_iter().step_by(rep.pick(3, 1)).filter(|x| x.f().abs() < 1e6).map(|x| St(vec![x])).collect();
                const ACT: [&str; 6] = ["normalize", "normalize_signed", "opposite", "neg", "+turn/4", "bisect(.,turn/3)"];
                rep.bfs(
                    concat!("chains/", $label),
                    T::NAME,
                    &format!("register a; actions {:?}; depth {depth}", ACT),
                    inits,
                    ACT.len(),
                    depth,
                    Guard::states(200),
                    |st, act, ctx| {
                        let a = A(st.0[0]);
                        ctx.branch(ACT[act]);
                        let n = match act {
                            0 => a.normalize(),
                            1 => a.normalize_signed(),
                            2 => a.opposite(),
                            3 => -a,
                            4 => a + A::<T>::turn_div_4(),
                            _ => a.bisect(A::<T>::turn_div_3()),
                        };
                        ctx.t();
                        Some(St(vec![n.0]))
                    },
                    |st, ctx| judge_one::<T>(ctx, st.0[0]),
                    |st| format!("{}({:?})", $label, st.0[0]),
                );
            }

            /// trigonometry against libm at the radian measure (float tiers)
            pub fn trig<T: Fl>(rep: &mut Report) {
                let to_rad: f64 = if $is_rad { 1.0 } else { PI / 180.0 };
                let mut xs: Vec<f64> = Vec::new();
                let steps = rep.pick(40, 4000);
                for j in -steps..=steps {
                    xs.push(j as f64 * 0.37 * 40.0 / steps as f64 / to_rad);
                }
                for s in [1.0, -1.0] {
                    for v in [0.0, 1e-8, PI / 6.0, PI / 4.0, PI / 3.0, PI / 2.0, PI, 1.5 * PI, 2.0 * PI, 1e3] {
                        xs.push(s * v / to_rad);
                    }
                }
                // small angles on a ladder (a small-angle shortcut), neighbourhoods of the special values, many turns
                // (argument reduction by a rounded full turn): the functions are those of the exact radian measure
                for k in 1..=7 {
                    xs.push(3.0 * 10f64.powi(-k) / to_rad);
                    xs.push(-(10f64.powi(-k)) / to_rad);
                }
                for k in (2..=40).step_by(2) {
                    xs.push(if k % 4 == 0 { 1.25 } else { -1.25 } * 2f64.powi(-k) / to_rad);
                }
                for c in [PI / 2.0, PI, 2.0 * PI] {
                    for d in [1e-4, -1e-4, 1e-2] {
                        xs.push((c + d) / to_rad);
                        xs.push((-c + d) / to_rad);
                    }
                }
                xs.extend([1e4 / to_rad, -1e5 / to_rad, 123456.7 / to_rad, 1e6 / to_rad]);
                if !T::EXACT && T::NAME == "D" {
                    xs.extend([-1e7 / to_rad, 1e9 / to_rad, 1e12 / to_rad]);
                }
                let xs: Vec<T> = xs.into_iter().map(|x| num_traits::cast::<f64, T>(x).unwrap()).collect();
                rep.cases(
                    concat!("trig/", $label),
                    T::NAME,
                    &format!("{} angles: grid of step 0.37*40/{} rad up to +-14.8 rad, special values and their neighbourhoods, a ladder 1e-7..0.3 rad, 1e3..1e6 rad (f64: ..1e12)", xs.len(), steps),
                    xs.len(),
                    Guard::states(80).distinct(80),
                    |i, ctx| {
                        let x = xs[i];
                        ctx.describe(|| format!("{}({:?})", $label, x));
                        ctx.out(&x.key());
                        let ang = A(x);
                        // radian measure: the angle itself, or deg * (pi/180 rounded to the scalar type)
                        let r: Sh = if $is_rad { Sh::exact(x.f()) } else { Sh::exact(x.f()) * Sh::rounded(num_traits::cast::<f64, T>(PI / 180.0).unwrap().f()) };
                        let (c, s) = r.cos_sin();
                        let cmp = |ctx: &mut Ctx, name: &str, got: T, m: Sh| {
                            ctx.t();
                            let tol = K_TOL * T::U * (m.e + m.v.abs());
                            if !m.v.is_finite() || !tol.is_finite() {
                                ctx.branch("pole-not-judged");
                                return;
                            }
                            if tol > 1e-3 * (1.0 + m.v.abs()) {
                                ctx.branch("ill-conditioned-not-judged");
                                return;
                            }
                            ctx.branch("judged");
                            if !((got.f() - m.v).abs() <= tol) {
                                ctx.fail(&key(&format!("{}/{}", $label, name)), || format!("{}({:?}) = {:?}, real function gives {:?} (tolerance {:e})", name, x, got, m.v, tol));
                            }
                        };
                        cmp(ctx, "sin", ang.sin(), s);
                        cmp(ctx, "cos", ang.cos(), c);
                        cmp(ctx, "tan", ang.tan(), r.tan());
                        let (ss, cc) = ang.sin_cos();
                        cmp(ctx, "sin_cos.0", ss, s);
                        cmp(ctx, "sin_cos.1", cc, c);
                        cmp(ctx, "csc", ang.csc(), Sh::exact(1.0) / s);
                        cmp(ctx, "sec", ang.sec(), Sh::exact(1.0) / c);
                        cmp(ctx, "cot", ang.cot(), Sh::exact(1.0) / r.tan());
                    },
                );
                // inverse functions: principal value in the caller's unit
                let n = rep.pick(41, 4001);
                let mut ratios: Vec<T> = (0..n).map(|j| num_traits::cast::<f64, T>(-1.0 + 2.0 * j as f64 / (n - 1) as f64).unwrap()).collect();
                // small arguments (asin x = x, atan x = x short cuts) and the neighbourhood of +-1
                for k in 1..=7 {
                    ratios.push(num_traits::cast::<f64, T>(3.0 * 10f64.powi(-k)).unwrap());
                    ratios.push(num_traits::cast::<f64, T>(-(10f64.powi(-k))).unwrap());
                }
                for k in (2..=40).step_by(2) {
                    ratios.push(num_traits::cast::<f64, T>(if k % 4 == 0 { 1.25 } else { -1.25 } * 2f64.powi(-k)).unwrap());
                }
                for d in [1e-3, 1e-6] {
                    ratios.push(num_traits::cast::<f64, T>(1.0 - d).unwrap());
                    ratios.push(num_traits::cast::<f64, T>(-1.0 + d).unwrap());
                }
                let n = ratios.len();
                let from_rad = |m: Sh| -> Sh { if $is_rad { m } else { m * Sh::rounded(num_traits::cast::<f64, T>(180.0 / PI).unwrap().f()) } };
                let half_turn_f = A::<T>::turn_div_2().0.f();
                rep.cases(
                    concat!("inverse-trig/", $label),
                    T::NAME,
                    &format!("{n} ratios in [-1,1] for asin/acos, the same scaled by 1, 3, 1e3 for atan, {n}x8 quadrant points for atan2"),
                    n * 2,
                    Guard::states(80).distinct(80),
                    |i, ctx| {
                        let x = ratios[i % n];
                        ctx.describe(|| format!("{}: ratio {:?} (pass {})", $label, x, i / n));
                        ctx.out(&(x.key(), i / n));
                        let chk = |ctx: &mut Ctx, name: &str, got: T, m: Sh, lo: f64, hi: f64| {
                            ctx.t();
                            let m = from_rad(m);
                            let tol = K_TOL * T::U * (m.e + m.v.abs()) + 1e-300;
                            if !m.e.is_finite() {
                                // derivative unbounded at +-1, but the argument is exactly +-1: the value is a quarter / half turn or 0
                                if !((got.f() - m.v).abs() <= 8.0 * T::U * half_turn_f) {
                                    ctx.fail(&key(&format!("{}/{}/at-the-end-of-the-domain", $label, name)), || format!("{}({:?}) = {:?}, principal value {:?}", name, x, got, m.v));
                                }
                            } else if (got.f() - m.v).abs() > tol {
                                ctx.fail(&key(&format!("{}/{}", $label, name)), || format!("{}({:?}) = {:?}, principal value {:?}", name, x, got, m.v));
                            }
                            let slack = 8.0 * T::U * half_turn_f;
                            if !(got.f() >= lo * half_turn_f - slack && got.f() <= hi * half_turn_f + slack) {
                                ctx.fail(&key(&format!("{}/{}/range", $label, name)), || format!("{}({:?}) = {:?} outside the principal range", name, x, got));
                            }
                        };
                        let xm = Sh::exact(x.f());
                        if i < n {
                            chk(ctx, "asin", A::<T>::asin(x).0, xm.asin(), -0.5, 0.5);
                            chk(ctx, "acos", A::<T>::acos(x).0, xm.acos(), 0.0, 1.0);
                            for sc in [1.0, 3.0, 1e3] {
                                let y: T = x * num_traits::cast::<f64, T>(sc).unwrap();
                                let ym = Sh::exact(y.f());
                                chk(ctx, "atan", A::<T>::atan(y).0, Sh::atan2(ym, Sh::exact(1.0)), -0.5, 0.5);
                            }
                        } else {
                            // atan2(a, b): all sign combinations and both orders, plus axis points
                            let one = T::one();
                            let h: T = T::q(1, 2);
                            for (a, b) in [(x, one), (x, -one), (one, x), (-one, x), (x, h), (h, -x), (T::zero(), one), (T::zero(), -one)] {
                                let m = Sh::atan2(Sh::exact(a.f()), Sh::exact(b.f()));
                                chk(ctx, "atan2", A::<T>::atan2(a, b).0, m, -1.0, 1.0);
                            }
                            // atan2 depends on the direction of (b, a) only: both arguments short, both long (a guard on
                            // the length of the pair sees neither in the pairs above, where one argument is 1 or 1/2)
                            for k in if T::NAME == "F" { vec![-30i32, -20, -13, -7, 9, 20, 30] } else { vec![-200i32, -60, -40, -27, -14, 14, 40, 200] } {
                                let f: T = num_traits::cast::<f64, T>(2f64.powi(k)).unwrap();
                                for (a, b) in [(x * f, h * f), (h * f, -x * f)] {
                                    let m = Sh::atan2(Sh::exact(a.f()), Sh::exact(b.f()));
                                    chk(ctx, "atan2/scaled", A::<T>::atan2(a, b).0, m, -1.0, 1.0);
                                }
                            }
                        }
                    },
                );
            }
        }
    };
}
angle_systems!(rad, Rad, "Rad", true);
angle_systems!(deg, Deg, "Deg", false);

/// unit conversion round trips (float tiers)
fn conversions<T: Fl>(rep: &mut Report) {
    let mut vals = rad::values::<T>(rep.thorough());
    vals.extend(deg::values::<T>(rep.thorough()));
    // large finite values: every clause whose exact result is representable still applies (Deg -> Rad shrinks the
    // number, so it applies up to MAX/2; Rad -> Deg grows it by 57.3, so it applies up to MAX/64)
    let big = T::max_value();
    for d in [2.0, 3.0, 3.2, 7.0, 57.0, 64.0, 100.0, 1e3, 1e6, 1e12] {
        let x = big / num_traits::cast::<f64, T>(d).unwrap();
        vals.push(x);
        vals.push(-x);
    }
    rep.cases(
        "conversions",
        T::NAME,
        &format!("{} values, both directions", vals.len()),
        vals.len(),
        Guard::states(100).distinct(50).need("large", 6).need("ordinary", 50),
        |i, ctx| {
            let a = vals[i];
            ctx.describe(|| format!("value {:?}", a));
            ctx.out(&a.key());
            let af = a.f();
            if af != 0.0 && (af.abs() < T::min_positive_value().f() * 1e6) {
                ctx.skip("underflow regime");
                return;
            }
            let tol = 4.0 * T::eps() * af.abs();
            let deg_fits = af.abs() <= T::max_value().f() / 64.0; // the degree measure of Rad(a) is representable
            ctx.branch(if deg_fits { "ordinary" } else { "large" });
            if deg_fits {
                let back_r = Rad::from(Deg::from(Rad(a))).0;
                ctx.check((back_r.f() - af).abs() <= tol, &key("convert/rad-deg-rad"), || format!("Rad({:?}) -> Deg -> Rad = {:?}", a, back_r));
            }
            let back_d = Deg::from(Rad::from(Deg(a))).0;
            ctx.check((back_d.f() - af).abs() <= tol, &key("convert/deg-rad-deg"), || format!("Deg({:?}) -> Rad -> Deg = {:?}", a, back_d));
            // one full turn is 2 pi rad = 360 deg, so the factor is 180/pi
            if deg_fits {
                let d = Deg::from(Rad(a)).0;
                // (a / 64) * (180/pi) * 64: the same number without an f64 overflow when the scalar type is f64 itself
                let want = (af / 64.0) * (180.0 / PI) * 64.0;
                ctx.check((d.f() - want).abs() <= 4.0 * T::eps() * want.abs(), &key("convert/rad-to-deg"), || format!("Rad({:?}) -> Deg = {:?}", a, d));
            }
            let r = Rad::from(Deg(a)).0;
            ctx.check((r.f() - af * (PI / 180.0)).abs() <= 4.0 * T::eps() * (af * PI / 180.0).abs(), &key("convert/deg-to-rad"), || format!("Deg({:?}) -> Rad = {:?}", a, r));
        },
    );
}

fn modular_all<T: Fl>(rep: &mut Report) {
    rad::modular::<T>(rep);
    deg::modular::<T>(rep);
    rad::bisect::<T>(rep);
    deg::bisect::<T>(rep);
    rad::arithmetic::<T>(rep);
    deg::arithmetic::<T>(rep);
    rad::chains::<T>(rep);
    deg::chains::<T>(rep);
}
fn native<T: Fl>(rep: &mut Report) {
    rad::trig::<T>(rep);
    deg::trig::<T>(rep);
    conversions::<T>(rep);
}

fn main() {
    let mut rep = Report::from_args(P);
    rep.assume("tier X judges the modular-arithmetic clauses with full_turn = the exact dyadic value of f64(2*pi) resp. 360; trigonometry and unit conversion are judged in the native f64/f32 tiers against libm evaluated at the radian measure with a running-error enclosure");
    rep.assume("values in the underflow regime (|a| < 1e6 * MIN_POSITIVE) are outside the bound of the conversion clause");
    set_lattice(None);
    modular_all::<Ex>(&mut rep);
    modular_all::<f64>(&mut rep);
    modular_all::<f32>(&mut rep);
    native::<f64>(&mut rep);
    native::<f32>(&mut rep);
    std::process::exit(rep.finish());
}
