//! A serde data format made of explicit tokens (DESIGN 2.3 / C20): a `Serializer` that records
//! the structure a value serializes to, and a `Deserializer` that replays an arbitrary token
//! list — so that field names, nesting and bit-exact scalars can be inspected and arbitrary
//! (also malformed) inputs can be fed to the real `Deserialize` impls.

use serde::de::{self, DeserializeSeed, MapAccess, Visitor};
use serde::ser::{self, Serialize};
use std::fmt;

#[derive(Clone, Debug, PartialEq)]
pub enum Tok {
    Struct(&'static str, usize),
    Field(String),
    End,
    Newtype(&'static str),
    F64(u64),
    F32(u32),
    I64(i64),
    U64(u64),
    Bool(bool),
    Str(String),
    Unit,
}

#[derive(Debug)]
pub struct TokError(pub String);
impl fmt::Display for TokError {
    fn fmt(&self, f: &mut fmt::Formatter) -> fmt::Result {
        write!(f, "{}", self.0)
    }
}
impl std::error::Error for TokError {}
impl ser::Error for TokError {
    fn custom<T: fmt::Display>(m: T) -> Self {
        TokError(m.to_string())
    }
}
impl de::Error for TokError {
    fn custom<T: fmt::Display>(m: T) -> Self {
        TokError(m.to_string())
    }
}

// ------------------------------------------------------------------ recorder
pub struct Recorder {
    pub toks: Vec<Tok>,
    /// what `is_human_readable()` answers (self-describing binary formats such as CBOR or MessagePack say no)
    pub human: bool,
    /// positions of the maps still open, and the number of keys seen in each (a map may not announce its length)
    open: Vec<usize>,
    counts: Vec<usize>,
}
pub fn to_tokens<V: Serialize>(v: &V) -> Result<Vec<Tok>, TokError> {
    to_tokens_as(v, true)
}
pub fn to_tokens_as<V: Serialize>(v: &V, human: bool) -> Result<Vec<Tok>, TokError> {
    let mut r = Recorder { toks: Vec::new(), human, open: Vec::new(), counts: Vec::new() };
    v.serialize(&mut r)?;
    Ok(r.toks)
}
macro_rules! unsupported {
    ($($f:ident($($a:ty),*) -> $r:ty;)*) => {
        $( fn $f(self, $(_: $a),*) -> Result<$r, TokError> { Err(TokError(concat!("unsupported: ", stringify!($f)).to_string())) } )*
    };
}
impl<'a> ser::Serializer for &'a mut Recorder {
    type Ok = ();
    type Error = TokError;
    type SerializeSeq = ser::Impossible<(), TokError>;
    type SerializeTuple = ser::Impossible<(), TokError>;
    type SerializeTupleStruct = ser::Impossible<(), TokError>;
    type SerializeTupleVariant = ser::Impossible<(), TokError>;
    type SerializeMap = &'a mut Recorder;
    type SerializeStruct = &'a mut Recorder;
    type SerializeStructVariant = ser::Impossible<(), TokError>;
    fn is_human_readable(&self) -> bool {
        self.human
    }
    fn serialize_bool(self, v: bool) -> Result<(), TokError> {
        self.toks.push(Tok::Bool(v));
        Ok(())
    }
    fn serialize_i8(self, v: i8) -> Result<(), TokError> {
        self.serialize_i64(v as i64)
    }
    fn serialize_i16(self, v: i16) -> Result<(), TokError> {
        self.serialize_i64(v as i64)
    }
    fn serialize_i32(self, v: i32) -> Result<(), TokError> {
        self.serialize_i64(v as i64)
    }
    fn serialize_i64(self, v: i64) -> Result<(), TokError> {
        self.toks.push(Tok::I64(v));
        Ok(())
    }
    fn serialize_u8(self, v: u8) -> Result<(), TokError> {
        self.serialize_u64(v as u64)
    }
    fn serialize_u16(self, v: u16) -> Result<(), TokError> {
        self.serialize_u64(v as u64)
    }
    fn serialize_u32(self, v: u32) -> Result<(), TokError> {
        self.serialize_u64(v as u64)
    }
    fn serialize_u64(self, v: u64) -> Result<(), TokError> {
        self.toks.push(Tok::U64(v));
        Ok(())
    }
    fn serialize_f32(self, v: f32) -> Result<(), TokError> {
        self.toks.push(Tok::F32(v.to_bits()));
        Ok(())
    }
    fn serialize_f64(self, v: f64) -> Result<(), TokError> {
        self.toks.push(Tok::F64(v.to_bits()));
        Ok(())
    }
    fn serialize_str(self, v: &str) -> Result<(), TokError> {
        self.toks.push(Tok::Str(v.to_string()));
        Ok(())
    }
    fn serialize_unit(self) -> Result<(), TokError> {
        self.toks.push(Tok::Unit);
        Ok(())
    }
    fn serialize_newtype_struct<T: ?Sized + Serialize>(self, name: &'static str, v: &T) -> Result<(), TokError> {
        self.toks.push(Tok::Newtype(name));
        v.serialize(self)
    }
    fn serialize_struct(self, name: &'static str, len: usize) -> Result<Self::SerializeStruct, TokError> {
        self.toks.push(Tok::Struct(name, len));
        Ok(self)
    }
    unsupported! {
        serialize_char(char) -> ();
        serialize_bytes(&[u8]) -> ();
        serialize_none() -> ();
        serialize_unit_struct(&'static str) -> ();
        serialize_unit_variant(&'static str, u32, &'static str) -> ();
        serialize_seq(Option<usize>) -> Self::SerializeSeq;
        serialize_tuple(usize) -> Self::SerializeTuple;
        serialize_tuple_struct(&'static str, usize) -> Self::SerializeTupleStruct;
        serialize_tuple_variant(&'static str, u32, &'static str, usize) -> Self::SerializeTupleVariant;
        serialize_struct_variant(&'static str, u32, &'static str, usize) -> Self::SerializeStructVariant;
    }
    /// a string-keyed map is what a self-describing format shows for a struct as well: recorded as one
    fn serialize_map(self, len: Option<usize>) -> Result<Self::SerializeMap, TokError> {
        self.toks.push(Tok::Struct("", len.unwrap_or(usize::MAX)));
        self.open.push(self.toks.len() - 1);
        Ok(self)
    }
    fn serialize_some<T: ?Sized + Serialize>(self, _: &T) -> Result<(), TokError> {
        Err(TokError("unsupported: serialize_some".into()))
    }
    fn serialize_newtype_variant<T: ?Sized + Serialize>(self, _: &'static str, _: u32, _: &'static str, _: &T) -> Result<(), TokError> {
        Err(TokError("unsupported: serialize_newtype_variant".into()))
    }
}
impl<'a> ser::SerializeStruct for &'a mut Recorder {
    type Ok = ();
    type Error = TokError;
    fn serialize_field<T: ?Sized + Serialize>(&mut self, key: &'static str, v: &T) -> Result<(), TokError> {
        self.toks.push(Tok::Field(key.to_string()));
        v.serialize(&mut **self)
    }
    fn end(self) -> Result<(), TokError> {
        self.toks.push(Tok::End);
        Ok(())
    }
}

impl<'a> ser::SerializeMap for &'a mut Recorder {
    type Ok = ();
    type Error = TokError;
    fn serialize_key<T: ?Sized + Serialize>(&mut self, key: &T) -> Result<(), TokError> {
        // the key must be a name: recorded through the recorder itself and turned into a Field token
        let at = self.toks.len();
        key.serialize(&mut **self)?;
        match (self.toks.len() == at + 1, self.toks.pop()) {
            (true, Some(Tok::Str(k))) => {
                self.toks.push(Tok::Field(k));
                if let Some(&o) = self.open.last() {
                    self.counts.resize(self.counts.len().max(o + 1), 0);
                    self.counts[o] += 1;
                }
                Ok(())
            }
            _ => Err(TokError("a map key that is not a string".into())),
        }
    }
    fn serialize_value<T: ?Sized + Serialize>(&mut self, v: &T) -> Result<(), TokError> {
        v.serialize(&mut **self)
    }
    fn end(self) -> Result<(), TokError> {
        if let Some(o) = self.open.pop() {
            let n = self.counts.get(o).copied().unwrap_or(0);
            if let Tok::Struct(name, _) = self.toks[o] {
                self.toks[o] = Tok::Struct(name, n);
            }
        }
        self.toks.push(Tok::End);
        Ok(())
    }
}

// ------------------------------------------------------------------ replayer
pub struct Replayer<'t> {
    toks: &'t [Tok],
    pos: usize,
    human: bool,
}
pub fn from_tokens<'t, V: de::Deserialize<'t>>(toks: &'t [Tok]) -> Result<V, TokError> {
    from_tokens_as(toks, true)
}
pub fn from_tokens_as<'t, V: de::Deserialize<'t>>(toks: &'t [Tok], human: bool) -> Result<V, TokError> {
    let mut r = Replayer { toks, pos: 0, human };
    let v = V::deserialize(&mut r)?;
    if r.pos != toks.len() {
        return Err(TokError(format!("trailing tokens at {}", r.pos)));
    }
    Ok(v)
}
impl<'t> Replayer<'t> {
    fn peek(&self) -> Option<&'t Tok> {
        self.toks.get(self.pos)
    }
    fn next(&mut self) -> Result<&'t Tok, TokError> {
        let t = self.toks.get(self.pos).ok_or_else(|| TokError("unexpected end of tokens".into()))?;
        self.pos += 1;
        Ok(t)
    }
    /// skip one complete value
    fn skip_value(&mut self) -> Result<(), TokError> {
        match self.next()? {
            Tok::Struct(..) => loop {
                match self.next()? {
                    Tok::End => return Ok(()),
                    Tok::Field(_) => self.skip_value()?,
                    t => return Err(TokError(format!("malformed struct: {:?}", t))),
                }
            },
            Tok::Newtype(_) => self.skip_value(),
            Tok::Field(_) | Tok::End => Err(TokError("value expected".into())),
            _ => Ok(()),
        }
    }
}
impl<'de, 'a, 't: 'de> de::Deserializer<'de> for &'a mut Replayer<'t> {
    type Error = TokError;
    fn is_human_readable(&self) -> bool {
        self.human
    }
    fn deserialize_any<V: Visitor<'de>>(self, v: V) -> Result<V::Value, TokError> {
        match self.peek() {
            Some(Tok::Struct(..)) => self.deserialize_map(v),
            Some(Tok::Newtype(_)) => {
                self.pos += 1;
                v.visit_newtype_struct(self)
            }
            _ => match self.next()? {
                Tok::F64(b) => v.visit_f64(f64::from_bits(*b)),
                Tok::F32(b) => v.visit_f32(f32::from_bits(*b)),
                Tok::I64(i) => v.visit_i64(*i),
                Tok::U64(u) => v.visit_u64(*u),
                Tok::Bool(b) => v.visit_bool(*b),
                Tok::Str(s) => v.visit_str(s),
                Tok::Field(s) => v.visit_str(s),
                Tok::Unit => v.visit_unit(),
                t => Err(TokError(format!("unexpected token {:?}", t))),
            },
        }
    }
    fn deserialize_struct<V: Visitor<'de>>(self, _name: &'static str, _fields: &'static [&'static str], v: V) -> Result<V::Value, TokError> {
        self.deserialize_map(v)
    }
    fn deserialize_map<V: Visitor<'de>>(self, v: V) -> Result<V::Value, TokError> {
        match self.next()? {
            Tok::Struct(..) => {}
            t => return Err(TokError(format!("struct expected, found {:?}", t))),
        }
        let r = v.visit_map(Fields { de: &mut *self })?;
        match self.next()? {
            Tok::End => Ok(r),
            t => Err(TokError(format!("end of struct expected, found {:?}", t))),
        }
    }
    fn deserialize_newtype_struct<V: Visitor<'de>>(self, _name: &'static str, v: V) -> Result<V::Value, TokError> {
        if let Some(Tok::Newtype(_)) = self.peek() {
            self.pos += 1;
        }
        v.visit_newtype_struct(self)
    }
    fn deserialize_identifier<V: Visitor<'de>>(self, v: V) -> Result<V::Value, TokError> {
        self.deserialize_str(v)
    }
    fn deserialize_str<V: Visitor<'de>>(self, v: V) -> Result<V::Value, TokError> {
        match self.next()? {
            Tok::Field(s) | Tok::Str(s) => v.visit_str(s),
            t => Err(TokError(format!("string expected, found {:?}", t))),
        }
    }
    fn deserialize_string<V: Visitor<'de>>(self, v: V) -> Result<V::Value, TokError> {
        self.deserialize_str(v)
    }
    /// as the self-describing formats do: a unit stands for None, anything else is the value itself
    fn deserialize_option<V: Visitor<'de>>(self, v: V) -> Result<V::Value, TokError> {
        if let Some(Tok::Unit) = self.peek() {
            self.pos += 1;
            v.visit_none()
        } else {
            v.visit_some(self)
        }
    }
    fn deserialize_ignored_any<V: Visitor<'de>>(self, v: V) -> Result<V::Value, TokError> {
        self.skip_value()?;
        v.visit_unit()
    }
    serde::forward_to_deserialize_any! {
        bool i8 i16 i32 i64 u8 u16 u32 u64 f32 f64 char bytes byte_buf unit unit_struct seq tuple tuple_struct enum
    }
}
struct Fields<'a, 't> {
    de: &'a mut Replayer<'t>,
}
impl<'de, 'a, 't: 'de> MapAccess<'de> for Fields<'a, 't> {
    type Error = TokError;
    fn next_key_seed<K: DeserializeSeed<'de>>(&mut self, seed: K) -> Result<Option<K::Value>, TokError> {
        match self.de.peek() {
            Some(Tok::Field(_)) => seed.deserialize(&mut *self.de).map(Some),
            Some(Tok::End) => Ok(None),
            t => Err(TokError(format!("field or end expected, found {:?}", t))),
        }
    }
    fn next_value_seed<V: DeserializeSeed<'de>>(&mut self, seed: V) -> Result<V::Value, TokError> {
        seed.deserialize(&mut *self.de)
    }
}
