//! Shared helpers for the property binaries: conversions between cgmath values and the
//! model's plain arrays. Reading and writing goes through *public fields* and struct
//! literals only, so that the harness itself does not depend on the conversion impls
//! that property C16 judges.

pub use cgmath::prelude::*;
pub use cgmath::{
    Basis2, Basis3, Decomposed, Deg, Euler, Matrix2, Matrix3, Matrix4, Point1, Point2, Point3, Quaternion, Rad,
    Vector1, Vector2, Vector3, Vector4,
};
pub use mc_core::alphabet::{self, DevSpace, SparseSpace, R};
pub use mc_core::engine::{guarded, panics, Ctx, Guard, Report};
pub use mc_core::ex::{self, set_lattice, Ex};
pub use mc_core::field::{Field, Sh};
pub use mc_core::model;
pub use mc_core::tier::*;
pub mod tokens;

use std::ops::*;

pub fn rq<T: Dom>(r: R) -> T {
    T::from_r(r).expect("value not representable in this scalar domain")
}

// ---------------------------------------------------------------- vectors / points
pub fn v1<T: Copy>(v: Vector1<T>) -> [T; 1] {
    [v.x]
}
pub fn v2<T: Copy>(v: Vector2<T>) -> [T; 2] {
    [v.x, v.y]
}
pub fn v3<T: Copy>(v: Vector3<T>) -> [T; 3] {
    [v.x, v.y, v.z]
}
pub fn v4<T: Copy>(v: Vector4<T>) -> [T; 4] {
    [v.x, v.y, v.z, v.w]
}
pub fn p1<T: Copy>(v: Point1<T>) -> [T; 1] {
    [v.x]
}
pub fn p2<T: Copy>(v: Point2<T>) -> [T; 2] {
    [v.x, v.y]
}
pub fn p3<T: Copy>(v: Point3<T>) -> [T; 3] {
    [v.x, v.y, v.z]
}
pub fn mk_v1<T: Copy>(a: [T; 1]) -> Vector1<T> {
    Vector1 { x: a[0] }
}
pub fn mk_v2<T: Copy>(a: [T; 2]) -> Vector2<T> {
    Vector2 { x: a[0], y: a[1] }
}
pub fn mk_v3<T: Copy>(a: [T; 3]) -> Vector3<T> {
    Vector3 { x: a[0], y: a[1], z: a[2] }
}
pub fn mk_v4<T: Copy>(a: [T; 4]) -> Vector4<T> {
    Vector4 { x: a[0], y: a[1], z: a[2], w: a[3] }
}
pub fn mk_p1<T: Copy>(a: [T; 1]) -> Point1<T> {
    Point1 { x: a[0] }
}
pub fn mk_p2<T: Copy>(a: [T; 2]) -> Point2<T> {
    Point2 { x: a[0], y: a[1] }
}
pub fn mk_p3<T: Copy>(a: [T; 3]) -> Point3<T> {
    Point3 { x: a[0], y: a[1], z: a[2] }
}
// ---------------------------------------------------------------- matrices [col][row]
pub fn m2<T: Copy>(m: Matrix2<T>) -> [[T; 2]; 2] {
    [v2(m.x), v2(m.y)]
}
pub fn m3<T: Copy>(m: Matrix3<T>) -> [[T; 3]; 3] {
    [v3(m.x), v3(m.y), v3(m.z)]
}
pub fn m4<T: Copy>(m: Matrix4<T>) -> [[T; 4]; 4] {
    [v4(m.x), v4(m.y), v4(m.z), v4(m.w)]
}
pub fn mk_m2<T: Copy>(a: [[T; 2]; 2]) -> Matrix2<T> {
    Matrix2 { x: mk_v2(a[0]), y: mk_v2(a[1]) }
}
pub fn mk_m3<T: Copy>(a: [[T; 3]; 3]) -> Matrix3<T> {
    Matrix3 { x: mk_v3(a[0]), y: mk_v3(a[1]), z: mk_v3(a[2]) }
}
pub fn mk_m4<T: Copy>(a: [[T; 4]; 4]) -> Matrix4<T> {
    Matrix4 { x: mk_v4(a[0]), y: mk_v4(a[1]), z: mk_v4(a[2]), w: mk_v4(a[3]) }
}
// ---------------------------------------------------------------- quaternions [w,x,y,z]
pub fn qa<T: Copy>(q: Quaternion<T>) -> [T; 4] {
    [q.s, q.v.x, q.v.y, q.v.z]
}
pub fn mk_q<T: Copy>(a: [T; 4]) -> Quaternion<T> {
    Quaternion { s: a[0], v: Vector3 { x: a[1], y: a[2], z: a[3] } }
}
pub fn basis3_arr<T: Tier>(b: Basis3<T>) -> [[T; 3]; 3] {
    let m: &Matrix3<T> = b.as_ref();
    m3(*m)
}
pub fn basis2_arr<T: Tier>(b: Basis2<T>) -> [[T; 2]; 2] {
    let m: &Matrix2<T> = b.as_ref();
    m2(*m)
}

/// Dimension-generic view of cgmath's vectors for the harness.
pub trait VecN<T: Dom, const N: usize>:
    Copy
    + std::fmt::Debug
    + PartialEq
    + VectorSpace<Scalar = T>
    + InnerSpace
    + MetricSpace<Metric = T>
    + Array<Element = T>
    + ElementWise
    + ElementWise<T>
    + AddAssign
    + SubAssign
    + MulAssign<T>
    + DivAssign<T>
    + RemAssign<T>
    + Send
    + Sync
{
    const NAME: &'static str;
    fn mk(a: [T; N]) -> Self;
    fn arr(self) -> [T; N];
}
macro_rules! vecn {
    ($V:ident, $n:expr, $mk:ident, $arr:ident) => {
        impl<T: Dom> VecN<T, $n> for $V<T> {
            const NAME: &'static str = stringify!($V);
            fn mk(a: [T; $n]) -> Self {
                $mk(a)
            }
            fn arr(self) -> [T; $n] {
                $arr(self)
            }
        }
    };
}
vecn!(Vector1, 1, mk_v1, v1);
vecn!(Vector2, 2, mk_v2, v2);
vecn!(Vector3, 3, mk_v3, v3);
vecn!(Vector4, 4, mk_v4, v4);

/// Dimension-generic view of cgmath's square matrices for the harness.
pub trait MatN<T: Tier, const N: usize>:
    Copy
    + std::fmt::Debug
    + PartialEq
    + SquareMatrix<Scalar = T, ColumnRow = <Self as MatN<T, N>>::V>
    + Neg<Output = Self>
    + AddAssign
    + SubAssign
    + MulAssign<T>
    + DivAssign<T>
    + RemAssign<T>
    + Send
    + Sync
{
    type V: VecN<T, N> + Neg<Output = Self::V>;
    const NAME: &'static str;
    fn mk(a: [[T; N]; N]) -> Self;
    fn arr(self) -> [[T; N]; N];
    /// the public constructor `new(c0r0, c0r1, ...)` (column-major argument order)
    fn new_flat(a: [[T; N]; N]) -> Self;
    fn from_cols_arr(a: [[T; N]; N]) -> Self;
    fn from_nested(a: [[T; N]; N]) -> Self;
    /// the by-reference operand forms of the matrix product: [&a * b, a * &b, &a * &b]
    fn mul_forms(a: Self, b: Self) -> [Self; 3];
    /// ... and of the matrix-vector product: [&a * v, a * &v, &a * &v]
    fn mulv_forms(a: Self, v: Self::V) -> [Self::V; 3];
}
impl<T: Tier> MatN<T, 2> for Matrix2<T> {
    type V = Vector2<T>;
    const NAME: &'static str = "Matrix2";
    fn mk(a: [[T; 2]; 2]) -> Self {
        mk_m2(a)
    }
    fn arr(self) -> [[T; 2]; 2] {
        m2(self)
    }
    fn new_flat(a: [[T; 2]; 2]) -> Self {
        Matrix2::new(a[0][0], a[0][1], a[1][0], a[1][1])
    }
    fn from_cols_arr(a: [[T; 2]; 2]) -> Self {
        Matrix2::from_cols(mk_v2(a[0]), mk_v2(a[1]))
    }
    fn from_nested(a: [[T; 2]; 2]) -> Self {
        a.into()
    }
    fn mul_forms(a: Self, b: Self) -> [Self; 3] {
        [&a * b, a * &b, &a * &b]
    }
    fn mulv_forms(a: Self, v: Self::V) -> [Self::V; 3] {
        [&a * v, a * &v, &a * &v]
    }
}
impl<T: Tier> MatN<T, 3> for Matrix3<T> {
    type V = Vector3<T>;
    const NAME: &'static str = "Matrix3";
    fn mk(a: [[T; 3]; 3]) -> Self {
        mk_m3(a)
    }
    fn arr(self) -> [[T; 3]; 3] {
        m3(self)
    }
    fn new_flat(a: [[T; 3]; 3]) -> Self {
        Matrix3::new(a[0][0], a[0][1], a[0][2], a[1][0], a[1][1], a[1][2], a[2][0], a[2][1], a[2][2])
    }
    fn from_cols_arr(a: [[T; 3]; 3]) -> Self {
        Matrix3::from_cols(mk_v3(a[0]), mk_v3(a[1]), mk_v3(a[2]))
    }
    fn from_nested(a: [[T; 3]; 3]) -> Self {
        a.into()
    }
    fn mul_forms(a: Self, b: Self) -> [Self; 3] {
        [&a * b, a * &b, &a * &b]
    }
    fn mulv_forms(a: Self, v: Self::V) -> [Self::V; 3] {
        [&a * v, a * &v, &a * &v]
    }
}
impl<T: Tier> MatN<T, 4> for Matrix4<T> {
    type V = Vector4<T>;
    const NAME: &'static str = "Matrix4";
    fn mk(a: [[T; 4]; 4]) -> Self {
        mk_m4(a)
    }
    fn arr(self) -> [[T; 4]; 4] {
        m4(self)
    }
    fn new_flat(a: [[T; 4]; 4]) -> Self {
        Matrix4::new(
            a[0][0], a[0][1], a[0][2], a[0][3], a[1][0], a[1][1], a[1][2], a[1][3], a[2][0], a[2][1], a[2][2],
            a[2][3], a[3][0], a[3][1], a[3][2], a[3][3],
        )
    }
    fn from_cols_arr(a: [[T; 4]; 4]) -> Self {
        Matrix4::from_cols(mk_v4(a[0]), mk_v4(a[1]), mk_v4(a[2]), mk_v4(a[3]))
    }
    fn from_nested(a: [[T; 4]; 4]) -> Self {
        a.into()
    }
    fn mul_forms(a: Self, b: Self) -> [Self; 3] {
        [&a * b, a * &b, &a * &b]
    }
    fn mulv_forms(a: Self, v: Self::V) -> [Self::V; 3] {
        [&a * v, a * &v, &a * &v]
    }
}

/// build an `N x N` array from a flat list of rationals (column-major)
pub fn mat_from_r<T: Dom, const N: usize>(r: &[R]) -> [[T; N]; N] {
    std::array::from_fn(|c| std::array::from_fn(|row| rq::<T>(r[c * N + row])))
}
pub fn vec_from_r<T: Dom, const N: usize>(r: &[R]) -> [T; N] {
    std::array::from_fn(|i| rq::<T>(r[i]))
}
/// apply deviations `(position, letter)` to a flat rational list
pub fn deviate(base: &[R], dev: &[(usize, usize)], letters: &[R]) -> Vec<R> {
    let mut v = base.to_vec();
    for &(p, l) in dev {
        v[p] = letters[l];
    }
    v
}

/// run `f` once per scalar tier
#[macro_export]
macro_rules! for_float_tiers {
    ($f:ident, $($arg:expr),*) => {{
        $f::<mc_core::Ex>($($arg),*);
        $f::<f64>($($arg),*);
        $f::<f32>($($arg),*);
    }};
}

/// BFS state: a flat register file of scalars, hashed/compared by `Tier::key`.
#[derive(Clone, Debug)]
pub struct St<T: Dom>(pub Vec<T>);
impl<T: Dom> PartialEq for St<T> {
    fn eq(&self, o: &Self) -> bool {
        self.0.len() == o.0.len() && self.0.iter().zip(&o.0).all(|(a, b)| a.key() == b.key())
    }
}
impl<T: Dom> Eq for St<T> {}
impl<T: Dom> std::hash::Hash for St<T> {
    fn hash<H: std::hash::Hasher>(&self, h: &mut H) {
        for x in &self.0 {
            x.key().hash(h);
        }
    }
}
impl<T: Dom> St<T> {
    pub fn mat<const N: usize>(&self, off: usize) -> [[T; N]; N] {
        std::array::from_fn(|c| std::array::from_fn(|r| self.0[off + c * N + r]))
    }
    pub fn vec<const N: usize>(&self, off: usize) -> [T; N] {
        std::array::from_fn(|i| self.0[off + i])
    }
    pub fn show(&self) -> String {
        format!("{:?}", self.0)
    }
}
pub fn flat_m<T: Copy, const N: usize>(m: [[T; N]; N]) -> Vec<T> {
    m.iter().flat_map(|c| c.iter().copied()).collect()
}

/// negation where the scalar domain has it (unsigned integers do not)
pub trait MaybeNeg: Sized {
    fn try_neg(self) -> Option<Self>;
}
macro_rules! maybe_neg {
    ($V:ident) => {
        maybe_neg!(@s $V; Ex, f64, f32, i8, i16, i32, i64, isize);
        maybe_neg!(@u $V; u8, u16, u32, u64, usize);
    };
    (@s $V:ident; $($s:ty),*) => { $( impl MaybeNeg for $V<$s> { fn try_neg(self) -> Option<Self> { Some(-self) } } )* };
    (@u $V:ident; $($u:ty),*) => { $( impl MaybeNeg for $V<$u> { fn try_neg(self) -> Option<Self> { None } } )* };
}
maybe_neg!(Vector1);
maybe_neg!(Vector2);
maybe_neg!(Vector3);
maybe_neg!(Vector4);

/// run a generic function once per scalar domain (3 tiers + 10 integer types)
#[macro_export]
macro_rules! for_all_doms {
    ($f:ident, $($arg:expr),*) => {{
        $f::<mc_core::Ex>($($arg),*);
        $f::<f64>($($arg),*);
        $f::<f32>($($arg),*);
        $f::<i8>($($arg),*);
        $f::<i16>($($arg),*);
        $f::<i32>($($arg),*);
        $f::<i64>($($arg),*);
        $f::<isize>($($arg),*);
        $f::<u8>($($arg),*);
        $f::<u16>($($arg),*);
        $f::<u32>($($arg),*);
        $f::<u64>($($arg),*);
        $f::<usize>($($arg),*);
    }};
}

/// BFS state carrying an arbitrary value, hashed/compared by an explicit key
/// (the full component tuple of the value: canonicalisation drops nothing observable).
#[derive(Clone, Debug)]
pub struct Keyed<X: Clone> {
    pub key: Vec<(i128, i128)>,
    pub val: X,
}
impl<X: Clone> PartialEq for Keyed<X> {
    fn eq(&self, o: &Self) -> bool {
        self.key == o.key
    }
}
impl<X: Clone> Eq for Keyed<X> {}
impl<X: Clone> std::hash::Hash for Keyed<X> {
    fn hash<H: std::hash::Hasher>(&self, h: &mut H) {
        self.key.hash(h);
    }
}
pub fn keys<T: Dom>(v: &[T]) -> Vec<(i128, i128)> {
    v.iter().map(|x| x.key()).collect()
}
