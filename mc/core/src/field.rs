//! The reference model's scalar abstraction: `Field`, implemented by the exact rational
//! `Ex` (tier X) and by `Sh`, an f64 value carrying a first-order running error bound
//! (tiers D/F, DESIGN 2.5).

use crate::ex::{domain_exit, lattice_cs, Ex};
use num_traits::Float;
use std::fmt::Debug;
use std::ops::*;

pub trait Field:
    Copy
    + Debug
    + PartialEq
    + PartialOrd
    + Add<Output = Self>
    + Sub<Output = Self>
    + Mul<Output = Self>
    + Div<Output = Self>
    + Neg<Output = Self>
    + Send
    + Sync
    + 'static
{
    fn zero() -> Self;
    fn one() -> Self;
    fn int(i: i64) -> Self;
    fn ratio(n: i64, d: i64) -> Self {
        Self::int(n) / Self::int(d)
    }
    fn sqrt(self) -> Self;
    /// (cos, sin) of an angle given in the tier's angular unit (lattice code for `Ex`,
    /// radians for `Sh`)
    fn cos_sin(self) -> (Self, Self);
    fn abs(self) -> Self {
        if self < Self::zero() {
            -self
        } else {
            self
        }
    }
    fn approx(self) -> f64;
    fn is_zero(self) -> bool {
        self == Self::zero()
    }
    /// the same value, additionally carrying `other`'s error bound (no-op in the exact field);
    /// used to compare a law's residual against the bound the model derived for it
    fn with_err_of(self, _other: Self) -> Self {
        self
    }
    /// running error bound in units of u (0 in the exact field)
    fn err(self) -> f64 {
        0.0
    }
    /// the same value with `units` more units of u of absolute error allowed (no-op in the
    /// exact field); for laws whose error is absolute, of the size of the operands
    fn with_abs_err(self, _units: f64) -> Self {
        self
    }
}

impl Field for Ex {
    fn zero() -> Ex {
        Ex::ZERO
    }
    fn one() -> Ex {
        Ex::ONE
    }
    fn int(i: i64) -> Ex {
        Ex::int(i)
    }
    fn ratio(n: i64, d: i64) -> Ex {
        Ex::q(n, d)
    }
    fn sqrt(self) -> Ex {
        Float::sqrt(self)
    }
    fn cos_sin(self) -> (Ex, Ex) {
        if !self.is_integer() {
            domain_exit("off-lattice angle (model)")
        }
        lattice_cs(self.num() as i64)
    }
    fn approx(self) -> f64 {
        Ex::approx(self)
    }
}

/// Shadow float: `v` is the f64 value computed by the model, `e` a first-order bound on
/// its absolute error *in units of the unit roundoff u of the tier being judged*
/// (inputs are exact: `e = 0`; every operation adds its own rounding `|result|`).
#[derive(Clone, Copy, Debug)]
pub struct Sh {
    pub v: f64,
    pub e: f64,
}

impl Sh {
    #[inline]
    pub fn exact(v: f64) -> Sh {
        Sh { v, e: 0.0 }
    }
    /// a value that itself carries one rounding (e.g. a rational rounded to the float type)
    #[inline]
    pub fn rounded(v: f64) -> Sh {
        Sh { v, e: v.abs() }
    }
    pub fn atan2(y: Sh, x: Sh) -> Sh {
        let r2 = x.v * x.v + y.v * y.v;
        let v = y.v.atan2(x.v);
        // d atan2 = (x dy - y dx) / r^2
        let e = if r2 > 0.0 { (x.v.abs() * y.e + y.v.abs() * x.e) / r2 } else { 0.0 };
        Sh { v, e: e + v.abs() }
    }
    pub fn acos(self) -> Sh {
        let v = self.v.clamp(-1.0, 1.0).acos();
        let s = (1.0 - self.v * self.v).max(0.0).sqrt();
        let e = if s > 0.0 { self.e / s } else { f64::INFINITY };
        Sh { v, e: e + v.abs() }
    }
    pub fn asin(self) -> Sh {
        let v = self.v.clamp(-1.0, 1.0).asin();
        let s = (1.0 - self.v * self.v).max(0.0).sqrt();
        let e = if s > 0.0 { self.e / s } else { f64::INFINITY };
        Sh { v, e: e + v.abs() }
    }
    pub fn tan(self) -> Sh {
        let v = self.v.tan();
        let c = self.v.cos();
        Sh { v, e: self.e / (c * c) + 2.0 * v.abs() }
    }
}

impl PartialEq for Sh {
    fn eq(&self, o: &Sh) -> bool {
        self.v == o.v
    }
}
impl PartialOrd for Sh {
    fn partial_cmp(&self, o: &Sh) -> Option<std::cmp::Ordering> {
        self.v.partial_cmp(&o.v)
    }
}
impl Add for Sh {
    type Output = Sh;
    #[inline]
    fn add(self, o: Sh) -> Sh {
        let v = self.v + o.v;
        Sh { v, e: self.e + o.e + v.abs() }
    }
}
impl Sub for Sh {
    type Output = Sh;
    #[inline]
    fn sub(self, o: Sh) -> Sh {
        let v = self.v - o.v;
        Sh { v, e: self.e + o.e + v.abs() }
    }
}
impl Mul for Sh {
    type Output = Sh;
    #[inline]
    fn mul(self, o: Sh) -> Sh {
        let v = self.v * o.v;
        Sh { v, e: self.v.abs() * o.e + o.v.abs() * self.e + v.abs() }
    }
}
impl Div for Sh {
    type Output = Sh;
    #[inline]
    fn div(self, o: Sh) -> Sh {
        let v = self.v / o.v;
        Sh { v, e: (self.e + v.abs() * o.e) / o.v.abs() + v.abs() }
    }
}
impl Neg for Sh {
    type Output = Sh;
    #[inline]
    fn neg(self) -> Sh {
        Sh { v: -self.v, e: self.e }
    }
}
impl Field for Sh {
    fn zero() -> Sh {
        Sh::exact(0.0)
    }
    fn one() -> Sh {
        Sh::exact(1.0)
    }
    fn int(i: i64) -> Sh {
        Sh::exact(i as f64)
    }
    fn sqrt(self) -> Sh {
        let v = self.v.sqrt();
        let e = if v > 0.0 { self.e / (2.0 * v) } else { self.e.sqrt() };
        Sh { v, e: e + v.abs() }
    }
    fn cos_sin(self) -> (Sh, Sh) {
        let (s, c) = self.v.sin_cos();
        // first order: d cos = -sin dx, d sin = cos dx; libm's own result is within an ulp of the value (its argument
        // reduction is exact). No absolute floor: sin of a tiny angle is known to a *relative* rounding, which is
        // what exposes a small-angle short cut
        (Sh { v: c, e: self.e * s.abs() + c.abs() }, Sh { v: s, e: self.e * c.abs() + s.abs() })
    }
    fn approx(self) -> f64 {
        self.v
    }
    fn with_err_of(self, other: Sh) -> Sh {
        Sh { v: self.v, e: self.e + other.e }
    }
    fn err(self) -> f64 {
        self.e
    }
    fn with_abs_err(self, units: f64) -> Sh {
        Sh { v: self.v, e: self.e + units }
    }
}
