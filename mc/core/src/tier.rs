//! Scalar tiers (DESIGN 2.1): the scalar types at which cgmath's generic code is
//! instantiated, each with its model field and its comparison rule.

use crate::engine::Ctx;
use crate::ex::Ex;
use crate::field::{Field, Sh};
use num_traits::Float;
use std::fmt::Debug;
use std::ops::*;

/// A scalar domain at which cgmath's `BaseNum`-generic code is instantiated: the three
/// float-like tiers and the ten integer primitives (tier I).
pub trait Dom:
    Copy
    + Debug
    + PartialOrd
    + num_traits::Num
    + num_traits::NumCast
    + AddAssign
    + SubAssign
    + MulAssign
    + DivAssign
    + RemAssign
    + Send
    + Sync
    + 'static
{
    type M: Field;
    const NAME: &'static str;
    const EXACT: bool;
    const SIGNED: bool;
    const INTEGER: bool;
    /// the value n/d if this domain represents it (floats: nearest; integers: only exact)
    fn from_r(r: (i64, i64)) -> Option<Self>;
    /// exact embedding of an implementation value into the model field
    fn lift(self) -> Self::M;
    fn key(self) -> (i128, i128);
    /// conformance: does the implementation value agree with the model value?
    /// `slack` multiplies the tolerance in float tiers (condition factor of a law; 1 for
    /// lock-step formulas) and is ignored in exact domains.
    fn close(self, m: Self::M, slack: f64) -> bool;
    fn f(self) -> f64;
    /// can this domain hold the model value (integers: in range; others: always)?
    fn representable(_m: Self::M) -> bool {
        true
    }
}

pub trait Tier:
    Dom
    + Float
    + approx::AbsDiffEq<Epsilon = Self>
    + approx::RelativeEq<Epsilon = Self>
    + approx::UlpsEq<Epsilon = Self>
    + Debug
    + AddAssign
    + SubAssign
    + MulAssign
    + DivAssign
    + RemAssign
    + Send
    + Sync
    + 'static
{
    /// unit roundoff (0 for the exact tier)
    const U: f64;
    /// nearest representable value of n/d
    fn q(n: i64, d: i64) -> Self;
    fn int(n: i64) -> Self {
        Self::q(n, 1)
    }
    /// implementation value nearest to a model value
    fn lower(m: Self::M) -> Self;
    fn show(self) -> String {
        format!("{:?}", self)
    }
    /// absolute tolerance used for a model value in this tier (0 in tier X)
    fn tol(m: Self::M, slack: f64) -> f64;
}

pub const K_TOL: f64 = 256.0;

impl Dom for Ex {
    type M = Ex;
    const NAME: &'static str = "X";
    const EXACT: bool = true;
    const SIGNED: bool = true;
    const INTEGER: bool = false;
    fn from_r(r: (i64, i64)) -> Option<Ex> {
        Some(Ex::q(r.0, r.1))
    }
    fn lift(self) -> Ex {
        self
    }
    fn key(self) -> (i128, i128) {
        (self.num(), self.den())
    }
    fn close(self, m: Ex, _slack: f64) -> bool {
        self == m
    }
    fn f(self) -> f64 {
        self.approx()
    }
}
impl Tier for Ex {
    const U: f64 = 0.0;
    fn q(n: i64, d: i64) -> Ex {
        Ex::q(n, d)
    }
    fn lower(m: Ex) -> Ex {
        m
    }
    fn tol(_: Ex, _: f64) -> f64 {
        0.0
    }
}

fn close_f(v: f64, m: Sh, u: f64, tiny: f64, slack: f64) -> bool {
    if v.is_nan() || m.v.is_nan() {
        return false;
    }
    if v == m.v {
        return true; // also covers equal infinities
    }
    (v - m.v).abs() <= tol_f(m, u, tiny, slack)
}
fn tol_f(m: Sh, u: f64, tiny: f64, slack: f64) -> f64 {
    K_TOL * u * (m.e + m.v.abs()) * slack.max(1.0) + K_TOL * tiny
}

impl Dom for f64 {
    type M = Sh;
    const NAME: &'static str = "D";
    const EXACT: bool = false;
    const SIGNED: bool = true;
    const INTEGER: bool = false;
    fn from_r(r: (i64, i64)) -> Option<f64> {
        Some(r.0 as f64 / r.1 as f64)
    }
    fn lift(self) -> Sh {
        Sh::exact(self)
    }
    fn key(self) -> (i128, i128) {
        (self.to_bits() as i128, 0)
    }
    fn close(self, m: Sh, slack: f64) -> bool {
        close_f(self, m, <f64 as Tier>::U, 5e-324, slack)
    }
    fn f(self) -> f64 {
        self
    }
}
impl Tier for f64 {
    const U: f64 = 1.1102230246251565e-16; // 2^-53
    fn q(n: i64, d: i64) -> f64 {
        n as f64 / d as f64
    }
    fn lower(m: Sh) -> f64 {
        m.v
    }
    fn tol(m: Sh, slack: f64) -> f64 {
        tol_f(m, Self::U, 5e-324, slack)
    }
}

impl Dom for f32 {
    type M = Sh;
    const NAME: &'static str = "F";
    const EXACT: bool = false;
    const SIGNED: bool = true;
    const INTEGER: bool = false;
    fn from_r(r: (i64, i64)) -> Option<f32> {
        Some((r.0 as f64 / r.1 as f64) as f32)
    }
    fn lift(self) -> Sh {
        Sh::exact(self as f64)
    }
    fn key(self) -> (i128, i128) {
        (self.to_bits() as i128, 1)
    }
    fn close(self, m: Sh, slack: f64) -> bool {
        close_f(self as f64, m, <f32 as Tier>::U, 1.4e-45, slack)
    }
    fn f(self) -> f64 {
        self as f64
    }
}
impl Tier for f32 {
    const U: f64 = 5.960464477539063e-08; // 2^-24
    fn q(n: i64, d: i64) -> f32 {
        (n as f64 / d as f64) as f32
    }
    fn lower(m: Sh) -> f32 {
        m.v as f32
    }
    fn tol(m: Sh, slack: f64) -> f64 {
        tol_f(m, Self::U, 1.4e-45, slack)
    }
}

macro_rules! int_dom {
    ($t:ty, $name:expr, $signed:expr) => {
        impl Dom for $t {
            type M = Ex;
            const NAME: &'static str = $name;
            const EXACT: bool = true;
            const SIGNED: bool = $signed;
            const INTEGER: bool = true;
            fn from_r(r: (i64, i64)) -> Option<$t> {
                if r.1 != 1 {
                    return None;
                }
                <$t>::try_from(r.0).ok()
            }
            fn lift(self) -> Ex {
                Ex::new(self as i128, 1)
            }
            fn key(self) -> (i128, i128) {
                (self as i128, 1)
            }
            fn close(self, m: Ex, _slack: f64) -> bool {
                Ex::new(self as i128, 1) == m
            }
            fn f(self) -> f64 {
                self as f64
            }
            fn representable(m: Ex) -> bool {
                m.is_integer() && <$t>::try_from(m.num()).is_ok()
            }
        }
    };
}
int_dom!(i8, "i8", true);
int_dom!(i16, "i16", true);
int_dom!(i32, "i32", true);
int_dom!(i64, "i64", true);
int_dom!(isize, "isize", true);
int_dom!(u8, "u8", false);
int_dom!(u16, "u16", false);
int_dom!(u32, "u32", false);
int_dom!(u64, "u64", false);
int_dom!(usize, "usize", false);

// ------------------------------------------------------------------ comparison helpers

pub fn lift_v<T: Dom, const N: usize>(v: [T; N]) -> [T::M; N] {
    std::array::from_fn(|i| v[i].lift())
}
pub fn lift_m<T: Dom, const N: usize>(m: [[T; N]; N]) -> [[T::M; N]; N] {
    std::array::from_fn(|c| lift_v(m[c]))
}
pub fn lower_v<T: Tier, const N: usize>(v: [T::M; N]) -> [T; N] {
    std::array::from_fn(|i| T::lower(v[i]))
}
pub fn lower_m<T: Tier, const N: usize>(m: [[T::M; N]; N]) -> [[T; N]; N] {
    std::array::from_fn(|c| lower_v::<T, N>(m[c]))
}

/// lock-step comparison of a slice of implementation values with model values
pub fn eq_slice<T: Dom>(ctx: &mut Ctx, key: &str, got: &[T], exp: &[T::M], slack: f64) -> bool {
    ctx.t();
    let mut ok = got.len() == exp.len();
    for g in got {
        ctx.out(&g.key());
    }
    if ok {
        for (g, e) in got.iter().zip(exp.iter()) {
            if !g.close(*e, slack) {
                ok = false;
                break;
            }
        }
    }
    if !ok {
        ctx.fail(key, || format!("got {:?} expected {:?}", got, exp));
    }
    ok
}
pub fn eq_s<T: Dom>(ctx: &mut Ctx, key: &str, got: T, exp: T::M) -> bool {
    eq_slice::<T>(ctx, key, &[got], &[exp], 1.0)
}
pub fn eq_v<T: Dom, const N: usize>(ctx: &mut Ctx, key: &str, got: [T; N], exp: [T::M; N]) -> bool {
    eq_slice::<T>(ctx, key, &got, &exp, 1.0)
}
pub fn eq_vc<T: Dom, const N: usize>(ctx: &mut Ctx, key: &str, got: [T; N], exp: [T::M; N], slack: f64) -> bool {
    eq_slice::<T>(ctx, key, &got, &exp, slack)
}
pub fn eq_m<T: Dom, const N: usize>(ctx: &mut Ctx, key: &str, got: [[T; N]; N], exp: [[T::M; N]; N]) -> bool {
    eq_mc::<T, N>(ctx, key, got, exp, 1.0)
}
pub fn eq_mc<T: Dom, const N: usize>(
    ctx: &mut Ctx,
    key: &str,
    got: [[T; N]; N],
    exp: [[T::M; N]; N],
    slack: f64,
) -> bool {
    let g: Vec<T> = got.iter().flat_map(|c| c.iter().copied()).collect();
    let e: Vec<T::M> = exp.iter().flat_map(|c| c.iter().copied()).collect();
    eq_slice::<T>(ctx, key, &g, &e, slack)
}
/// two implementation results that must be *identical* (same bits / same rational)
pub fn same_slice<T: Dom>(ctx: &mut Ctx, key: &str, a: &[T], b: &[T]) -> bool {
    ctx.t();
    let ok = a.len() == b.len() && a.iter().zip(b).all(|(x, y)| x.key() == y.key() || x == y);
    if !ok {
        ctx.fail(key, || format!("{:?} differs from {:?}", a, b));
    }
    ok
}
