//! Finite alphabets and indexable spaces (DESIGN section 3 notation).
//! All values are rationals `(n, d)`; tiers convert them with `Tier::q`.

use std::collections::BTreeSet;

pub type R = (i64, i64);

pub const A0: [R; 3] = [(0, 1), (1, 1), (-1, 1)];
pub const A1: [R; 6] = [(-2, 1), (-1, 1), (0, 1), (1, 1), (2, 1), (1, 2)];
pub const A2: [R; 10] =
    [(-2, 1), (-1, 1), (0, 1), (1, 1), (2, 1), (1, 2), (3, 1), (-3, 2), (5, 1), (7, 4)];

/// "Generic" values: pairwise distinct, sign-mixed, all dyadic (exactly representable in
/// f32/f64), none zero. `variant` selects one of several bases.
pub fn generic(n: usize, variant: usize) -> Vec<R> {
    const P: [i64; 48] = [
        2, 3, 5, 7, 11, 13, 17, 19, 23, 29, 31, 37, 41, 43, 47, 53, 59, 61, 67, 71, 73, 79, 83, 89, 97, 101, 103,
        107, 109, 113, 127, 131, 137, 139, 149, 151, 157, 163, 167, 173, 179, 181, 191, 193, 197, 199, 211, 223,
    ];
    assert!(n <= 48);
    let mult = [1usize, 5, 7, 11][variant % 4]; // coprime to 48: a permutation of the primes
    (0..n)
        .map(|i| {
            let j = (i * mult + 5 * variant) % 48;
            let p = P[j];
            let sign = if (i + variant) % 2 == 0 { 1 } else { -1 };
            let den = [1, 1, 2, 2, 4, 1, 2, 4][(i + 3 * variant) % 8];
            (sign * p, den)
        })
        .collect()
}

fn perms3(v: [i64; 3]) -> Vec<[i64; 3]> {
    let idx = [[0, 1, 2], [0, 2, 1], [1, 0, 2], [1, 2, 0], [2, 0, 1], [2, 1, 0]];
    idx.iter().map(|p| [v[p[0]], v[p[1]], v[p[2]]]).collect()
}
fn perms4(v: [i64; 4]) -> Vec<[i64; 4]> {
    let mut out = Vec::new();
    for a in 0..4 {
        for b in 0..4 {
            for c in 0..4 {
                for d in 0..4 {
                    let s: BTreeSet<usize> = [a, b, c, d].into_iter().collect();
                    if s.len() == 4 {
                        out.push([v[a], v[b], v[c], v[d]]);
                    }
                }
            }
        }
    }
    out
}

/// Rational unit vectors in 2-D: Pythagorean pairs with all sign/swap variants, plus axes.
/// Each entry is `([x, y], den)`.
pub fn uv2() -> Vec<([i64; 2], i64)> {
    let base: [([i64; 2], i64); 5] = [([1, 0], 1), ([3, 4], 5), ([5, 12], 13), ([8, 15], 17), ([20, 21], 29)];
    let mut set = BTreeSet::new();
    for (v, d) in base {
        for sw in 0..2 {
            let w = if sw == 0 { v } else { [v[1], v[0]] };
            for sx in [1, -1] {
                for sy in [1, -1] {
                    set.insert(([w[0] * sx, w[1] * sy], d));
                }
            }
        }
    }
    set.into_iter().collect()
}

/// Rational unit vectors in 3-D with all sign/permutation variants (`full`), or a small
/// representative subset.
pub fn uv3(full: bool) -> Vec<([i64; 3], i64)> {
    let base: [([i64; 3], i64); 8] = [
        ([1, 0, 0], 1),
        ([1, 2, 2], 3),
        ([2, 3, 6], 7),
        ([1, 4, 8], 9),
        ([4, 4, 7], 9),
        ([2, 6, 9], 11),
        ([6, 6, 7], 11),
        ([0, 3, 4], 5),
    ];
    let mut set = BTreeSet::new();
    for (v, d) in base {
        for p in perms3(v) {
            for s in 0..8 {
                let w = [
                    p[0] * if s & 1 == 0 { 1 } else { -1 },
                    p[1] * if s & 2 == 0 { 1 } else { -1 },
                    p[2] * if s & 4 == 0 { 1 } else { -1 },
                ];
                set.insert((w, d));
            }
        }
    }
    let all: Vec<_> = set.into_iter().collect();
    if full {
        all
    } else {
        // deterministic thinning: every 11th plus the axes
        let mut out: Vec<([i64; 3], i64)> = all.iter().copied().filter(|(_, d)| *d == 1).collect();
        out.extend(all.iter().copied().filter(|(_, d)| *d != 1).step_by(11));
        out
    }
}

/// Rational unit quaternions `([w, x, y, z], den)`: four-square tuples with permutations
/// and signs. `level` 0: ~60 (quick), 1: all permutations/sign patterns (~3000).
pub fn uq(level: usize) -> Vec<([i64; 4], i64)> {
    let base: [([i64; 4], i64); 11] = [
        ([1, 0, 0, 0], 1),
        ([1, 1, 1, 1], 2),
        ([1, 2, 2, 4], 5),
        ([2, 4, 5, 6], 9),
        ([1, 1, 3, 5], 6),
        ([2, 2, 3, 8], 9),
        ([1, 3, 3, 9], 10),
        ([1, 2, 4, 10], 11),
        ([0, 0, 3, 4], 5),
        ([0, 1, 2, 2], 3),
        ([0, 2, 3, 6], 7),
    ];
    let mut set = BTreeSet::new();
    for (v, d) in base {
        for p in perms4(v) {
            for s in 0..16 {
                let w = [
                    p[0] * if s & 1 == 0 { 1 } else { -1 },
                    p[1] * if s & 2 == 0 { 1 } else { -1 },
                    p[2] * if s & 4 == 0 { 1 } else { -1 },
                    p[3] * if s & 8 == 0 { 1 } else { -1 },
                ];
                set.insert((w, d));
            }
        }
    }
    let all: Vec<_> = set.into_iter().collect();
    match level {
        0 => {
            let n = all.len();
            let step = (n / 56).max(1);
            let mut out: Vec<_> = all.iter().copied().filter(|(_, d)| *d == 1).collect();
            out.extend(all.iter().copied().filter(|(_, d)| *d != 1).step_by(step));
            out
        }
        _ => all,
    }
}

/// mixed-radix decode of `idx` over `dims` (least significant first)
pub fn decode(mut idx: usize, dims: &[usize]) -> Vec<usize> {
    dims.iter()
        .map(|&d| {
            let r = idx % d;
            idx /= d;
            r
        })
        .collect()
}
pub fn product_len(dims: &[usize]) -> usize {
    dims.iter().product()
}

/// Deviation-bounded space: a base with `positions` slots; every way of replacing at most
/// `k` slots, each by one of `letters` alphabet values. Ordered by number of deviations.
pub struct DevSpace {
    pub positions: usize,
    pub letters: usize,
    pub k: usize,
    subsets: Vec<Vec<usize>>,
    offsets: Vec<usize>, // cumulative start index per subset
    total: usize,
}
impl DevSpace {
    pub fn new(positions: usize, letters: usize, k: usize) -> DevSpace {
        fn rec(start: usize, left: usize, positions: usize, cur: &mut Vec<usize>, out: &mut Vec<Vec<usize>>) {
            if left == 0 {
                out.push(cur.clone());
                return;
            }
            for p in start..positions {
                cur.push(p);
                rec(p + 1, left - 1, positions, cur, out);
                cur.pop();
            }
        }
        let mut subsets: Vec<Vec<usize>> = Vec::new();
        for size in 0..=k.min(positions) {
            rec(0, size, positions, &mut Vec::new(), &mut subsets);
        }
        let mut offsets = Vec::with_capacity(subsets.len());
        let mut total = 0usize;
        for s in &subsets {
            offsets.push(total);
            total += letters.pow(s.len() as u32);
        }
        DevSpace { positions, letters, k, subsets, offsets, total }
    }
    pub fn len(&self) -> usize {
        self.total
    }
    /// deviations of element `idx`: list of (position, letter index)
    pub fn get(&self, idx: usize) -> Vec<(usize, usize)> {
        let si = match self.offsets.binary_search(&idx) {
            Ok(i) => {
                // several subsets can share an offset only if letters^size = 0; not the case
                i
            }
            Err(i) => i - 1,
        };
        let mut r = idx - self.offsets[si];
        self.subsets[si]
            .iter()
            .map(|&p| {
                let l = r % self.letters;
                r /= self.letters;
                (p, l)
            })
            .collect()
    }
}

/// all 0/±1 assignments to `positions` slots with at most `support` non-zero slots;
/// `signed = false` uses only 0/1.
pub struct SparseSpace {
    dev: DevSpace,
    signed: bool,
}
impl SparseSpace {
    pub fn new(positions: usize, support: usize, signed: bool) -> SparseSpace {
        SparseSpace { dev: DevSpace::new(positions, if signed { 2 } else { 1 }, support), signed }
    }
    pub fn len(&self) -> usize {
        self.dev.len()
    }
    pub fn get(&self, idx: usize) -> Vec<i64> {
        let mut v = vec![0i64; self.dev.positions];
        for (p, l) in self.dev.get(idx) {
            v[p] = if self.signed && l == 1 { -1 } else { 1 };
        }
        v
    }
}

#[cfg(test)]
mod tests {
    use super::*;
    #[test]
    fn devspace_counts() {
        let d = DevSpace::new(16, 6, 2);
        assert_eq!(d.len(), 1 + 16 * 6 + 120 * 36);
        let mut seen = BTreeSet::new();
        for i in 0..d.len() {
            seen.insert(d.get(i));
        }
        assert_eq!(seen.len(), d.len());
        let d3 = DevSpace::new(4, 2, 4);
        assert_eq!(d3.len(), 1 + 4 * 2 + 6 * 4 + 4 * 8 + 16);
        let s = SparseSpace::new(16, 4, false);
        assert_eq!(s.len(), 1 + 16 + 120 + 560 + 1820);
    }
    #[test]
    fn units() {
        for (v, d) in uv3(true) {
            assert_eq!(v[0] * v[0] + v[1] * v[1] + v[2] * v[2], d * d);
        }
        for (v, d) in uq(1) {
            assert_eq!(v.iter().map(|x| x * x).sum::<i64>(), d * d);
        }
        for (v, d) in uv2() {
            assert_eq!(v[0] * v[0] + v[1] * v[1], d * d);
        }
        let g = generic(16, 0);
        for v in 0..4 {
            let g = generic(48, v);
            let s: BTreeSet<_> = g.iter().map(|(n, d)| n * 4 / d).collect();
            assert_eq!(s.len(), 48);
        }
        let _ = g;
        println!("uv2 {} uv3 {}/{} uq {}/{}", uv2().len(), uv3(false).len(), uv3(true).len(), uq(0).len(), uq(1).len());
    }
}
