//! `Ex`: an exact rational scalar that satisfies everything `cgmath::BaseFloat` demands, so
//! that cgmath's real generic code can be monomorphised over an exact field (DESIGN 2.2).
//!
//! * `+ - * /`, `Neg`, `Rem` (fmod convention), compound assignment, ordering: exact.
//! * `NumCast::from(f64)`: the exact dyadic value of the float.
//! * `sqrt`: exact for perfect squares, otherwise a *domain exit*.
//! * `sin/cos/tan/sin_cos`: exact on the currently selected angle lattice (the scalar is
//!   read as a multiple `k` of `delta = 2*atan(t)`), otherwise a domain exit.
//! * `asin/acos/atan/atan2`: reverse lookup of the lattice code whose angle is the principal
//!   value, otherwise a domain exit.
//!
//! Domain exits are panics carrying a [`DomainExit`] payload; the explorer counts them as
//! `inconclusive_domain`, never as a verdict.

use num_traits::{Float, Num, NumCast, One, ToPrimitive, Zero};
use std::cmp::Ordering;
use std::fmt;
use std::num::FpCategory;
use std::ops::*;
use std::sync::atomic::{AtomicUsize, Ordering as AO};
use std::sync::OnceLock;

/// Panic payload of a domain exit.
#[derive(Debug, Clone, Copy)]
pub struct DomainExit(pub &'static str);

#[cold]
#[inline(never)]
pub fn domain_exit(why: &'static str) -> ! {
    std::panic::panic_any(DomainExit(why))
}

#[derive(Clone, Copy, PartialEq, Eq, Hash)]
pub struct Ex {
    n: i128,
    d: i128, // > 0, gcd(n, d) = 1
}

fn gcd(a: i128, b: i128) -> i128 {
    let (mut a, mut b) = (a.unsigned_abs(), b.unsigned_abs());
    while b != 0 {
        let t = a % b;
        a = b;
        b = t;
    }
    if a > i128::MAX as u128 {
        domain_exit("overflow (gcd)")
    }
    a as i128
}

#[inline]
fn cmul(a: i128, b: i128) -> i128 {
    match a.checked_mul(b) {
        Some(v) => v,
        None => domain_exit("overflow (mul)"),
    }
}
#[inline]
fn cadd(a: i128, b: i128) -> i128 {
    match a.checked_add(b) {
        Some(v) => v,
        None => domain_exit("overflow (add)"),
    }
}

fn isqrt(n: u128) -> u128 {
    if n == 0 {
        return 0;
    }
    let mut x = (n as f64).sqrt() as u128;
    // Newton correction
    loop {
        let y = (x + n / x.max(1)) / 2;
        if y >= x {
            break;
        }
        x = y;
    }
    while x.checked_mul(x).map_or(true, |v| v > n) {
        x -= 1;
    }
    while (x + 1).checked_mul(x + 1).map_or(false, |v| v <= n) {
        x += 1;
    }
    x
}

impl Ex {
    pub const ZERO: Ex = Ex { n: 0, d: 1 };
    pub const ONE: Ex = Ex { n: 1, d: 1 };

    #[inline]
    pub fn new(n: i128, d: i128) -> Ex {
        if d == 0 {
            domain_exit("division by zero")
        }
        let g = gcd(n, d);
        let (mut n, mut d) = (n / g, d / g);
        if d < 0 {
            n = match n.checked_neg() {
                Some(v) => v,
                None => domain_exit("overflow (neg)"),
            };
            d = match d.checked_neg() {
                Some(v) => v,
                None => domain_exit("overflow (neg)"),
            };
        }
        Ex { n, d }
    }
    #[inline]
    pub const fn int(n: i64) -> Ex {
        Ex { n: n as i128, d: 1 }
    }
    #[inline]
    pub fn q(n: i64, d: i64) -> Ex {
        Ex::new(n as i128, d as i128)
    }
    #[inline]
    pub fn num(self) -> i128 {
        self.n
    }
    #[inline]
    pub fn den(self) -> i128 {
        self.d
    }
    #[inline]
    pub fn is_integer(self) -> bool {
        self.d == 1
    }
    /// Exact dyadic value of a finite f64.
    pub fn from_f64_exact(f: f64) -> Option<Ex> {
        if !f.is_finite() {
            return None;
        }
        if f == 0.0 {
            return Some(Ex::ZERO);
        }
        let (mut m, mut e, s) = Float::integer_decode(f);
        while m & 1 == 0 {
            m >>= 1;
            e += 1;
        }
        let m = m as i128 * s as i128;
        if e >= 0 {
            if e > 70 {
                domain_exit("overflow (from f64)")
            }
            Some(Ex { n: cmul(m, 1i128 << e), d: 1 })
        } else {
            if -e > 120 {
                domain_exit("overflow (from f64, tiny)")
            }
            Some(Ex { n: m, d: 1i128 << (-e) })
        }
    }
    pub fn approx(self) -> f64 {
        // good enough for reporting and for principal-range decisions
        let n = self.n as f64;
        let d = self.d as f64;
        n / d
    }
    pub fn abs_ex(self) -> Ex {
        Ex { n: self.n.abs(), d: self.d }
    }
    pub fn sqrt_exact(self) -> Option<Ex> {
        if self.n < 0 {
            return None;
        }
        let rn = isqrt(self.n as u128);
        let rd = isqrt(self.d as u128);
        if rn * rn == self.n as u128 && rd * rd == self.d as u128 {
            Some(Ex { n: rn as i128, d: rd as i128 })
        } else {
            None
        }
    }
    fn trunc_i(self) -> i128 {
        self.n / self.d
    }
    fn floor_i(self) -> i128 {
        self.n.div_euclid(self.d)
    }
}

impl fmt::Debug for Ex {
    fn fmt(&self, f: &mut fmt::Formatter) -> fmt::Result {
        if self.d == 1 {
            write!(f, "{}", self.n)
        } else {
            write!(f, "{}/{}", self.n, self.d)
        }
    }
}
impl fmt::Display for Ex {
    fn fmt(&self, f: &mut fmt::Formatter) -> fmt::Result {
        fmt::Debug::fmt(self, f)
    }
}

impl PartialOrd for Ex {
    #[inline]
    fn partial_cmp(&self, o: &Ex) -> Option<Ordering> {
        Some(self.cmp(o))
    }
}
impl Ord for Ex {
    fn cmp(&self, o: &Ex) -> Ordering {
        if self.d == o.d {
            return self.n.cmp(&o.n);
        }
        // signs first (cheap, avoids overflow)
        let (sa, sb) = (self.n.signum(), o.n.signum());
        if sa != sb {
            return sa.cmp(&sb);
        }
        let g = gcd(self.d, o.d);
        let l = cmul(self.n, o.d / g);
        let r = cmul(o.n, self.d / g);
        l.cmp(&r)
    }
}

impl Add for Ex {
    type Output = Ex;
    #[inline]
    fn add(self, o: Ex) -> Ex {
        if self.d == 1 && o.d == 1 {
            return Ex { n: cadd(self.n, o.n), d: 1 };
        }
        let g = gcd(self.d, o.d);
        let bd = self.d / g;
        let dd = o.d / g;
        let n = cadd(cmul(self.n, dd), cmul(o.n, bd));
        let g2 = gcd(n, g);
        if g2 == 0 {
            return Ex::ZERO;
        }
        Ex { n: n / g2, d: cmul(bd, o.d / g2) }
    }
}
impl Neg for Ex {
    type Output = Ex;
    #[inline]
    fn neg(self) -> Ex {
        Ex { n: -self.n, d: self.d }
    }
}
impl Sub for Ex {
    type Output = Ex;
    #[inline]
    fn sub(self, o: Ex) -> Ex {
        self + (-o)
    }
}
impl Mul for Ex {
    type Output = Ex;
    #[inline]
    fn mul(self, o: Ex) -> Ex {
        if self.n == 0 || o.n == 0 {
            return Ex::ZERO;
        }
        if self.d == 1 && o.d == 1 {
            return Ex { n: cmul(self.n, o.n), d: 1 };
        }
        let g1 = gcd(self.n, o.d);
        let g2 = gcd(o.n, self.d);
        Ex { n: cmul(self.n / g1, o.n / g2), d: cmul(self.d / g2, o.d / g1) }
    }
}
impl Div for Ex {
    type Output = Ex;
    #[inline]
    fn div(self, o: Ex) -> Ex {
        if o.n == 0 {
            domain_exit("division by zero")
        }
        let r = if o.n < 0 { Ex { n: -o.d, d: -o.n } } else { Ex { n: o.d, d: o.n } };
        self * r
    }
}
impl Rem for Ex {
    type Output = Ex;
    fn rem(self, o: Ex) -> Ex {
        if o.n == 0 {
            domain_exit("remainder by zero")
        }
        let q = (self / o).trunc_i();
        self - o * Ex { n: q, d: 1 }
    }
}
macro_rules! assign {
    ($T:ident, $f:ident, $op:tt) => {
        impl $T for Ex {
            #[inline]
            fn $f(&mut self, o: Ex) {
                *self = *self $op o;
            }
        }
    };
}
assign!(AddAssign, add_assign, +);
assign!(SubAssign, sub_assign, -);
assign!(MulAssign, mul_assign, *);
assign!(DivAssign, div_assign, /);
assign!(RemAssign, rem_assign, %);

impl Zero for Ex {
    #[inline]
    fn zero() -> Ex {
        Ex::ZERO
    }
    #[inline]
    fn is_zero(&self) -> bool {
        self.n == 0
    }
}
impl One for Ex {
    #[inline]
    fn one() -> Ex {
        Ex::ONE
    }
}
impl Num for Ex {
    type FromStrRadixErr = ();
    fn from_str_radix(_: &str, _: u32) -> Result<Ex, ()> {
        Err(())
    }
}

impl ToPrimitive for Ex {
    fn to_i64(&self) -> Option<i64> {
        if self.d == 1 {
            i64::try_from(self.n).ok()
        } else {
            i64::try_from(self.trunc_i()).ok()
        }
    }
    fn to_u64(&self) -> Option<u64> {
        u64::try_from(self.trunc_i()).ok()
    }
    fn to_i128(&self) -> Option<i128> {
        Some(self.trunc_i())
    }
    fn to_f64(&self) -> Option<f64> {
        Some(self.approx())
    }
    fn to_f32(&self) -> Option<f32> {
        Some(self.approx() as f32)
    }
}

impl NumCast for Ex {
    fn from<T: ToPrimitive>(v: T) -> Option<Ex> {
        let f = v.to_f64();
        let i = v.to_i128();
        match (i, f) {
            (Some(i), Some(f)) if f.is_finite() && f.fract() == 0.0 && (i as f64) == f => {
                Some(Ex { n: i, d: 1 })
            }
            (_, Some(f)) => Ex::from_f64_exact(f),
            (Some(i), None) => Some(Ex { n: i, d: 1 }),
            (None, None) => None,
        }
    }
}

// ------------------------------------------------------------------------------------
// angle lattice

/// One lattice: base `t = p/q`, `delta = 2 atan t`, tables of `(cos k delta, sin k delta)`.
pub struct Lattice {
    pub p: i64,
    pub q: i64,
    pub delta: f64,
    pub kmax: i64,
    /// index `k + kmax`; `None` when the entry overflows i128
    pub tab: Vec<Option<(Ex, Ex)>>,
}

pub const LATTICE_BASES: [(i64, i64); 5] = [(1, 2), (1, 3), (1, 5), (1, 8), (2, 3)];
const KMAX: i64 = 40;

fn try_mul(a: Ex, b: Ex) -> Option<Ex> {
    // overflow-free multiplication for table construction
    let g1 = gcd(a.n, b.d);
    let g2 = gcd(b.n, a.d);
    let n = (a.n / g1).checked_mul(b.n / g2)?;
    let d = (a.d / g2).checked_mul(b.d / g1)?;
    Some(Ex { n, d })
}
fn try_add(a: Ex, b: Ex) -> Option<Ex> {
    let g = gcd(a.d, b.d);
    let bd = a.d / g;
    let dd = b.d / g;
    let n = a.n.checked_mul(dd)?.checked_add(b.n.checked_mul(bd)?)?;
    let g2 = gcd(n, g);
    if g2 == 0 {
        return Some(Ex::ZERO);
    }
    Some(Ex { n: n / g2, d: bd.checked_mul(b.d / g2)? })
}

impl Lattice {
    fn build(p: i64, q: i64) -> Lattice {
        let (p2, q2) = ((p * p) as i128, (q * q) as i128);
        let c = Ex::new(q2 - p2, q2 + p2);
        let s = Ex::new(2 * (p as i128) * (q as i128), q2 + p2);
        let mut tab = vec![None; (2 * KMAX + 1) as usize];
        tab[KMAX as usize] = Some((Ex::ONE, Ex::ZERO));
        let mut cur = Some((Ex::ONE, Ex::ZERO));
        for k in 1..=KMAX {
            cur = cur.and_then(|(ck, sk)| {
                let cn = try_add(try_mul(ck, c)?, -try_mul(sk, s)?)?;
                let sn = try_add(try_mul(sk, c)?, try_mul(ck, s)?)?;
                Some((cn, sn))
            });
            tab[(KMAX + k) as usize] = cur;
            tab[(KMAX - k) as usize] = cur.map(|(ck, sk)| (ck, -sk));
        }
        Lattice { p, q, delta: 2.0 * (p as f64 / q as f64).atan(), kmax: KMAX, tab }
    }
    pub fn cs(&self, k: i64) -> Option<(Ex, Ex)> {
        if k.abs() > self.kmax {
            return None;
        }
        self.tab[(k + self.kmax) as usize]
    }
    /// largest |k| whose table entry exists
    pub fn reach(&self) -> i64 {
        (0..=self.kmax).take_while(|&k| self.cs(k).is_some()).last().unwrap_or(0)
    }
}

static LATTICES: OnceLock<Vec<Lattice>> = OnceLock::new();
static CURRENT: AtomicUsize = AtomicUsize::new(usize::MAX);

pub fn lattices() -> &'static Vec<Lattice> {
    LATTICES.get_or_init(|| LATTICE_BASES.iter().map(|&(p, q)| Lattice::build(p, q)).collect())
}
/// Select the lattice used by `Ex`'s trigonometric functions (process-wide; systems that
/// use trigonometry run one lattice at a time). `None` disables trigonometry (domain exit).
pub fn set_lattice(idx: Option<usize>) {
    lattices();
    CURRENT.store(idx.unwrap_or(usize::MAX), AO::SeqCst);
}
pub fn current_lattice() -> Option<&'static Lattice> {
    let i = CURRENT.load(AO::Relaxed);
    if i == usize::MAX {
        None
    } else {
        Some(&lattices()[i])
    }
}
fn lat() -> &'static Lattice {
    match current_lattice() {
        Some(l) => l,
        None => domain_exit("trigonometry without a lattice"),
    }
}
fn code(x: Ex) -> i64 {
    if x.d != 1 {
        domain_exit("off-lattice angle")
    }
    match i64::try_from(x.n) {
        Ok(k) => k,
        Err(_) => domain_exit("off-lattice angle"),
    }
}
/// exact (cos, sin) of lattice code `k` on the current lattice
pub fn lattice_cs(k: i64) -> (Ex, Ex) {
    match lat().cs(k) {
        Some(v) => v,
        None => domain_exit("lattice table overflow"),
    }
}
fn lookup(pred: impl Fn(i64, Ex, Ex) -> bool, lo: f64, hi: f64, lo_incl: bool) -> Ex {
    let l = lat();
    for k in -l.kmax..=l.kmax {
        let a = k as f64 * l.delta;
        let inside = (a > lo || (lo_incl && a >= lo)) && a <= hi;
        if !inside {
            continue;
        }
        if let Some((c, s)) = l.cs(k) {
            if pred(k, c, s) {
                return Ex::int(k);
            }
        }
    }
    domain_exit("inverse trigonometry off lattice")
}

use std::f64::consts::PI;

impl Float for Ex {
    fn nan() -> Ex {
        domain_exit("nan()")
    }
    fn infinity() -> Ex {
        domain_exit("infinity()")
    }
    fn neg_infinity() -> Ex {
        domain_exit("neg_infinity()")
    }
    fn neg_zero() -> Ex {
        Ex::ZERO
    }
    fn min_value() -> Ex {
        domain_exit("min_value()")
    }
    fn min_positive_value() -> Ex {
        domain_exit("min_positive_value()")
    }
    fn epsilon() -> Ex {
        Ex::ZERO
    }
    fn max_value() -> Ex {
        domain_exit("max_value()")
    }
    fn is_nan(self) -> bool {
        false
    }
    fn is_infinite(self) -> bool {
        false
    }
    fn is_finite(self) -> bool {
        true
    }
    fn is_normal(self) -> bool {
        self.n != 0
    }
    fn classify(self) -> FpCategory {
        if self.n == 0 {
            FpCategory::Zero
        } else {
            FpCategory::Normal
        }
    }
    fn floor(self) -> Ex {
        Ex { n: self.floor_i(), d: 1 }
    }
    fn ceil(self) -> Ex {
        -((-self).floor())
    }
    fn round(self) -> Ex {
        // half away from zero
        let h = Ex { n: 1, d: 2 };
        if self.n >= 0 {
            (self + h).floor()
        } else {
            -((-self + h).floor())
        }
    }
    fn trunc(self) -> Ex {
        Ex { n: self.trunc_i(), d: 1 }
    }
    fn fract(self) -> Ex {
        self - self.trunc()
    }
    fn abs(self) -> Ex {
        self.abs_ex()
    }
    fn signum(self) -> Ex {
        // f64::signum(+0.0) = 1
        if self.n < 0 {
            -Ex::ONE
        } else {
            Ex::ONE
        }
    }
    fn is_sign_positive(self) -> bool {
        self.n >= 0
    }
    fn is_sign_negative(self) -> bool {
        self.n < 0
    }
    fn mul_add(self, a: Ex, b: Ex) -> Ex {
        self * a + b
    }
    fn recip(self) -> Ex {
        Ex::ONE / self
    }
    fn powi(self, n: i32) -> Ex {
        let mut r = Ex::ONE;
        for _ in 0..n.unsigned_abs() {
            r = r * self;
        }
        if n < 0 {
            Ex::ONE / r
        } else {
            r
        }
    }
    fn powf(self, _: Ex) -> Ex {
        domain_exit("powf")
    }
    fn sqrt(self) -> Ex {
        match self.sqrt_exact() {
            Some(r) => r,
            None => domain_exit("irrational sqrt"),
        }
    }
    fn exp(self) -> Ex {
        domain_exit("exp")
    }
    fn exp2(self) -> Ex {
        domain_exit("exp2")
    }
    fn ln(self) -> Ex {
        domain_exit("ln")
    }
    fn log(self, _: Ex) -> Ex {
        domain_exit("log")
    }
    fn log2(self) -> Ex {
        domain_exit("log2")
    }
    fn log10(self) -> Ex {
        domain_exit("log10")
    }
    fn max(self, o: Ex) -> Ex {
        if self >= o {
            self
        } else {
            o
        }
    }
    fn min(self, o: Ex) -> Ex {
        if self <= o {
            self
        } else {
            o
        }
    }
    fn abs_sub(self, o: Ex) -> Ex {
        if self <= o {
            Ex::ZERO
        } else {
            self - o
        }
    }
    fn cbrt(self) -> Ex {
        domain_exit("cbrt")
    }
    fn hypot(self, o: Ex) -> Ex {
        (self * self + o * o).sqrt()
    }
    fn sin(self) -> Ex {
        lattice_cs(code(self)).1
    }
    fn cos(self) -> Ex {
        lattice_cs(code(self)).0
    }
    fn tan(self) -> Ex {
        let (c, s) = lattice_cs(code(self));
        s / c
    }
    fn sin_cos(self) -> (Ex, Ex) {
        let (c, s) = lattice_cs(code(self));
        (s, c)
    }
    fn asin(self) -> Ex {
        lookup(|_, _, s| s == self, -PI / 2.0, PI / 2.0, true)
    }
    fn acos(self) -> Ex {
        lookup(|_, c, _| c == self, 0.0, PI, true)
    }
    fn atan(self) -> Ex {
        lookup(|_, c, s| c.n != 0 && s / c == self, -PI / 2.0, PI / 2.0, false)
    }
    fn atan2(self, x: Ex) -> Ex {
        let y = self;
        if y.n == 0 && x.n >= 0 {
            return Ex::ZERO; // atan2(0, x>=0) = 0 (also atan2(0,0) as in libm)
        }
        let r = (x * x + y * y).sqrt();
        let (cx, sy) = (x / r, y / r);
        lookup(|_, c, s| c == cx && s == sy, -PI, PI, false)
    }
    fn exp_m1(self) -> Ex {
        domain_exit("exp_m1")
    }
    fn ln_1p(self) -> Ex {
        domain_exit("ln_1p")
    }
    fn sinh(self) -> Ex {
        domain_exit("sinh")
    }
    fn cosh(self) -> Ex {
        domain_exit("cosh")
    }
    fn tanh(self) -> Ex {
        domain_exit("tanh")
    }
    fn asinh(self) -> Ex {
        domain_exit("asinh")
    }
    fn acosh(self) -> Ex {
        domain_exit("acosh")
    }
    fn atanh(self) -> Ex {
        domain_exit("atanh")
    }
    fn integer_decode(self) -> (u64, i16, i8) {
        domain_exit("integer_decode")
    }
}

impl approx::AbsDiffEq for Ex {
    type Epsilon = Ex;
    fn default_epsilon() -> Ex {
        Ex::ZERO
    }
    fn abs_diff_eq(&self, o: &Ex, eps: Ex) -> bool {
        (*self - *o).abs_ex() <= eps
    }
}
impl approx::RelativeEq for Ex {
    fn default_max_relative() -> Ex {
        Ex::ZERO
    }
    fn relative_eq(&self, o: &Ex, eps: Ex, max_rel: Ex) -> bool {
        if self == o {
            return true;
        }
        let diff = (*self - *o).abs_ex();
        if diff <= eps {
            return true;
        }
        let largest = Float::max(self.abs_ex(), o.abs_ex());
        diff <= largest * max_rel
    }
}
impl approx::UlpsEq for Ex {
    fn default_max_ulps() -> u32 {
        0
    }
    fn ulps_eq(&self, o: &Ex, eps: Ex, _max_ulps: u32) -> bool {
        (*self - *o).abs_ex() <= eps
    }
}

#[cfg(test)]
mod tests {
    use super::*;
    #[test]
    fn arith() {
        let a = Ex::q(1, 3);
        let b = Ex::q(1, 6);
        assert_eq!(a + b, Ex::q(1, 2));
        assert_eq!(a * b, Ex::q(1, 18));
        assert_eq!(a / b, Ex::int(2));
        assert_eq!(Ex::q(7, 2) % Ex::int(2), Ex::q(3, 2));
        assert_eq!(Ex::q(-7, 2) % Ex::int(2), Ex::q(-3, 2));
        assert!(Ex::q(-1, 2) < Ex::q(1, 3));
        assert_eq!(Ex::q(9, 4).sqrt(), Ex::q(3, 2));
        assert_eq!(<Ex as NumCast>::from(0.5f64), Some(Ex::q(1, 2)));
        assert_eq!(<Ex as NumCast>::from(2i8), Some(Ex::int(2)));
        assert_eq!(<Ex as NumCast>::from(f64::NAN), None);
        assert_eq!(<Ex as NumCast>::from(i64::MAX), Some(Ex { n: i64::MAX as i128, d: 1 }));
    }
    #[test]
    fn lattice() {
        set_lattice(Some(0));
        let (s, c) = Ex::int(1).sin_cos();
        assert_eq!((c, s), (Ex::q(3, 5), Ex::q(4, 5)));
        for k in -6..=6 {
            let (s, c) = Ex::int(k).sin_cos();
            assert_eq!(s * s + c * c, Ex::ONE);
            let a = k as f64 * lat().delta;
            if a.abs() < PI {
                assert_eq!(s.atan2(c), Ex::int(k), "k={}", k);
            }
            if (0.0..=PI).contains(&a) {
                assert_eq!(c.acos(), Ex::int(k));
            }
            if a.abs() <= PI / 2.0 {
                assert_eq!(s.asin(), Ex::int(k));
            }
        }
        set_lattice(None);
    }
}
