pub mod alphabet;
pub mod engine;
pub mod ex;
pub mod field;
pub mod model;
pub mod tier;

pub use engine::{guarded, panics, Ctx, Guard, Mode, Report};
pub use ex::Ex;
pub use field::{Field, Sh};
pub use tier::*;
