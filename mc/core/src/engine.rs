//! Exploration engines (DESIGN 2.4) and reporting (2.8).
//!
//! * `Report::cases`  — E1: exhaustive enumeration of an indexed finite space, parallel,
//!   deterministic; every case runs the real code and the model in lock-step.
//! * `Report::bfs`    — E2: level-synchronous breadth-first explicit-state search over
//!   operation chains; each transition calls the real operation.
//! * verdict classes, vacuity guards, evidence JSON, replay files, known findings.

use crate::ex::DomainExit;
use serde_json::{json, Value};
use std::cell::RefCell;
use std::collections::hash_map::DefaultHasher;
use std::collections::{BTreeMap, HashMap, HashSet};
use std::hash::{Hash, Hasher};
use std::panic::{catch_unwind, AssertUnwindSafe};
use std::sync::atomic::{AtomicUsize, Ordering};
use std::sync::Mutex;
use std::time::Instant;

thread_local! {
    static LAST_PANIC: RefCell<String> = RefCell::new(String::new());
}

/// Install a panic hook that prints nothing and remembers the message (expected panics —
/// domain exits, rejected projections, out-of-range indices — would otherwise flood stderr).
pub fn quiet_panics() {
    let loud = std::env::var("VERIF_LOUD").is_ok();
    std::panic::set_hook(Box::new(move |info| {
        let s = format!("{}", info);
        if loud {
            // development aid: show where domain exits / panics come from
            let why = info.payload().downcast_ref::<DomainExit>().map(|d| d.0).unwrap_or("");
            eprintln!("PANIC {why} {s}\n{}", std::backtrace::Backtrace::force_capture());
        }
        LAST_PANIC.with(|p| *p.borrow_mut() = s);
    }));
}
fn last_panic() -> String {
    LAST_PANIC.with(|p| p.borrow().clone())
}

/// Run `f`, report whether it panicked (used for "must panic" clauses).
pub fn panics<R>(f: impl FnOnce() -> R) -> bool {
    catch_unwind(AssertUnwindSafe(f)).is_err()
}
/// Run `f`; `Err(message)` if it panicked with anything but a domain exit (which is re-raised).
pub fn guarded<R>(f: impl FnOnce() -> R) -> Result<R, String> {
    match catch_unwind(AssertUnwindSafe(f)) {
        Ok(r) => Ok(r),
        Err(p) => {
            if p.downcast_ref::<DomainExit>().is_some() {
                std::panic::resume_unwind(p)
            }
            Err(last_panic())
        }
    }
}

#[derive(Clone, Debug)]
pub struct Fail {
    /// stable identifier of call site + input class (matched against known findings)
    pub key: String,
    pub detail: String,
}

/// Per-thread accumulator handed to every case / transition.
pub struct Ctx {
    pub transitions: u64,
    branches: BTreeMap<String, u64>,
    skipped: BTreeMap<String, u64>,
    fails: Vec<Fail>,
    skip: Option<String>,
    hasher: DefaultHasher,
    want_desc: bool,
    desc: Option<String>,
    pub replaying: bool,
}

impl Ctx {
    /// a throw-away context (for running a transition function outside an engine)
    pub fn scratch() -> Ctx {
        Ctx::new()
    }
    fn new() -> Ctx {
        Ctx {
            transitions: 0,
            branches: BTreeMap::new(),
            skipped: BTreeMap::new(),
            fails: Vec::new(),
            skip: None,
            hasher: DefaultHasher::new(),
            want_desc: false,
            desc: None,
            replaying: false,
        }
    }
    fn reset_case(&mut self) {
        self.fails.clear();
        self.skip = None;
        self.hasher = DefaultHasher::new();
        self.desc = None;
    }
    /// count one validated implementation call
    #[inline]
    pub fn t(&mut self) {
        self.transitions += 1;
    }
    #[inline]
    pub fn tn(&mut self, n: u64) {
        self.transitions += n;
    }
    pub fn branch(&mut self, name: &str) {
        if let Some(c) = self.branches.get_mut(name) {
            *c += 1;
        } else {
            self.branches.insert(name.to_string(), 1);
        }
    }
    /// feed the observed outcome (inputs + results) into the distinct-outcome hash
    #[inline]
    pub fn out<H: Hash + ?Sized>(&mut self, h: &H) {
        h.hash(&mut self.hasher);
    }
    pub fn fail(&mut self, key: &str, detail: impl FnOnce() -> String) {
        if self.fails.len() < 8 {
            self.fails.push(Fail { key: key.to_string(), detail: detail() });
        }
    }
    #[inline]
    pub fn check(&mut self, ok: bool, key: &str, detail: impl FnOnce() -> String) -> bool {
        self.t();
        if !ok {
            self.fail(key, detail);
        }
        ok
    }
    /// the case violates the property's own precondition: counted, not judged
    pub fn skip(&mut self, reason: &str) {
        if self.skip.is_none() {
            self.skip = Some(reason.to_string());
        }
    }
    pub fn is_skipped(&self) -> bool {
        self.skip.is_some()
    }
    /// describe the case (evaluated only for samples and violations)
    #[inline]
    pub fn describe(&mut self, f: impl FnOnce() -> String) {
        if self.want_desc && self.desc.is_none() {
            self.desc = Some(f());
        }
    }
    pub fn failed(&self) -> bool {
        !self.fails.is_empty()
    }
}

#[derive(Clone, Debug)]
pub struct Violation {
    pub system: String,
    pub tier: String,
    pub locator: Value,
    pub key: String,
    pub detail: String,
    pub case: String,
}

#[derive(Default, Clone)]
pub struct Guard {
    pub min_states: u64,
    /// (branch name, minimum hits)
    pub require: Vec<(String, u64)>,
    /// maximal tolerated fraction of inconclusive cases (default 0.0 = none)
    pub max_inconclusive: f64,
    pub min_distinct: u64,
}
impl Guard {
    pub fn states(n: u64) -> Guard {
        Guard { min_states: n, ..Default::default() }
    }
    pub fn need(mut self, b: &str, n: u64) -> Guard {
        self.require.push((b.to_string(), n));
        self
    }
    pub fn inconclusive(mut self, f: f64) -> Guard {
        self.max_inconclusive = f;
        self
    }
    pub fn distinct(mut self, n: u64) -> Guard {
        self.min_distinct = n;
        self
    }
}

pub struct SysReport {
    pub name: String,
    pub tier: String,
    pub engine: &'static str,
    pub bound: String,
    pub states: u64,
    pub transitions: u64,
    pub agree: u64,
    pub violating: u64,
    pub inconclusive: u64,
    pub inconclusive_reasons: BTreeMap<String, u64>,
    pub skipped: BTreeMap<String, u64>,
    pub branches: BTreeMap<String, u64>,
    pub distinct: u64,
    pub samples: Vec<Value>,
    pub exhaustive: bool,
    pub wall_s: f64,
    pub depth_levels: Vec<u64>,
}

#[derive(Clone, PartialEq)]
pub enum Mode {
    Quick,
    Thorough,
}

pub struct Replay {
    pub system: String,
    pub tier: String,
    pub locator: Value,
}

pub struct Report {
    pub property: String,
    pub mode: Mode,
    pub seed: u64,
    pub threads: usize,
    pub systems: Vec<SysReport>,
    pub violations: Vec<Violation>,
    pub machinery: Vec<String>,
    pub assumptions: Vec<String>,
    pub notes: Vec<String>,
    pub replay: Option<Replay>,
    /// systems whose state count was confirmed by the independent stateright explorer
    pub sr_agree: u64,
    start: Instant,
    only_system: Option<String>,
}

const DISTINCT_CAP: usize = 1 << 22;

struct ThreadAcc {
    ctx: Ctx,
    agree: u64,
    violating: u64,
    inconclusive: u64,
    inconclusive_reasons: BTreeMap<String, u64>,
    distinct: HashSet<u64>,
    violations: BTreeMap<String, (usize, Vec<Fail>)>,
}

impl Report {
    /// Parse `argv`: `<quick|thorough>` or `replay <file>`; env VERIF_SEED, VERIF_THREADS,
    /// VERIF_SYSTEM (restrict to systems whose name contains the string; for development).
    pub fn from_args(property: &str) -> Report {
        quiet_panics();
        let args: Vec<String> = std::env::args().collect();
        let mut mode = match std::env::var("VERIF_TIER").as_deref() {
            Ok("thorough") => Mode::Thorough,
            _ => Mode::Quick,
        };
        let mut replay = None;
        match args.get(1).map(|s| s.as_str()) {
            Some("quick") => mode = Mode::Quick,
            Some("thorough") => mode = Mode::Thorough,
            Some("replay") => {
                let path = args.get(2).expect("replay <file>");
                let txt = std::fs::read_to_string(path).unwrap_or_else(|e| {
                    eprintln!("MACHINERY-ERROR: cannot read replay file {path}: {e}");
                    std::process::exit(2)
                });
                let v: Value = serde_json::from_str(&txt).unwrap_or_else(|e| {
                    eprintln!("MACHINERY-ERROR: replay file {path} is not JSON: {e}");
                    std::process::exit(2)
                });
                mode = if v["mode"] == "thorough" { Mode::Thorough } else { Mode::Quick };
                replay = Some(Replay {
                    system: v["system"].as_str().unwrap_or("").to_string(),
                    tier: v["tier"].as_str().unwrap_or("").to_string(),
                    locator: v["locator"].clone(),
                });
            }
            _ => {}
        }
        let seed = std::env::var("VERIF_SEED").ok().and_then(|s| s.parse::<i64>().ok()).unwrap_or(0);
        let threads = std::env::var("VERIF_THREADS")
            .ok()
            .and_then(|s| s.parse().ok())
            .unwrap_or_else(|| std::thread::available_parallelism().map(|n| n.get()).unwrap_or(4).min(16));
        Report {
            property: property.to_string(),
            mode,
            seed: seed as u64,
            threads,
            systems: Vec::new(),
            violations: Vec::new(),
            machinery: Vec::new(),
            assumptions: Vec::new(),
            notes: Vec::new(),
            replay,
            sr_agree: 0,
            start: Instant::now(),
            only_system: std::env::var("VERIF_SYSTEM").ok(),
        }
    }
    pub fn quick(&self) -> bool {
        self.mode == Mode::Quick
    }
    pub fn thorough(&self) -> bool {
        self.mode == Mode::Thorough
    }
    /// pick by mode
    pub fn pick<T>(&self, quick: T, thorough: T) -> T {
        if self.quick() {
            quick
        } else {
            thorough
        }
    }
    /// (states, new states per depth) of the most recently run system, if any
    pub fn last_counts(&self) -> Option<(u64, Vec<u64>)> {
        self.systems.last().map(|s| (s.states, s.depth_levels.clone()))
    }
    pub fn assume(&mut self, s: &str) {
        self.assumptions.push(s.to_string());
    }
    pub fn note(&mut self, s: String) {
        self.notes.push(s);
    }
    fn wanted(&self, name: &str, tier: &str) -> bool {
        if let Some(r) = &self.replay {
            return r.system == name && r.tier == tier;
        }
        if let Some(o) = &self.only_system {
            return name.contains(o.as_str()) || tier == o.as_str();
        }
        true
    }

    // ------------------------------------------------------------------ E1
    /// Enumerate cases `0..n`; `body(i, ctx)` runs the real code and the model on case `i`.
    pub fn cases(
        &mut self,
        name: &str,
        tier: &str,
        bound: &str,
        n: usize,
        guard: Guard,
        body: impl Fn(usize, &mut Ctx) + Sync,
    ) {
        if !self.wanted(name, tier) {
            return;
        }
        let t0 = Instant::now();
        if let Some(r) = &self.replay {
            let idx = r.locator["index"].as_u64().expect("replay locator.index") as usize;
            let mut ctx = Ctx::new();
            ctx.want_desc = true;
            ctx.replaying = true;
            let res = catch_unwind(AssertUnwindSafe(|| body(idx, &mut ctx)));
            self.finish_replay(name, tier, json!({ "index": idx }), res, ctx);
            return;
        }
        let next = AtomicUsize::new(0);
        let chunk = (n / (self.threads * 64)).clamp(1, 4096);
        let accs: Mutex<Vec<ThreadAcc>> = Mutex::new(Vec::new());
        // small spaces are not worth 16 thread spawns (1 440 cast tables of a few hundred cases each ...)
        let nthreads = if n < 4096 { 1 } else { self.threads.min(n.max(1)) };
        std::thread::scope(|s| {
            for _ in 0..nthreads {
                s.spawn(|| {
                    let mut acc = ThreadAcc {
                        ctx: Ctx::new(),
                        agree: 0,
                        violating: 0,
                        inconclusive: 0,
                        inconclusive_reasons: BTreeMap::new(),
                        distinct: HashSet::new(),
                        violations: BTreeMap::new(),
                    };
                    loop {
                        let lo = next.fetch_add(chunk, Ordering::Relaxed);
                        if lo >= n {
                            break;
                        }
                        for i in lo..(lo + chunk).min(n) {
                            run_one(&body, i, &mut acc);
                        }
                    }
                    accs.lock().unwrap().push(acc);
                });
            }
        });
        let accs = accs.into_inner().unwrap();
        let mut sr = SysReport {
            name: name.to_string(),
            tier: tier.to_string(),
            engine: "E1 exhaustive enumeration",
            bound: bound.to_string(),
            states: n as u64,
            transitions: 0,
            agree: 0,
            violating: 0,
            inconclusive: 0,
            inconclusive_reasons: BTreeMap::new(),
            skipped: BTreeMap::new(),
            branches: BTreeMap::new(),
            distinct: 0,
            samples: Vec::new(),
            exhaustive: true,
            wall_s: 0.0,
            depth_levels: vec![],
        };
        let mut distinct: HashSet<u64> = HashSet::new();
        let mut viol: Vec<(usize, Vec<Fail>)> = Vec::new();
        for a in accs {
            sr.transitions += a.ctx.transitions;
            sr.agree += a.agree;
            sr.violating += a.violating;
            sr.inconclusive += a.inconclusive;
            for (k, v) in a.inconclusive_reasons {
                *sr.inconclusive_reasons.entry(k).or_insert(0) += v;
            }
            for (k, v) in a.ctx.branches {
                *sr.branches.entry(k).or_insert(0) += v;
            }
            for (k, v) in a.ctx.skipped {
                *sr.skipped.entry(k).or_insert(0) += v;
            }
            if distinct.len() < DISTINCT_CAP {
                distinct.extend(a.distinct);
            }
            viol.extend(a.violations.into_values());
        }
        sr.distinct = distinct.len() as u64;
        viol.sort_by_key(|v| v.0);
        // re-run violating cases single-threaded with descriptions (replay determinism)
        let mut seen_keys: HashSet<String> = HashSet::new();
        for (idx, fails) in viol.iter() {
            if !seen_keys.insert(fails[0].key.clone()) || seen_keys.len() > 8 {
                continue; // one counterexample (the first in enumeration order) per failing law
            }
            let mut ctx = Ctx::new();
            ctx.want_desc = true;
            let res = catch_unwind(AssertUnwindSafe(|| body(*idx, &mut ctx)));
            let again: Vec<String> = match &res {
                Ok(()) => ctx.fails.iter().map(|f| f.key.clone()).collect(),
                Err(_) => vec!["unexpected-panic".to_string()],
            };
            let first: Vec<String> = fails.iter().map(|f| f.key.clone()).collect();
            if again != first {
                self.machinery.push(format!(
                    "{name}/{tier}: case {idx} is not deterministic on re-execution ({first:?} vs {again:?})"
                ));
            }
            let f = &fails[0];
            self.violations.push(Violation {
                system: name.to_string(),
                tier: tier.to_string(),
                locator: json!({ "index": idx }),
                key: f.key.clone(),
                detail: f.detail.clone(),
                case: ctx.desc.clone().unwrap_or_default(),
            });
        }
        // samples
        if n > 0 {
            let mut picks = vec![(self.seed as usize) % n, n / 2, n - 1];
            picks.dedup();
            for idx in picks {
                let mut ctx = Ctx::new();
                ctx.want_desc = true;
                let res = catch_unwind(AssertUnwindSafe(|| body(idx, &mut ctx)));
                let verdict = match res {
                    Ok(()) if ctx.failed() => "violation",
                    Ok(()) if ctx.skip.is_some() => "skipped_precondition",
                    Ok(()) => "agree",
                    Err(p) if p.downcast_ref::<DomainExit>().is_some() => "inconclusive_domain",
                    Err(_) => "panic",
                };
                sr.samples.push(json!({
                    "system": name, "tier": tier, "index": idx,
                    "case": ctx.desc.unwrap_or_default(),
                    "validated_calls": ctx.transitions, "verdict": verdict }));
            }
        }
        sr.wall_s = t0.elapsed().as_secs_f64();
        self.apply_guard(&sr, &guard);
        self.systems.push(sr);
    }

    fn finish_replay(
        &mut self,
        name: &str,
        tier: &str,
        locator: Value,
        res: std::thread::Result<()>,
        ctx: Ctx,
    ) {
        println!("REPLAY system={name} tier={tier} locator={locator}");
        println!("  case: {}", ctx.desc.clone().unwrap_or_default());
        match res {
            Ok(()) => {
                if ctx.fails.is_empty() {
                    println!("  verdict: holds ({} validated calls)", ctx.transitions);
                }
                for f in &ctx.fails {
                    println!("  FAIL {}: {}", f.key, f.detail);
                    self.violations.push(Violation {
                        system: name.to_string(),
                        tier: tier.to_string(),
                        locator: locator.clone(),
                        key: f.key.clone(),
                        detail: f.detail.clone(),
                        case: ctx.desc.clone().unwrap_or_default(),
                    });
                }
            }
            Err(p) => {
                if let Some(d) = p.downcast_ref::<DomainExit>() {
                    println!("  verdict: inconclusive (domain exit: {})", d.0);
                } else {
                    let msg = last_panic();
                    println!("  FAIL unexpected panic: {msg}");
                    self.violations.push(Violation {
                        system: name.to_string(),
                        tier: tier.to_string(),
                        locator,
                        key: format!("{}/{name}/unexpected-panic", self.property),
                        detail: msg,
                        case: ctx.desc.clone().unwrap_or_default(),
                    });
                }
            }
        }
    }

    fn apply_guard(&mut self, sr: &SysReport, g: &Guard) {
        if sr.violating > 0 {
            return; // a system that reports violations is not vacuous
        }
        let tag = format!("{}/{}", sr.name, sr.tier);
        if sr.states < g.min_states {
            self.machinery.push(format!("{tag}: vacuity guard: {} states < required {}", sr.states, g.min_states));
        }
        // The exact tier runs the implementation over the rationals. An implementation that is correct but takes a square
        // root, halves an angle or reads a float constant where the present one does not leaves that field (DomainExit):
        // those cases are inconclusive, not wrong, and the float tiers still judge the same inputs. So in tier X a
        // shortfall that goes together with domain exits degrades the exploration - it is recorded, loudly - and is not
        // a machinery error; without domain exits the guards are as strict as anywhere.
        let degraded = sr.tier == "X" && sr.inconclusive > 0;
        let mut complaints: Vec<String> = Vec::new();
        for (b, n) in &g.require {
            let hit = sr.branches.get(b).copied().unwrap_or(0);
            if hit < *n {
                complaints.push(format!("{tag}: vacuity guard: branch '{b}' hit {hit} < required {n}"));
            }
        }
        let frac = if sr.states > 0 { sr.inconclusive as f64 / sr.states as f64 } else { 0.0 };
        if frac > g.max_inconclusive + 1e-12 {
            complaints.push(format!(
                "{tag}: {} of {} cases inconclusive ({:.1}% > allowed {:.1}%): {:?}",
                sr.inconclusive,
                sr.states,
                100.0 * frac,
                100.0 * g.max_inconclusive,
                sr.inconclusive_reasons
            ));
        }
        if sr.distinct < g.min_distinct {
            complaints.push(format!("{tag}: vacuity guard: {} distinct outcomes < required {}", sr.distinct, g.min_distinct));
        }
        for c in complaints {
            if degraded {
                eprintln!("NOTE {}: exact tier degraded (the implementation leaves the rational field; float tiers unaffected): {c}", self.property);
                self.notes.push(format!("exact tier degraded, not judged in full: {c}"));
            } else {
                self.machinery.push(c);
            }
        }
    }

    // ------------------------------------------------------------------ E2
    /// Breadth-first search. `step(state, action, ctx)` executes action number `action`
    /// (of `n_actions`) on the real code and the model in lock-step and returns the
    /// successor (or `None` if the action is not enabled). `inv` is evaluated on every
    /// newly discovered state. States are deduplicated by `Hash + Eq`.
    pub fn bfs<S>(
        &mut self,
        name: &str,
        tier: &str,
        bound: &str,
        inits: Vec<S>,
        n_actions: usize,
        depth: usize,
        guard: Guard,
        step: impl Fn(&S, usize, &mut Ctx) -> Option<S> + Sync,
        inv: impl Fn(&S, &mut Ctx) + Sync,
        show: impl Fn(&S) -> String + Sync,
    ) where
        S: Clone + Hash + Eq + Send + Sync,
    {
        if !self.wanted(name, tier) {
            return;
        }
        let t0 = Instant::now();
        if let Some(r) = &self.replay {
            let init = r.locator["init"].as_u64().expect("locator.init") as usize;
            let path: Vec<usize> = r.locator["path"]
                .as_array()
                .expect("locator.path")
                .iter()
                .map(|v| v.as_u64().unwrap() as usize)
                .collect();
            let mut ctx = Ctx::new();
            ctx.want_desc = true;
            ctx.replaying = true;
            let res = catch_unwind(AssertUnwindSafe(|| {
                let mut s = inits[init].clone();
                let mut trace = vec![show(&s)];
                inv(&s, &mut ctx);
                for &a in &path {
                    match step(&s, a, &mut ctx) {
                        Some(n) => {
                            s = n;
                            trace.push(format!("--action {a}--> {}", show(&s)));
                            inv(&s, &mut ctx);
                        }
                        None => {
                            trace.push(format!("--action {a}--> (not enabled)"));
                            break;
                        }
                    }
                }
                ctx.desc = Some(trace.join(" "));
            }));
            self.finish_replay(name, tier, r.locator.clone(), res, ctx);
            return;
        }
        // ids: index into `states`
        let mut states: Vec<S> = Vec::new();
        let mut pred: Vec<Option<(usize, usize)>> = Vec::new(); // (parent id, action)
        let mut root: Vec<usize> = Vec::new();
        let mut index: HashMap<S, usize> = HashMap::new();
        let mut sr = SysReport {
            name: name.to_string(),
            tier: tier.to_string(),
            engine: "E2 breadth-first explicit-state search",
            bound: bound.to_string(),
            states: 0,
            transitions: 0,
            agree: 0,
            violating: 0,
            inconclusive: 0,
            inconclusive_reasons: BTreeMap::new(),
            skipped: BTreeMap::new(),
            branches: BTreeMap::new(),
            distinct: 0,
            samples: Vec::new(),
            exhaustive: true,
            wall_s: 0.0,
            depth_levels: vec![],
        };
        let mut raw_viol: Vec<(usize, Option<usize>, Vec<Fail>)> = Vec::new(); // (state id, action, fails)
        let mut frontier: Vec<usize> = Vec::new();
        for (i, s) in inits.iter().enumerate() {
            if !index.contains_key(s) {
                index.insert(s.clone(), states.len());
                frontier.push(states.len());
                states.push(s.clone());
                pred.push(None);
                root.push(i);
            }
        }
        // invariants on initial states
        {
            let mut ctx = Ctx::new();
            for &id in &frontier {
                ctx.reset_case();
                let r = catch_unwind(AssertUnwindSafe(|| inv(&states[id], &mut ctx)));
                match r {
                    Ok(()) if ctx.failed() => raw_viol.push((id, None, ctx.fails.clone())),
                    Ok(()) => {}
                    Err(p) => {
                        if p.downcast_ref::<DomainExit>().is_none() {
                            raw_viol.push((id, None, vec![Fail { key: format!("{}/{name}/unexpected-panic", self.property), detail: last_panic() }]));
                        } else {
                            sr.inconclusive += 1;
                        }
                    }
                }
            }
            sr.transitions += ctx.transitions;
            for (k, v) in ctx.branches {
                *sr.branches.entry(k).or_insert(0) += v;
            }
        }
        sr.depth_levels.push(frontier.len() as u64);
        let mut sample_paths: Vec<usize> = Vec::new();
        for _level in 0..depth {
            if frontier.is_empty() {
                break;
            }
            // expand in parallel: result[(fi, a)] = Option<(S, fails)>
            let work: Vec<(usize, usize)> =
                frontier.iter().flat_map(|&id| (0..n_actions).map(move |a| (id, a))).collect();
            let nwork = work.len();
            let next = AtomicUsize::new(0);
            let chunk = (nwork / (self.threads * 16)).clamp(1, 1024);
            type Out<S> = (usize, Option<S>, Vec<Fail>, bool);
            let results: Mutex<Vec<Out<S>>> = Mutex::new(Vec::with_capacity(nwork));
            let tallies: Mutex<Vec<Ctx>> = Mutex::new(Vec::new());
            let states_ref = &states;
            let prop = self.property.clone();
            std::thread::scope(|sc| {
                for _ in 0..(if nwork < 2048 { 1 } else { self.threads.min(nwork.max(1)) }) {
                    sc.spawn(|| {
                        let mut ctx = Ctx::new();
                        let mut local: Vec<Out<S>> = Vec::new();
                        loop {
                            let lo = next.fetch_add(chunk, Ordering::Relaxed);
                            if lo >= nwork {
                                break;
                            }
                            for w in lo..(lo + chunk).min(nwork) {
                                let (id, a) = work[w];
                                ctx.reset_case();
                                let r = catch_unwind(AssertUnwindSafe(|| {
                                    let n = step(&states_ref[id], a, &mut ctx);
                                    if let Some(ns) = &n {
                                        inv(ns, &mut ctx);
                                    }
                                    n
                                }));
                                match r {
                                    Ok(n) => {
                                        // a skipped transition is tallied like a skipped case of the other engine
                                        if let Some(r) = ctx.skip.take() {
                                            *ctx.skipped.entry(r).or_insert(0) += 1;
                                        }
                                        local.push((w, n, ctx.fails.clone(), false))
                                    }
                                    Err(p) => {
                                        if p.downcast_ref::<DomainExit>().is_some() {
                                            local.push((w, None, vec![], true));
                                        } else {
                                            local.push((
                                                w,
                                                None,
                                                vec![Fail { key: format!("{prop}/{name}/unexpected-panic"), detail: last_panic() }],
                                                false,
                                            ));
                                        }
                                    }
                                }
                            }
                        }
                        results.lock().unwrap().extend(local);
                        tallies.lock().unwrap().push(ctx);
                    });
                }
            });
            let mut results = results.into_inner().unwrap();
            results.sort_by_key(|r| r.0);
            for c in tallies.into_inner().unwrap() {
                sr.transitions += c.transitions;
                for (k, v) in c.branches {
                    *sr.branches.entry(k).or_insert(0) += v;
                }
                for (k, v) in c.skipped {
                    *sr.skipped.entry(k).or_insert(0) += v;
                }
            }
            let mut newf = Vec::new();
            for (w, n, fails, inconclusive) in results {
                let (id, a) = work[w];
                if inconclusive {
                    sr.inconclusive += 1;
                    continue;
                }
                if !fails.is_empty() {
                    sr.violating += 1;
                    raw_viol.push((id, Some(a), fails));
                    continue;
                }
                if let Some(ns) = n {
                    sr.agree += 1;
                    if !index.contains_key(&ns) {
                        let nid = states.len();
                        index.insert(ns.clone(), nid);
                        states.push(ns);
                        pred.push(Some((id, a)));
                        root.push(root[id]);
                        newf.push(nid);
                    }
                }
            }
            sr.depth_levels.push(newf.len() as u64);
            if let Some(&last) = newf.last() {
                sample_paths.push(last);
            }
            frontier = newf;
        }
        sr.states = states.len() as u64;
        sr.distinct = states.len() as u64;
        let path_of = |mut id: usize| -> (usize, Vec<usize>) {
            let mut p = Vec::new();
            while let Some((par, a)) = pred[id] {
                p.push(a);
                id = par;
            }
            p.reverse();
            (root[id], p)
        };
        let mut seen_keys: HashSet<String> = HashSet::new();
        for (id, a, fails) in raw_viol.iter() {
            if !seen_keys.insert(fails[0].key.clone()) || seen_keys.len() > 8 {
                continue;
            }
            let (init, mut path) = path_of(*id);
            if let Some(a) = a {
                path.push(*a);
            }
            let f = &fails[0];
            self.violations.push(Violation {
                system: name.to_string(),
                tier: tier.to_string(),
                locator: json!({ "init": init, "path": path }),
                key: f.key.clone(),
                detail: f.detail.clone(),
                case: format!("from {} by actions {:?}", show(&states[*id]), a),
            });
        }
        sample_paths.truncate(3);
        for id in sample_paths {
            let (init, path) = path_of(id);
            sr.samples.push(json!({ "system": name, "tier": tier, "init": init, "action_path": path, "state": show(&states[id]) }));
        }
        if sr.samples.is_empty() && !states.is_empty() {
            sr.samples.push(json!({ "system": name, "tier": tier, "init": 0, "action_path": [], "state": show(&states[0]) }));
        }
        sr.wall_s = t0.elapsed().as_secs_f64();
        self.apply_guard(&sr, &guard);
        self.systems.push(sr);
    }

    // ------------------------------------------------------------------ output
    fn known_findings(&self) -> Vec<(String, String)> {
        // (key, what) of entries with status "known" for this property
        let path = std::env::var("VERIF_KNOWN").unwrap_or_else(|_| "/verif/known_findings.json".to_string());
        let mut out = Vec::new();
        if let Ok(txt) = std::fs::read_to_string(path) {
            if let Ok(v) = serde_json::from_str::<Value>(&txt) {
                if let Some(arr) = v["findings"].as_array() {
                    for e in arr {
                        if e["property"] == self.property.as_str() && e["status"] == "known" {
                            out.push((
                                e["key"].as_str().unwrap_or("").to_string(),
                                e["what"].as_str().unwrap_or("").to_string(),
                            ));
                        }
                    }
                }
            }
        }
        out
    }

    /// Write evidence and replays, print verdict lines, return the process exit code.
    pub fn finish(mut self) -> i32 {
        let wall = self.start.elapsed().as_secs_f64();
        if self.replay.is_some() {
            return if self.violations.is_empty() { 0 } else { 1 };
        }
        if self.systems.is_empty() {
            self.machinery.push("no system ran".to_string());
        }
        let known = self.known_findings();
        let verif = std::env::var("VERIF_DIR").unwrap_or_else(|_| "/verif".to_string());
        let _ = std::fs::create_dir_all(format!("{verif}/evidence"));
        let _ = std::fs::create_dir_all(format!("{verif}/replays"));
        // remove stale replays of this property
        if let Ok(rd) = std::fs::read_dir(format!("{verif}/replays")) {
            for e in rd.flatten() {
                if e.file_name().to_string_lossy().starts_with(&format!("{}-", self.property)) {
                    let _ = std::fs::remove_file(e.path());
                }
            }
        }
        let mode = if self.quick() { "quick" } else { "thorough" };
        let mut new_viol = 0;
        let mut known_hit: BTreeMap<String, String> = BTreeMap::new();
        let mut lines = Vec::new();
        for (i, v) in self.violations.iter().enumerate() {
            if let Some((k, what)) = known.iter().find(|(k, _)| *k == v.key) {
                known_hit.insert(k.clone(), what.clone());
                continue;
            }
            new_viol += 1;
            if new_viol <= 20 {
                let path = format!("{verif}/replays/{}-{}.json", self.property, i);
                let doc = json!({
                    "property": self.property, "mode": mode, "system": v.system, "tier": v.tier,
                    "locator": v.locator, "key": v.key, "detail": v.detail, "case": v.case,
                    "replay_cmd": format!("./check {} replay {}", self.property, path) });
                let _ = std::fs::write(&path, serde_json::to_string_pretty(&doc).unwrap());
                lines.push(format!("VIOLATION property={} replay={}", self.property, path));
                eprintln!("  [{}] {}/{} {}: {}\n      case: {}", self.property, v.system, v.tier, v.key, v.detail, v.case);
            }
        }
        let states: u64 = self.systems.iter().map(|s| s.states).sum();
        let transitions: u64 = self.systems.iter().map(|s| s.transitions).sum();
        let distinct: u64 = self.systems.iter().map(|s| s.distinct).sum();
        let inconclusive: u64 = self.systems.iter().map(|s| s.inconclusive).sum();
        let exhaustive = self.systems.iter().all(|s| s.exhaustive) && self.machinery.is_empty();
        let mut samples: Vec<Value> = Vec::new();
        for s in &self.systems {
            if let Some(x) = s.samples.first() {
                samples.push(x.clone());
            }
        }
        for s in &self.systems {
            for x in s.samples.iter().skip(1) {
                if samples.len() < 60 {
                    samples.push(x.clone());
                }
            }
        }
        let systems: Vec<Value> = self
            .systems
            .iter()
            .map(|s| {
                json!({
                    "system": s.name, "tier": s.tier, "engine": s.engine, "bound": s.bound,
                    "states": s.states, "transitions": s.transitions, "agree": s.agree,
                    "violating": s.violating, "inconclusive_domain": s.inconclusive,
                    "inconclusive_reasons": s.inconclusive_reasons,
                    "skipped_precondition": s.skipped, "branches": s.branches,
                    "distinct_outcomes": s.distinct, "new_states_per_depth": s.depth_levels,
                    "exhaustive": s.exhaustive, "wall_s": (s.wall_s * 1000.0).round() / 1000.0 })
            })
            .collect();
        let ev = json!({
            "property_id": self.property,
            "tier": mode,
            "seed": self.seed,
            "level": "model_checking",
            "coverage": {
                "states": states,
                "transitions": transitions,
                "traces_validated_against_impl": transitions,
                "evaluations": states,
                "distinct_nontrivial": distinct,
                "rule": "states = elements of the explicitly enumerated finite spaces (E1: one per case; E2: distinct states reached by BFS); transitions = real cgmath calls whose result was compared in lock-step with the reference model or checked against a law; distinct_nontrivial = distinct (inputs, observed result) hashes over cases that executed at least one validated call (E2: distinct states)",
                "samples": samples,
                "exhaustive": exhaustive,
                "inconclusive_domain": inconclusive,
                "systems": systems,
                "machinery_errors": self.machinery,
                "known_findings_hit": known_hit.keys().collect::<Vec<_>>(),
                "notes": self.notes,
                "threads": self.threads,
            },
            "assumptions": self.assumptions,
            "wall_s": (wall * 1000.0).round() / 1000.0,
            "violations": new_viol,
        });
        let evpath = format!("{verif}/evidence/{}.json", self.property);
        if let Err(e) = std::fs::write(&evpath, serde_json::to_string_pretty(&ev).unwrap()) {
            eprintln!("cannot write {evpath}: {e}");
            return 2;
        }
        for s in &self.systems {
            println!(
                "  {:<28} {:<4} states={:<9} transitions={:<10} distinct={:<9} inconclusive={:<6} violating={:<4} {:.2}s",
                s.name, s.tier, s.states, s.transitions, s.distinct, s.inconclusive, s.violating, s.wall_s
            );
        }
        for (k, what) in &known_hit {
            println!("KNOWN-FINDING: property={} {} ({})", self.property, what, k);
        }
        for l in &lines {
            println!("{l}");
        }
        println!(
            "{} {}: states={} transitions={} violations={} machinery_errors={} wall={:.1}s",
            self.property, mode, states, transitions, new_viol, self.machinery.len(), wall
        );
        for m in &self.machinery {
            eprintln!("MACHINERY-ERROR {}: {}", self.property, m);
        }
        if new_viol > 0 {
            return 1;
        }
        if !self.machinery.is_empty() {
            return 2;
        }
        0
    }
}

fn run_one(body: &(impl Fn(usize, &mut Ctx) + Sync), i: usize, acc: &mut ThreadAcc) {
    acc.ctx.reset_case();
    let before = acc.ctx.transitions;
    let r = catch_unwind(AssertUnwindSafe(|| body(i, &mut acc.ctx)));
    match r {
        Ok(()) => {
            if acc.ctx.failed() {
                acc.violating += 1;
                let k = acc.ctx.fails[0].key.clone();
                if !acc.violations.contains_key(&k) && acc.violations.len() < 64 {
                    acc.violations.insert(k, (i, acc.ctx.fails.clone()));
                }
            } else if let Some(r) = acc.ctx.skip.take() {
                *acc.ctx.skipped.entry(r).or_insert(0) += 1;
            } else {
                acc.agree += 1;
                if acc.ctx.transitions > before && acc.distinct.len() < DISTINCT_CAP {
                    // hash of everything the case fed through `ctx.out` (inputs and observed
                    // results); the case index is deliberately NOT part of it
                    acc.distinct.insert(acc.ctx.hasher.finish());
                }
            }
        }
        Err(p) => {
            if let Some(d) = p.downcast_ref::<DomainExit>() {
                acc.inconclusive += 1;
                *acc.inconclusive_reasons.entry(d.0.to_string()).or_insert(0) += 1;
            } else {
                acc.violating += 1;
                let k = "unexpected-panic".to_string();
                if !acc.violations.contains_key(&k) {
                    acc.violations.insert(k.clone(), (i, vec![Fail { key: k, detail: last_panic() }]));
                }
            }
        }
    }
}
