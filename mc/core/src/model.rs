//! Reference model: textbook linear algebra on plain arrays, generic over `Field`.
//! Imports nothing from cgmath. Matrices are `[[F; N]; N]` indexed `[col][row]`;
//! quaternions are `[w, x, y, z]`. Algorithms are deliberately *different* from cgmath's
//! (Leibniz determinant, Gauss-Jordan inverse, sandwich product for rotation, ...).

use crate::field::Field;

pub type V<F, const N: usize> = [F; N];
pub type M<F, const N: usize> = [[F; N]; N];
pub type Q<F> = [F; 4];

pub fn vzero<F: Field, const N: usize>() -> V<F, N> {
    [F::zero(); N]
}
pub fn vadd<F: Field, const N: usize>(a: V<F, N>, b: V<F, N>) -> V<F, N> {
    std::array::from_fn(|i| a[i] + b[i])
}
pub fn vsub<F: Field, const N: usize>(a: V<F, N>, b: V<F, N>) -> V<F, N> {
    std::array::from_fn(|i| a[i] - b[i])
}
pub fn vneg<F: Field, const N: usize>(a: V<F, N>) -> V<F, N> {
    std::array::from_fn(|i| -a[i])
}
pub fn vscale<F: Field, const N: usize>(a: V<F, N>, s: F) -> V<F, N> {
    std::array::from_fn(|i| a[i] * s)
}
pub fn vdiv<F: Field, const N: usize>(a: V<F, N>, s: F) -> V<F, N> {
    std::array::from_fn(|i| a[i] / s)
}
pub fn vdot<F: Field, const N: usize>(a: V<F, N>, b: V<F, N>) -> F {
    let mut s = F::zero();
    for i in 0..N {
        s = s + a[i] * b[i];
    }
    s
}
pub fn vnorm2<F: Field, const N: usize>(a: V<F, N>) -> F {
    vdot(a, a)
}
pub fn vnorm<F: Field, const N: usize>(a: V<F, N>) -> F {
    vnorm2(a).sqrt()
}
pub fn vnormalize<F: Field, const N: usize>(a: V<F, N>) -> V<F, N> {
    vdiv(a, vnorm(a))
}
pub fn cross<F: Field>(a: V<F, 3>, b: V<F, 3>) -> V<F, 3> {
    [
        a[1] * b[2] - a[2] * b[1],
        a[2] * b[0] - a[0] * b[2],
        a[0] * b[1] - a[1] * b[0],
    ]
}
pub fn perp_dot<F: Field>(a: V<F, 2>, b: V<F, 2>) -> F {
    a[0] * b[1] - a[1] * b[0]
}

pub fn mzero<F: Field, const N: usize>() -> M<F, N> {
    [[F::zero(); N]; N]
}
pub fn mident<F: Field, const N: usize>() -> M<F, N> {
    let mut m = mzero::<F, N>();
    for i in 0..N {
        m[i][i] = F::one();
    }
    m
}
pub fn madd<F: Field, const N: usize>(a: M<F, N>, b: M<F, N>) -> M<F, N> {
    std::array::from_fn(|c| vadd(a[c], b[c]))
}
pub fn msub<F: Field, const N: usize>(a: M<F, N>, b: M<F, N>) -> M<F, N> {
    std::array::from_fn(|c| vsub(a[c], b[c]))
}
pub fn mneg<F: Field, const N: usize>(a: M<F, N>) -> M<F, N> {
    std::array::from_fn(|c| vneg(a[c]))
}
pub fn mscale<F: Field, const N: usize>(a: M<F, N>, s: F) -> M<F, N> {
    std::array::from_fn(|c| vscale(a[c], s))
}
/// (A B)[c][r] = sum_k A[k][r] * B[c][k]
pub fn mmul<F: Field, const N: usize>(a: M<F, N>, b: M<F, N>) -> M<F, N> {
    let mut out = mzero::<F, N>();
    for c in 0..N {
        for r in 0..N {
            let mut s = F::zero();
            for k in 0..N {
                s = s + a[k][r] * b[c][k];
            }
            out[c][r] = s;
        }
    }
    out
}
/// A v = sum_c col_c(A) * v[c]
pub fn mvec<F: Field, const N: usize>(a: M<F, N>, v: V<F, N>) -> V<F, N> {
    let mut out = vzero::<F, N>();
    for c in 0..N {
        out = vadd(out, vscale(a[c], v[c]));
    }
    out
}
pub fn mtranspose<F: Field, const N: usize>(a: M<F, N>) -> M<F, N> {
    std::array::from_fn(|c| std::array::from_fn(|r| a[r][c]))
}
pub fn mrow<F: Field, const N: usize>(a: M<F, N>, r: usize) -> V<F, N> {
    std::array::from_fn(|c| a[c][r])
}
pub fn mdiag<F: Field, const N: usize>(a: M<F, N>) -> V<F, N> {
    std::array::from_fn(|i| a[i][i])
}
pub fn mtrace<F: Field, const N: usize>(a: M<F, N>) -> F {
    let mut s = F::zero();
    for i in 0..N {
        s = s + a[i][i];
    }
    s
}

fn perms(n: usize) -> Vec<(Vec<usize>, bool)> {
    // all permutations with parity (true = odd)
    fn rec(cur: &mut Vec<usize>, used: &mut Vec<bool>, n: usize, out: &mut Vec<(Vec<usize>, bool)>) {
        if cur.len() == n {
            let mut inv = 0;
            for i in 0..n {
                for j in i + 1..n {
                    if cur[i] > cur[j] {
                        inv += 1;
                    }
                }
            }
            out.push((cur.clone(), inv % 2 == 1));
            return;
        }
        for i in 0..n {
            if !used[i] {
                used[i] = true;
                cur.push(i);
                rec(cur, used, n, out);
                cur.pop();
                used[i] = false;
            }
        }
    }
    let mut out = Vec::new();
    rec(&mut Vec::new(), &mut vec![false; n], n, &mut out);
    out
}

/// Leibniz expansion: sum over permutations of sign * prod_c A[c][sigma(c)]
pub fn mdet<F: Field, const N: usize>(a: M<F, N>) -> F {
    use std::sync::OnceLock;
    static P: OnceLock<[Vec<(Vec<usize>, bool)>; 5]> = OnceLock::new();
    let p = &P.get_or_init(|| [perms(0), perms(1), perms(2), perms(3), perms(4)])[N];
    let mut s = F::zero();
    for (sig, odd) in p {
        let mut t = F::one();
        for c in 0..N {
            t = t * a[c][sig[c]];
        }
        s = if *odd { s - t } else { s + t };
    }
    s
}

/// Gauss-Jordan with (partial, by magnitude) pivoting. `None` iff a pivot is exactly zero.
pub fn minverse<F: Field, const N: usize>(a: M<F, N>) -> Option<M<F, N>> {
    // work on rows: w[r][c]
    let mut w: Vec<Vec<F>> = (0..N).map(|r| (0..N).map(|c| a[c][r]).collect()).collect();
    let mut inv: Vec<Vec<F>> = (0..N)
        .map(|r| (0..N).map(|c| if r == c { F::one() } else { F::zero() }).collect())
        .collect();
    for col in 0..N {
        let mut piv = col;
        for r in col..N {
            if w[r][col].abs() > w[piv][col].abs() {
                piv = r;
            }
        }
        if w[piv][col].is_zero() {
            return None;
        }
        w.swap(col, piv);
        inv.swap(col, piv);
        let p = w[col][col];
        for c in 0..N {
            w[col][c] = w[col][c] / p;
            inv[col][c] = inv[col][c] / p;
        }
        for r in 0..N {
            if r != col {
                let f = w[r][col];
                if !f.is_zero() {
                    for c in 0..N {
                        w[r][c] = w[r][c] - f * w[col][c];
                        inv[r][c] = inv[r][c] - f * inv[col][c];
                    }
                }
            }
        }
    }
    Some(std::array::from_fn(|c| std::array::from_fn(|r| inv[r][c])))
}

/// minor of `a` with column `c` and row `r` removed, as an (N-1)x(N-1) determinant
/// (Leibniz on index lists; N <= 4)
pub fn mcofactor<F: Field, const N: usize>(a: M<F, N>, c: usize, r: usize) -> F {
    let cols: Vec<usize> = (0..N).filter(|&x| x != c).collect();
    let rows: Vec<usize> = (0..N).filter(|&x| x != r).collect();
    let n = N - 1;
    let mut s = F::zero();
    for (sig, odd) in perms(n) {
        let mut t = F::one();
        for i in 0..n {
            t = t * a[cols[i]][rows[sig[i]]];
        }
        s = if odd { s - t } else { s + t };
    }
    if (c + r) % 2 == 1 {
        -s
    } else {
        s
    }
}
/// Cramer's rule: inverse[c][r] = cofactor(r, c) / det (the textbook adjugate formula)
pub fn minverse_adj<F: Field, const N: usize>(a: M<F, N>) -> Option<M<F, N>> {
    let det = mdet(a);
    if det.is_zero() {
        return None;
    }
    Some(std::array::from_fn(|c| std::array::from_fn(|r| mcofactor(a, r, c) / det)))
}

pub fn embed<F: Field, const A: usize, const B: usize>(m: M<F, A>) -> M<F, B> {
    let mut out = mident::<F, B>();
    for c in 0..A {
        for r in 0..A {
            out[c][r] = m[c][r];
        }
    }
    out
}
pub fn extend<F: Field, const A: usize, const B: usize>(v: V<F, A>, last: F) -> V<F, B> {
    std::array::from_fn(|i| if i < A { v[i] } else { last })
}
pub fn truncate<F: Field, const A: usize, const B: usize>(v: V<F, A>) -> V<F, B> {
    std::array::from_fn(|i| v[i])
}

// ---------------------------------------------------------------- quaternions [w,x,y,z]

pub fn qone<F: Field>() -> Q<F> {
    [F::one(), F::zero(), F::zero(), F::zero()]
}
/// Hamilton product from the defining relations i^2=j^2=k^2=ijk=-1 (table form)
pub fn qmul<F: Field>(a: Q<F>, b: Q<F>) -> Q<F> {
    // basis product table: e_i * e_j = sign * e_k
    const T: [[(i8, usize); 4]; 4] = [
        [(1, 0), (1, 1), (1, 2), (1, 3)],
        [(1, 1), (-1, 0), (1, 3), (-1, 2)],
        [(1, 2), (-1, 3), (-1, 0), (1, 1)],
        [(1, 3), (1, 2), (-1, 1), (-1, 0)],
    ];
    let mut out = [F::zero(); 4];
    for i in 0..4 {
        for j in 0..4 {
            let (s, k) = T[i][j];
            let t = a[i] * b[j];
            out[k] = if s > 0 { out[k] + t } else { out[k] - t };
        }
    }
    out
}
pub fn qconj<F: Field>(a: Q<F>) -> Q<F> {
    [a[0], -a[1], -a[2], -a[3]]
}
pub fn qnorm2<F: Field>(a: Q<F>) -> F {
    vdot(a, a)
}
pub fn qinv<F: Field>(a: Q<F>) -> Q<F> {
    vdiv(qconj(a), qnorm2(a))
}
/// vector part of q (0,v) conj(q)
pub fn qsandwich<F: Field>(q: Q<F>, v: V<F, 3>) -> V<F, 3> {
    let p = [F::zero(), v[0], v[1], v[2]];
    let r = qmul(qmul(q, p), qconj(q));
    [r[1], r[2], r[3]]
}
/// rotation matrix of a unit quaternion: columns are the rotated basis vectors
pub fn qmat<F: Field>(q: Q<F>) -> M<F, 3> {
    let e = mident::<F, 3>();
    [qsandwich(q, e[0]), qsandwich(q, e[1]), qsandwich(q, e[2])]
}

// ---------------------------------------------------------------- rotations

/// Rodrigues: v cos t + (a x v) sin t + a (a.v)(1 - cos t); `cs = (cos t, sin t)`
pub fn rodrigues<F: Field>(a: V<F, 3>, cs: (F, F), v: V<F, 3>) -> V<F, 3> {
    let (c, s) = cs;
    let t1 = vscale(v, c);
    let t2 = vscale(cross(a, v), s);
    let t3 = vscale(a, vdot(a, v) * (F::one() - c));
    vadd(vadd(t1, t2), t3)
}
pub fn axis_angle_mat<F: Field>(a: V<F, 3>, cs: (F, F)) -> M<F, 3> {
    let e = mident::<F, 3>();
    [rodrigues(a, cs, e[0]), rodrigues(a, cs, e[1]), rodrigues(a, cs, e[2])]
}
pub fn rot2<F: Field>(cs: (F, F)) -> M<F, 2> {
    let (c, s) = cs;
    [[c, s], [-s, c]]
}
/// intrinsic X-Y-Z: Rx(x) * Ry(y) * Rz(z)
pub fn euler_mat<F: Field>(x: (F, F), y: (F, F), z: (F, F)) -> M<F, 3> {
    let e = mident::<F, 3>();
    let rx = axis_angle_mat(e[0], x);
    let ry = axis_angle_mat(e[1], y);
    let rz = axis_angle_mat(e[2], z);
    mmul(mmul(rx, ry), rz)
}
pub fn is_orthonormal_exact<F: Field, const N: usize>(m: M<F, N>) -> bool {
    mmul(mtranspose(m), m) == mident::<F, N>()
}

// ---------------------------------------------------------------- helpers for laws

pub fn mflat<F: Field, const N: usize>(m: M<F, N>) -> Vec<F> {
    m.iter().flat_map(|c| c.iter().copied()).collect()
}
pub fn max_abs<F: Field>(xs: &[F]) -> f64 {
    xs.iter().fold(0.0f64, |a, x| a.max(x.approx().abs()))
}
