//! Generates the swizzle call table for C16: for every word of length 1..=max over a type's
//! component letters, a call of the accessor of that name. Written independently of
//! cgmath's own generator (plain nested enumeration of words).
use std::env;
use std::fs;
use std::path::Path;

fn words(letters: &str, max: usize) -> Vec<String> {
    let ls: Vec<char> = letters.chars().collect();
    let mut out: Vec<String> = Vec::new();
    let mut cur: Vec<String> = vec![String::new()];
    for _ in 0..max {
        let mut next = Vec::new();
        for w in &cur {
            for c in &ls {
                let mut s = w.clone();
                s.push(*c);
                next.push(s);
            }
        }
        out.extend(next.iter().cloned());
        cur = next;
    }
    out
}

/// generic in the element type: the accessors of the vectors exist for numeric elements, those of the points for any Copy type
fn table(fname: &str, ty: &str, letters: &str, max: usize, bound: &str) -> String {
    let fields = ["x", "y", "z", "w"];
    let mut s = format!(
        "fn {fname}<E: {bound}>() -> Vec<(&'static str, fn(&{ty}<E>) -> Vec<E>)> {{\n    let mut t: Vec<(&'static str, fn(&{ty}<E>) -> Vec<E>)> = Vec::new();\n"
    );
    for w in words(letters, max) {
        let comps: Vec<String> = (0..w.len()).map(|k| format!("r.{}", fields[k])).collect();
        s.push_str(&format!("    t.push((\"{w}\", |v| {{ let r = v.{w}(); vec![{}] }}));\n", comps.join(", ")));
    }
    s.push_str("    t\n}\n");
    s
}

fn main() {
    let out = env::var("OUT_DIR").unwrap();
    let mut src = String::new();
    src.push_str(&table("swizzle_vector1", "Vector1", "x", 4, "cgmath::BaseNum"));
    src.push_str(&table("swizzle_vector2", "Vector2", "xy", 4, "cgmath::BaseNum"));
    src.push_str(&table("swizzle_vector3", "Vector3", "xyz", 4, "cgmath::BaseNum"));
    src.push_str(&table("swizzle_vector4", "Vector4", "xyzw", 4, "cgmath::BaseNum"));
    src.push_str(&table("swizzle_point1", "Point1", "x", 3, "Copy"));
    src.push_str(&table("swizzle_point2", "Point2", "xy", 3, "Copy"));
    src.push_str(&table("swizzle_point3", "Point3", "xyz", 3, "Copy"));
    fs::write(Path::new(&out).join("swizzle_table.rs"), src).unwrap();
    println!("cargo:rerun-if-changed=build.rs");
}
