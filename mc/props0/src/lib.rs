// binaries only
