//! Helpers shared by the structural property binaries.

pub mod views;

use stateright::{Checker, Model, Property};
use std::fmt::Debug;
use std::hash::Hash;

/// The same transition function wrapped as a `stateright::Model`: an independent second
/// explorer used to cross-check the home-grown BFS engine's dedup and frontier logic
/// (DESIGN 2.4). Not a second verdict: only the state counts are compared.
struct Wrapped<S, F> {
    inits: Vec<S>,
    n_actions: usize,
    step: F,
}
impl<S, F> Model for Wrapped<S, F>
where
    S: Clone + Hash + Eq + Debug + Send + Sync + 'static,
    F: Fn(&S, usize) -> Option<S> + Send + Sync + 'static,
{
    type State = S;
    type Action = usize;
    fn init_states(&self) -> Vec<S> {
        self.inits.clone()
    }
    fn actions(&self, _s: &S, out: &mut Vec<usize>) {
        out.extend(0..self.n_actions);
    }
    fn next_state(&self, s: &S, a: usize) -> Option<S> {
        (self.step)(s, a)
    }
    fn properties(&self) -> Vec<Property<Self>> {
        vec![Property::always("explore everything", |_, _| true)]
    }
}

/// number of distinct states stateright's single-threaded BFS reaches within `depth` transitions
pub fn stateright_states<S, F>(inits: Vec<S>, n_actions: usize, depth: usize, step: F) -> usize
where
    S: Clone + Hash + Eq + Debug + Send + Sync + 'static,
    F: Fn(&S, usize) -> Option<S> + Send + Sync + 'static,
{
    let m = Wrapped { inits, n_actions, step };
    // stateright counts the initial states as depth 1
    let c = m.checker().threads(1).target_max_depth(depth + 1).spawn_bfs().join();
    c.unique_state_count()
}
