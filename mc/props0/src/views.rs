//! View descriptors for C16: for each compound type and element type, the list of mutable
//! views (write a value at an index) and read views (show all components in order), as plain
//! function pointers. Shared by the explorer binary `c16` and the miri replay binary `c16m`.
#![allow(clippy::all)]
use cgmath::conv;
use cgmath::{Array, Matrix};
use mc_props::*;
use std::fmt::Debug;

/// element types with pairwise-distinct labelled values
pub trait El: Copy + PartialEq + Debug + Send + Sync + 'static {
    const NAME: &'static str;
    fn label(i: usize) -> Self;
}
macro_rules! el_num {
    ($($t:ty),*) => { $( impl El for $t { const NAME: &'static str = stringify!($t); fn label(i: usize) -> $t { (3 + 2 * i) as $t } } )* };
}
el_num!(u8, i16, i32, u64, usize, f32, f64);
impl El for char {
    const NAME: &'static str = "char";
    fn label(i: usize) -> char {
        (b'a' + i as u8) as char
    }
}
impl El for bool {
    const NAME: &'static str = "bool";
    fn label(i: usize) -> bool {
        i % 2 == 1
    }
}
impl El for &'static str {
    const NAME: &'static str = "&str";
    fn label(i: usize) -> &'static str {
        ["a0", "b1", "c2", "d3", "e4", "f5", "g6", "h7", "i8", "j9", "k10", "l11", "m12", "n13", "o14", "p15", "q16", "r17", "s18", "t19"][i]
    }
}
#[derive(Clone, Copy, PartialEq, Debug)]
pub struct Tag(pub u8, pub u8);
impl El for Tag {
    const NAME: &'static str = "Tag";
    fn label(i: usize) -> Tag {
        Tag(i as u8, 100 - i as u8)
    }
}

pub type ReadFn<V, E> = fn(&V) -> Vec<E>;
pub type WriteFn<V, E> = fn(&mut V, usize, E);
pub type SwapFn<V> = fn(&mut V, usize, usize);
pub struct Desc<V, E> {
    pub name: String,
    pub n: usize,
    pub mk: fn(&[E]) -> V,
    pub reads: Vec<(&'static str, ReadFn<V, E>)>,
    pub writes: Vec<(&'static str, WriteFn<V, E>)>,
    pub swaps: Vec<(&'static str, SwapFn<V>)>,
}

// ------------------------------------------------------------------ descriptors
macro_rules! idx_match {
    ($i:expr, $e:expr, $t:expr; $($k:tt),+) => { match $i { $( $k => $t.$k = $e, )+ _ => unreachable!() } };
}
macro_rules! vec_like {
    ($fname:ident, $V:ident, $n:expr, [$($f:ident : $k:tt),+], $Tup:ty) => {
        pub fn $fname<E: El>() -> Desc<$V<E>, E> {
            let d: Desc<$V<E>, E> = Desc {
                name: format!("{}<{}>", stringify!($V), E::NAME),
                n: $n,
                mk: |c| $V { $($f: c[$k]),+ },
                reads: vec![
                    ("fields", |v| vec![$(v.$f),+]),
                    ("index", |v| (0..$n).map(|i| v[i]).collect()),
                    ("index[..]", |v| v[..].to_vec()),
                    ("index[0..n]", |v| v[0..$n].to_vec()),
                    ("index[..n]", |v| v[..$n].to_vec()),
                    ("index[i..] heads", |v| (0..$n).map(|i| v[i..][0]).collect()),
                    ("as_ref array", |v| { let a: &[E; $n] = v.as_ref(); a.to_vec() }),
                    ("as_ref tuple", |v| { let t: &$Tup = v.as_ref(); vec![$(t.$k),+] }),
                    ("into array", |v| { let a: [E; $n] = (*v).into(); a.to_vec() }),
                    ("into tuple", |v| { let t: $Tup = (*v).into(); vec![$(t.$k),+] }),
                    ("from array", |v| { let a = [$(v.$f),+]; let w: $V<E> = a.into(); vec![$(w.$f),+] }),
                    ("from tuple", |v| { let t: $Tup = ($(v.$f),+ ,); let w: $V<E> = t.into(); vec![$(w.$f),+] }),
                    ("from &array", |v| { let a = [$(v.$f),+]; let w: &$V<E> = (&a).into(); vec![$(w.$f),+] }),
                    ("from &tuple", |v| { let t: $Tup = ($(v.$f),+ ,); let w: &$V<E> = (&t).into(); vec![$(w.$f),+] }),
                    ("map identity", |v| { let w = v.map(|x| x); vec![$(w.$f),+] }),
                    ("clone", |v| { let w = v.clone(); vec![$(w.$f),+] }),
                ],
                writes: vec![
                    ("field", |v, i, e| idx_field!(v, i, e; $($f : $k),+)),
                    ("index_mut", |v, i, e| v[i] = e),
                    ("index_mut[..]", |v, i, e| v[..][i] = e),
                    ("index_mut[i..i+1]", |v, i, e| v[i..i + 1][0] = e),
                    ("index_mut[..i+1]", |v, i, e| v[..i + 1][i] = e),
                    ("index_mut[i..]", |v, i, e| v[i..][0] = e),
                    ("as_mut array", |v, i, e| { let a: &mut [E; $n] = v.as_mut(); a[i] = e; }),
                    ("as_mut tuple", |v, i, e| { let t: &mut $Tup = v.as_mut(); idx_match!(i, e, t; $($k),+) }),
                    ("from &mut array", |v, i, e| { let mut a = [$(v.$f),+]; { let w: &mut $V<E> = (&mut a).into(); idx_field!(w, i, e; $($f : $k),+); } *v = $V { $($f: a[$k]),+ }; }),
                    ("from &mut tuple", |v, i, e| { let mut t: $Tup = ($(v.$f),+ ,); { let w: &mut $V<E> = (&mut t).into(); idx_field!(w, i, e; $($f : $k),+); } *v = $V { $($f: t.$k),+ }; }),
                ],
                swaps: vec![],
            };
            d
        }
    };
}
macro_rules! idx_field {
    ($v:expr, $i:expr, $e:expr; $($f:ident : $k:tt),+) => { match $i { $( $k => $v.$f = $e, )+ _ => unreachable!() } };
}
macro_rules! with_mint {
    ($fname:ident, $base:ident, $V:ident, $M:ident, [$($f:ident),+]) => {
        pub fn $fname<E: El>() -> Desc<$V<E>, E> {
            let mut d = $base::<E>();
            d.reads.push(("into mint", |v| { let m: mint::$M<E> = (*v).into(); vec![$(m.$f),+] }));
            d.reads.push(("from mint", |v| { let m: mint::$M<E> = mint::$M { $($f: v.$f),+ }; let w: $V<E> = m.into(); vec![$(w.$f),+] }));
            d
        }
    };
}
vec_like!(d_v1, Vector1, 1, [x: 0], (E,));
vec_like!(d_v2_, Vector2, 2, [x: 0, y: 1], (E, E));
with_mint!(d_v2, d_v2_, Vector2, Vector2, [x, y]);
vec_like!(d_v3_, Vector3, 3, [x: 0, y: 1, z: 2], (E, E, E));
with_mint!(d_v3, d_v3_, Vector3, Vector3, [x, y, z]);
vec_like!(d_v4_, Vector4, 4, [x: 0, y: 1, z: 2, w: 3], (E, E, E, E));
with_mint!(d_v4, d_v4_, Vector4, Vector4, [x, y, z, w]);
vec_like!(d_p1, Point1, 1, [x: 0], (E,));
vec_like!(d_p2_, Point2, 2, [x: 0, y: 1], (E, E));
with_mint!(d_p2, d_p2_, Point2, Point2, [x, y]);
vec_like!(d_p3_, Point3, 3, [x: 0, y: 1, z: 2], (E, E, E));
with_mint!(d_p3, d_p3_, Point3, Point3, [x, y, z]);

/// views that exist only for numeric element types (Array trait, conv functions)
macro_rules! vec_num_extras {
    ($fname:ident, $base:ident, $V:ident, $n:expr, [$($f:ident),+] $(, conv: $cf:ident)?) => {
        pub fn $fname<E: El + cgmath::BaseNum>() -> Desc<$V<E>, E> {
            let mut d = $base::<E>();
            d.reads.push(("as_ptr", |v| { let p = Array::as_ptr(v); (0..$n).map(|i| unsafe { *p.add(i) }).collect() }));
            d.writes.push(("as_mut_ptr", |v, i, e| { let p = Array::as_mut_ptr(v); unsafe { *p.add(i) = e } }));
            d.swaps.push(("Array::swap_elements", |v, i, j| Array::swap_elements(v, i, j)));
            $( d.reads.push((concat!("conv::", stringify!($cf)), |v| conv::$cf(*v).to_vec())); )?
            d.reads.push(("len()", |v| { let l = <$V<E> as Array>::len(); if l == $n { vec![$(v.$f),+] } else { vec![] } }));
            d
        }
    };
}
/// the Array views of the vectors need only a Copy element (those of the points need a number)
macro_rules! vec_copy_extras {
    ($fname:ident, $base:ident, $V:ident, $n:expr, [$($f:ident),+]) => {
        pub fn $fname<E: El>() -> Desc<$V<E>, E> {
            let mut d = $base::<E>();
            d.reads.push(("as_ptr", |v| { let p = Array::as_ptr(v); (0..$n).map(|i| unsafe { *p.add(i) }).collect() }));
            d.writes.push(("as_mut_ptr", |v, i, e| { let p = Array::as_mut_ptr(v); unsafe { *p.add(i) = e } }));
            d.swaps.push(("Array::swap_elements", |v, i, j| Array::swap_elements(v, i, j)));
            d.reads.push(("len()", |v| { let l = <$V<E> as Array>::len(); if l == $n { vec![$(v.$f),+] } else { vec![] } }));
            d
        }
    };
}
vec_copy_extras!(dc_v1, d_v1, Vector1, 1, [x]);
vec_copy_extras!(dc_v2, d_v2, Vector2, 2, [x, y]);
vec_copy_extras!(dc_v3, d_v3, Vector3, 3, [x, y, z]);
vec_copy_extras!(dc_v4, d_v4, Vector4, 4, [x, y, z, w]);
vec_num_extras!(dn_v1, d_v1, Vector1, 1, [x]);
vec_num_extras!(dn_v2, d_v2, Vector2, 2, [x, y], conv: array2);
vec_num_extras!(dn_v3, d_v3, Vector3, 3, [x, y, z], conv: array3);
vec_num_extras!(dn_v4, d_v4, Vector4, 4, [x, y, z, w], conv: array4);
vec_num_extras!(dn_p1, d_p1, Point1, 1, [x]);
vec_num_extras!(dn_p2, d_p2, Point2, 2, [x, y], conv: array2);
vec_num_extras!(dn_p3, d_p3, Point3, 3, [x, y, z], conv: array3);

pub fn fieldw_m2<E: El>(m: &mut Matrix2<E>, i: usize, e: E) {
    match i {
        0 => m.x.x = e,
        1 => m.x.y = e,
        2 => m.y.x = e,
        _ => m.y.y = e,
    }
}
pub fn fieldw_m3<E: El>(m: &mut Matrix3<E>, i: usize, e: E) {
    let col = match i / 3 {
        0 => &mut m.x,
        1 => &mut m.y,
        _ => &mut m.z,
    };
    match i % 3 {
        0 => col.x = e,
        1 => col.y = e,
        _ => col.z = e,
    }
}
pub fn fieldw_m4<E: El>(m: &mut Matrix4<E>, i: usize, e: E) {
    let col = match i / 4 {
        0 => &mut m.x,
        1 => &mut m.y,
        2 => &mut m.z,
        _ => &mut m.w,
    };
    match i % 4 {
        0 => col.x = e,
        1 => col.y = e,
        2 => col.z = e,
        _ => col.w = e,
    }
}
macro_rules! mat_like {
    ($fname:ident, $M:ident, $n:expr, $nn:expr, $mk:ident, $arr:ident, $fieldw:ident, [$($c:ident),+], $Mint:ident, $convf:ident) => {
        pub fn $fname<E: El>() -> Desc<$M<E>, E> {
            Desc {
                name: format!("{}<{}>", stringify!($M), E::NAME),
                n: $nn,
                // flat column-major contents
                mk: |c| $mk(std::array::from_fn(|i| std::array::from_fn(|j| c[i * $n + j]))),
                reads: vec![
                    ("fields", |m| flat_m($arr(*m))),
                    ("index[c][r]", |m| { let mut o = Vec::new(); for c in 0..$n { for r in 0..$n { o.push(m[c][r]); } } o }),
                    ("as_ref nested", |m| { let a: &[[E; $n]; $n] = m.as_ref(); a.iter().flat_map(|c| c.iter().copied()).collect() }),
                    ("as_ref flat", |m| { let a: &[E; $nn] = m.as_ref(); a.to_vec() }),
                    ("into nested", |m| { let a: [[E; $n]; $n] = (*m).into(); a.iter().flat_map(|c| c.iter().copied()).collect() }),
                    ("conv::arrayNxN", |m| { let a = conv::$convf(*m); a.iter().flat_map(|c| c.iter().copied()).collect() }),
                    ("from nested", |m| { let w: $M<E> = $arr(*m).into(); flat_m($arr(w)) }),
                    ("from &nested", |m| { let a = $arr(*m); let w: &$M<E> = (&a).into(); flat_m($arr(*w)) }),
                    ("from &flat", |m| { let f = flat_m($arr(*m)); let a: [E; $nn] = std::array::from_fn(|i| f[i]); let w: &$M<E> = (&a).into(); flat_m($arr(*w)) }),
                    ("from_cols", |m| { let w = $M::from_cols($(m.$c),+); flat_m($arr(w)) }),
                    ("into mint", |m| { let mm: mint::$Mint<E> = (*m).into(); let cols = [$(mm.$c),+]; cols.iter().flat_map(|c| { let a: [E; $n] = (*c).into(); a.to_vec() }).collect() }),
                    ("mint round trip", |m| { let mm: mint::$Mint<E> = (*m).into(); let back: $M<E> = mm.into(); flat_m($arr(back)) }),
                    ("clone", |m| flat_m($arr(m.clone()))),
                ],
                writes: vec![
                    ("field", $fieldw::<E>),
                    ("index_mut[c][r]", |m, i, e| m[i / $n][i % $n] = e),
                    ("as_mut nested", |m, i, e| { let a: &mut [[E; $n]; $n] = m.as_mut(); a[i / $n][i % $n] = e; }),
                    ("as_mut flat", |m, i, e| { let a: &mut [E; $nn] = m.as_mut(); a[i] = e; }),
                    ("from &mut nested", |m, i, e| { let mut a = $arr(*m); { let w: &mut $M<E> = (&mut a).into(); w[i / $n][i % $n] = e; } *m = $mk(a); }),
                    ("from &mut flat", |m, i, e| { let f = flat_m($arr(*m)); let mut a: [E; $nn] = std::array::from_fn(|k| f[k]); { let w: &mut $M<E> = (&mut a).into(); w[i / $n][i % $n] = e; } *m = $mk(std::array::from_fn(|c| std::array::from_fn(|r| a[c * $n + r]))); }),
                ],
                swaps: vec![],
            }
        }
    };
}
mat_like!(d_m2, Matrix2, 2, 4, mk_m2, m2, fieldw_m2, [x, y], ColumnMatrix2, array2x2);
mat_like!(d_m3, Matrix3, 3, 9, mk_m3, m3, fieldw_m3, [x, y, z], ColumnMatrix3, array3x3);
mat_like!(d_m4, Matrix4, 4, 16, mk_m4, m4, fieldw_m4, [x, y, z, w], ColumnMatrix4, array4x4);

macro_rules! mat_float_extras {
    ($fname:ident, $base:ident, $M:ident, $n:expr, $nn:expr) => {
        pub fn $fname<E: El + cgmath::BaseFloat>() -> Desc<$M<E>, E> {
            let mut d = $base::<E>();
            d.reads.push(("as_ptr", |m| { let p = Matrix::as_ptr(m); (0..$nn).map(|i| unsafe { *p.add(i) }).collect() }));
            d.reads.push(("row()", |m| { let mut cols = vec![Vec::new(); $n]; for r in 0..$n { let row = m.row(r); for c in 0..$n { cols[c].push(row[c]); } } cols.concat() }));
            d.writes.push(("as_mut_ptr", |m, i, e| { let p = Matrix::as_mut_ptr(m); unsafe { *p.add(i) = e } }));
            d.writes.push(("replace_col", |m, i, e| { let mut col = m[i / $n]; col[i % $n] = e; let _ = m.replace_col(i / $n, col); }));
            d.swaps.push(("Matrix::swap_elements", |m, i, j| Matrix::swap_elements(m, (i / $n, i % $n), (j / $n, j % $n))));
            d
        }
    };
}
mat_float_extras!(df_m2, d_m2, Matrix2, 2, 4);
mat_float_extras!(df_m3, d_m3, Matrix3, 3, 9);
mat_float_extras!(df_m4, d_m4, Matrix4, 4, 16);

/// Quaternion: field order x, y, z, then the scalar part; new() takes the scalar first
pub fn d_q<E: El + cgmath::BaseNum>() -> Desc<Quaternion<E>, E> {
    type T4<E> = (E, E, E, E);
    Desc {
        name: format!("Quaternion<{}>", E::NAME),
        n: 4,
        mk: |c| Quaternion { v: Vector3 { x: c[0], y: c[1], z: c[2] }, s: c[3] },
        reads: vec![
            ("fields", |q| vec![q.v.x, q.v.y, q.v.z, q.s]),
            ("index", |q| (0..4).map(|i| q[i]).collect()),
            ("index[..]", |q| q[..].to_vec()),
            ("index[0..4]", |q| q[0..4].to_vec()),
            ("index[..4]", |q| q[..4].to_vec()),
            ("index[i..] heads", |q| (0..4).map(|i| q[i..][0]).collect()),
            ("as_ref array", |q| { let a: &[E; 4] = q.as_ref(); a.to_vec() }),
            ("as_ref tuple", |q| { let t: &T4<E> = q.as_ref(); vec![t.0, t.1, t.2, t.3] }),
            ("into array", |q| { let a: [E; 4] = (*q).into(); a.to_vec() }),
            ("into tuple", |q| { let t: T4<E> = (*q).into(); vec![t.0, t.1, t.2, t.3] }),
            ("conv::array4", |q| conv::array4(*q).to_vec()),
            ("from array", |q| { let w: Quaternion<E> = [q.v.x, q.v.y, q.v.z, q.s].into(); vec![w.v.x, w.v.y, w.v.z, w.s] }),
            ("from tuple", |q| { let w: Quaternion<E> = (q.v.x, q.v.y, q.v.z, q.s).into(); vec![w.v.x, w.v.y, w.v.z, w.s] }),
            ("from &array", |q| { let a = [q.v.x, q.v.y, q.v.z, q.s]; let w: &Quaternion<E> = (&a).into(); vec![w.v.x, w.v.y, w.v.z, w.s] }),
            ("from &tuple", |q| { let t = (q.v.x, q.v.y, q.v.z, q.s); let w: &Quaternion<E> = (&t).into(); vec![w.v.x, w.v.y, w.v.z, w.s] }),
            ("new (scalar first)", |q| { let w = Quaternion::new(q.s, q.v.x, q.v.y, q.v.z); vec![w.v.x, w.v.y, w.v.z, w.s] }),
            ("from_sv", |q| { let w = Quaternion::from_sv(q.s, q.v); vec![w.v.x, w.v.y, w.v.z, w.s] }),
            ("mint", |q| { let m: mint::Quaternion<E> = (*q).into(); let direct = vec![m.v.x, m.v.y, m.v.z, m.s]; let m2: mint::Quaternion<E> = (*q).into(); let back: Quaternion<E> = m2.into(); if vec![back.v.x, back.v.y, back.v.z, back.s] == direct { direct } else { vec![] } }),
        ],
        writes: vec![
            ("field", |q, i, e| match i { 0 => q.v.x = e, 1 => q.v.y = e, 2 => q.v.z = e, _ => q.s = e }),
            ("index_mut", |q, i, e| q[i] = e),
            ("index_mut[..]", |q, i, e| q[..][i] = e),
            ("index_mut[i..i+1]", |q, i, e| q[i..i + 1][0] = e),
            ("index_mut[..i+1]", |q, i, e| q[..i + 1][i] = e),
            ("index_mut[i..]", |q, i, e| q[i..][0] = e),
            ("as_mut array", |q, i, e| { let a: &mut [E; 4] = q.as_mut(); a[i] = e; }),
            ("as_mut tuple", |q, i, e| { let t: &mut T4<E> = q.as_mut(); match i { 0 => t.0 = e, 1 => t.1 = e, 2 => t.2 = e, _ => t.3 = e } }),
            ("from &mut array", |q, i, e| { let mut a = [q.v.x, q.v.y, q.v.z, q.s]; { let w: &mut Quaternion<E> = (&mut a).into(); w[i] = e; } *q = Quaternion { v: Vector3 { x: a[0], y: a[1], z: a[2] }, s: a[3] }; }),
            ("from &mut tuple", |q, i, e| { let mut t = (q.v.x, q.v.y, q.v.z, q.s); { let w: &mut Quaternion<E> = (&mut t).into(); w[i] = e; } *q = Quaternion { v: Vector3 { x: t.0, y: t.1, z: t.2 }, s: t.3 }; }),
        ],
        swaps: vec![],
    }
}
/// Quaternion over non-numeric elements: construction, fields and mint only
pub fn d_q_any<E: El>() -> Desc<Quaternion<E>, E> {
    Desc {
        name: format!("Quaternion<{}>", E::NAME),
        n: 4,
        mk: |c| Quaternion { v: Vector3 { x: c[0], y: c[1], z: c[2] }, s: c[3] },
        reads: vec![
            ("fields", |q| vec![q.v.x, q.v.y, q.v.z, q.s]),
            ("new (scalar first)", |q| { let w = Quaternion::new(q.s, q.v.x, q.v.y, q.v.z); vec![w.v.x, w.v.y, w.v.z, w.s] }),
            ("from_sv", |q| { let w = Quaternion::from_sv(q.s, q.v); vec![w.v.x, w.v.y, w.v.z, w.s] }),
            ("mint", |q| { let m: mint::Quaternion<E> = (*q).into(); vec![m.v.x, m.v.y, m.v.z, m.s] }),
        ],
        writes: vec![("field", |q, i, e| match i { 0 => q.v.x = e, 1 => q.v.y = e, 2 => q.v.z = e, _ => q.s = e })],
        swaps: vec![],
    }
}

