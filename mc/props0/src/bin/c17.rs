//! C17 — every spelling of an operator computes the same value.
use cgmath::{One, Zero};
use mc_props::*;
use std::fmt::Debug;

const P: &str = "C17";
fn key(s: &str) -> String {
    format!("{P}/{s}")
}

/// results are compared through their Debug rendering: identical iff bit-identical (no NaNs occur)
fn same<A: Debug, B: Debug>(ctx: &mut Ctx, k: &str, form: &str, got: &A, canon: &B) {
    ctx.t();
    let (g, c) = (format!("{:?}", got), format!("{:?}", canon));
    if g != c {
        ctx.fail(&key(&format!("{k}/{form}")), || format!("form `{form}` gives {g}, the by-value form gives {c}"));
    }
    ctx.out(&g);
}

/// the four operand forms of a binary operator with a compound right-hand side
macro_rules! four {
    ($ctx:expr, $k:expr, $a:expr, $b:expr, $op:tt) => {{
        let (a, b) = ($a, $b);
        let canon = a $op b;
        same($ctx, $k, "&a op b", &(&a $op b), &canon);
        same($ctx, $k, "a op &b", &(a $op &b), &canon);
        same($ctx, $k, "&a op &b", &(&a $op &b), &canon);
        canon
    }};
}
/// the two operand forms of a binary operator with a scalar right-hand side
macro_rules! two {
    ($ctx:expr, $k:expr, $a:expr, $s:expr, $op:tt) => {{
        let (a, s) = ($a, $s);
        let canon = a $op s;
        same($ctx, $k, "&a op s", &(&a $op s), &canon);
        canon
    }};
}
macro_rules! assign {
    ($ctx:expr, $k:expr, $a:expr, $b:expr, $op:tt, $canon:expr) => {{
        let mut t = $a;
        t $op $b;
        same($ctx, $k, "a op= b", &t, &$canon);
    }};
}

fn gen_r(n: usize, v: usize, int: bool) -> Vec<R> {
    if int {
        // small non-zero integers: no overflow, no zero divisors
        let pool: [i64; 9] = [2, -3, 5, -7, 4, 9, -2, 3, -5];
        (0..n).map(|i| (pool[(i * (v + 1) + 2 * v) % 9], 1)).collect()
    } else {
        alphabet::generic(n, v)
    }
}

fn gen_d<D: Dom>(n: usize, v: usize) -> Vec<R> {
    let r = gen_r(n, v, D::INTEGER);
    if D::SIGNED {
        r
    } else {
        r.iter().map(|x| (x.0.abs(), x.1)).collect()
    }
}

// ------------------------------------------------------------------ vectors and points
macro_rules! vec_spellings {
    ($fname:ident, $V:ident, $Pt:ident, $n:expr, $mkv:ident, $mkp:ident) => {
        fn $fname<D: Dom>(rep: &mut Report)
        where
            $V<D>: MaybeNeg,
        {
            // operands: 3 generic ones and the zero vector; scalars: 3 generic ones and zero (no division of integers by it)
            let (nv, ns) = (4, 4);
            rep.cases(
                &format!("spellings/{}+{}", stringify!($V), stringify!($Pt)),
                D::NAME,
                "all ordered pairs of 4 operands (3 generic, zero) x 4 scalars (3 generic, zero); every by-value / by-reference / compound-assignment form of every operator",
                nv * nv * ns,
                Guard::states(9).distinct(9),
                |i, ctx| {
                    let (ai, bi, si) = (i / (nv * ns), (i / ns) % nv, i % ns);
                    let a: [D; $n] = if ai == 3 { [rq::<D>((0, 1)); $n] } else { vec_from_r(&gen_d::<D>($n, ai)) };
                    let b: [D; $n] = if bi == 3 { [rq::<D>((0, 1)); $n] } else { vec_from_r(&gen_d::<D>($n, bi + 1)) };
                    let s: D = rq(if D::INTEGER { [(2, 1), (3, 1), (5, 1), (0, 1)][si] } else { [(2, 1), (-3, 1), (1, 2), (0, 1)][si] });
                    let divisible = !((D::INTEGER || D::EXACT) && si == 3);
                    ctx.describe(|| format!("{}<{}> a={:?} b={:?} s={:?}", stringify!($V), D::NAME, a, b, s));
                    let (va, vb) = ($mkv(a), $mkv(b));
                    // unsigned subtraction must not underflow: order the operands
                    let ge = (0..$n).all(|j| a[j] >= b[j]);
                    let (hi, lo) = if D::SIGNED || ge { (va, vb) } else { ($mkv(std::array::from_fn(|j| a[j] + b[j])), vb) };
                    let vn = stringify!($V);
                    let c = four!(ctx, &format!("{vn}/add"), va, vb, +);
                    assign!(ctx, &format!("{vn}/add"), va, vb, +=, c);
                    let c = four!(ctx, &format!("{vn}/sub"), hi, lo, -);
                    assign!(ctx, &format!("{vn}/sub"), hi, lo, -=, c);
                    let c = two!(ctx, &format!("{vn}/mul_scalar"), va, s, *);
                    assign!(ctx, &format!("{vn}/mul_scalar"), va, s, *=, c);
                    if divisible {
                        let c = two!(ctx, &format!("{vn}/div_scalar"), va, s, /);
                        assign!(ctx, &format!("{vn}/div_scalar"), va, s, /=, c);
                        let c = two!(ctx, &format!("{vn}/rem_scalar"), va, s, %);
                        assign!(ctx, &format!("{vn}/rem_scalar"), va, s, %=, c);
                    }
                    if let Some(n) = va.try_neg() {
                        // Neg exists by value only for vectors; it must agree with 0 - a (where no component is zero: -0.0 is not 0 - 0)
                        if ai != 3 {
                            same(ctx, &format!("{vn}/neg"), "-a vs zero-a", &n, &($V::<D>::zero() - va));
                        }
                    }
                    // points
                    let (pa, pb) = ($mkp(a), $mkp(b));
                    let (phi, plo) = if D::SIGNED || ge { (pa, pb) } else { ($mkp(std::array::from_fn(|j| a[j] + b[j])), pb) };
                    let pn = stringify!($Pt);
                    let c = four!(ctx, &format!("{pn}/add_vector"), pa, vb, +);
                    assign!(ctx, &format!("{pn}/add_vector"), pa, vb, +=, c);
                    let c = four!(ctx, &format!("{pn}/sub_vector"), phi, lo, -);
                    assign!(ctx, &format!("{pn}/sub_vector"), phi, lo, -=, c);
                    let _ = four!(ctx, &format!("{pn}/sub_point"), phi, plo, -);
                    let c = two!(ctx, &format!("{pn}/mul_scalar"), pa, s, *);
                    assign!(ctx, &format!("{pn}/mul_scalar"), pa, s, *=, c);
                    if divisible {
                        let c = two!(ctx, &format!("{pn}/div_scalar"), pa, s, /);
                        assign!(ctx, &format!("{pn}/div_scalar"), pa, s, /=, c);
                        let c = two!(ctx, &format!("{pn}/rem_scalar"), pa, s, %);
                        assign!(ctx, &format!("{pn}/rem_scalar"), pa, s, %=, c);
                    }
                },
            );
        }
    };
}
vec_spellings!(sp_v1, Vector1, Point1, 1, mk_v1, mk_p1);
vec_spellings!(sp_v2, Vector2, Point2, 2, mk_v2, mk_p2);
vec_spellings!(sp_v3, Vector3, Point3, 3, mk_v3, mk_p3);
fn sp_v4<D: Dom>(rep: &mut Report)
where
    Vector4<D>: MaybeNeg,
{
    rep.cases("spellings/Vector4", D::NAME, "all ordered pairs of 4 operands (3 generic, zero) x 4 scalars (3 generic, zero)", 64, Guard::states(9).distinct(9), |i, ctx| {
        let (ai, bi, si) = (i / 16, (i / 4) % 4, i % 4);
        let a: [D; 4] = if ai == 3 { [rq::<D>((0, 1)); 4] } else { vec_from_r(&gen_d::<D>(4, ai)) };
        let b: [D; 4] = if bi == 3 { [rq::<D>((0, 1)); 4] } else { vec_from_r(&gen_d::<D>(4, bi + 1)) };
        let s: D = rq(if D::INTEGER { [(2, 1), (3, 1), (5, 1), (0, 1)][si] } else { [(2, 1), (-3, 1), (1, 2), (0, 1)][si] });
        let divisible = !((D::INTEGER || D::EXACT) && si == 3);
        ctx.describe(|| format!("Vector4<{}> a={:?} b={:?} s={:?}", D::NAME, a, b, s));
        let (va, vb) = (mk_v4(a), mk_v4(b));
        let ge = (0..4).all(|j| a[j] >= b[j]);
        let (hi, lo) = if D::SIGNED || ge { (va, vb) } else { (mk_v4(std::array::from_fn(|j| a[j] + b[j])), vb) };
        let c = four!(ctx, "Vector4/add", va, vb, +);
        assign!(ctx, "Vector4/add", va, vb, +=, c);
        let c = four!(ctx, "Vector4/sub", hi, lo, -);
        assign!(ctx, "Vector4/sub", hi, lo, -=, c);
        let c = two!(ctx, "Vector4/mul_scalar", va, s, *);
        assign!(ctx, "Vector4/mul_scalar", va, s, *=, c);
        if divisible {
            let c = two!(ctx, "Vector4/div_scalar", va, s, /);
            assign!(ctx, "Vector4/div_scalar", va, s, /=, c);
            let c = two!(ctx, "Vector4/rem_scalar", va, s, %);
            assign!(ctx, "Vector4/rem_scalar", va, s, %=, c);
        }
        if let Some(n) = va.try_neg() {
            if ai != 3 {
                same(ctx, "Vector4/neg", "-a vs zero-a", &n, &(Vector4::<D>::zero() - va));
            }
        }
    });
}
fn vec_all<D: Dom>(rep: &mut Report)
where
    Vector1<D>: MaybeNeg,
    Vector2<D>: MaybeNeg,
    Vector3<D>: MaybeNeg,
    Vector4<D>: MaybeNeg,
{
    sp_v1::<D>(rep);
    sp_v2::<D>(rep);
    sp_v3::<D>(rep);
    sp_v4::<D>(rep);
}

// ------------------------------------------------------------------ matrices, quaternions, angles, bases
fn float_spellings<T: Tier>(rep: &mut Report) {
    // operand classes: generic bases; in the float tiers also all-zero, all -0.0 and tiny (generic * 2^-60) operands - a
    // form that short-cuts on an approximate is_zero(), or computes 0 - a for -a, differs from the by-value form only there
    let classes: Vec<usize> = if T::EXACT { vec![0, 1, 2] } else { vec![0, 1, 2, 10, 11, 12] };
    let nc = classes.len();
    rep.cases(
        "spellings/Matrix2..4+Quaternion+Rad+Deg+Basis2+Basis3",
        T::NAME,
        &format!("all ordered pairs of {nc} operand classes (3 generic{}) x 3 scalars; every form of every operator", if T::EXACT { "" } else { ", zero, -0.0, generic * 2^-60" }),
        nc * nc * if T::EXACT { 3 } else { 4 },
        Guard::states(9).distinct(9),
        |i, ctx| {
            // (float tiers: also the scalar 0 - division by it gives inf / NaN in every form alike)
            let ns = if T::EXACT { 3 } else { 4 };
            let (ai, bi, si) = (i / (ns * nc), (i / ns) % nc, i % ns);
            let s: T = rq([(2, 1), (-3, 1), (1, 2), (0, 1)][si]);
            // class of the first operand; of the second (shifted by one base so that a != b); of a vector operand
            let (ca, cb) = (classes[ai], if classes[bi] < 10 { classes[bi] + 1 } else { classes[bi] });
            let cv = if cb < 10 { cb + 1 } else { cb };
            let opn = |n: usize, class: usize| -> Vec<T> {
                match class {
                    10 => vec![T::zero(); n],
                    11 => gen_r(n, 1, false).iter().map(|r| T::q(r.0, r.1 << 60)).collect(),
                    12 => vec![<T as num_traits::Float>::neg_zero(); n],
                    v => gen_r(n, v, false).iter().map(|&r| rq::<T>(r)).collect(),
                }
            };
            fn arr1<T: Copy, const N: usize>(v: &[T]) -> [T; N] { std::array::from_fn(|j| v[j]) }
            fn arr2<T: Copy, const N: usize>(v: &[T]) -> [[T; N]; N] { std::array::from_fn(|c| std::array::from_fn(|r| v[c * N + r])) }
            ctx.describe(|| format!("operand classes {ca}, {cb} (0-3 generic, 10 zero, 11 tiny, 12 negative zero) scalar {:?} over {}", s, T::NAME));
            macro_rules! mat {
                ($M:ident, $n:expr, $mk:ident, $mkv:ident, $name:expr) => {{
                    let a = $mk(arr2::<T, $n>(&opn($n * $n, ca)));
                    let b = $mk(arr2::<T, $n>(&opn($n * $n, cb)));
                    let v = $mkv(arr1::<T, $n>(&opn($n, cv)));
                    let c = four!(ctx, &format!("{}/add", $name), a, b, +);
                    assign!(ctx, &format!("{}/add", $name), a, b, +=, c);
                    let c = four!(ctx, &format!("{}/sub", $name), a, b, -);
                    assign!(ctx, &format!("{}/sub", $name), a, b, -=, c);
                    let _ = four!(ctx, &format!("{}/mul_matrix", $name), a, b, *);
                    let _ = four!(ctx, &format!("{}/mul_vector", $name), a, v, *);
                    let c = two!(ctx, &format!("{}/mul_scalar", $name), a, s, *);
                    assign!(ctx, &format!("{}/mul_scalar", $name), a, s, *=, c);
                    let c = two!(ctx, &format!("{}/div_scalar", $name), a, s, /);
                    assign!(ctx, &format!("{}/div_scalar", $name), a, s, /=, c);
                    let c = two!(ctx, &format!("{}/rem_scalar", $name), a, s, %);
                    assign!(ctx, &format!("{}/rem_scalar", $name), a, s, %=, c);
                    same(ctx, &format!("{}/neg", $name), "-&a", &(-&a), &(-a));
                }};
            }
            mat!(Matrix2, 2, mk_m2, mk_v2, "Matrix2");
            mat!(Matrix3, 3, mk_m3, mk_v3, "Matrix3");
            mat!(Matrix4, 4, mk_m4, mk_v4, "Matrix4");
            // quaternions
            let qa_ = mk_q(arr1::<T, 4>(&opn(4, ca)));
            let qb = mk_q(arr1::<T, 4>(&opn(4, cb)));
            let v = mk_v3(arr1::<T, 3>(&opn(3, cv)));
            let c = four!(ctx, "Quaternion/add", qa_, qb, +);
            assign!(ctx, "Quaternion/add", qa_, qb, +=, c);
            let c = four!(ctx, "Quaternion/sub", qa_, qb, -);
            assign!(ctx, "Quaternion/sub", qa_, qb, -=, c);
            let _ = four!(ctx, "Quaternion/mul_quaternion", qa_, qb, *);
            let _ = four!(ctx, "Quaternion/mul_vector", qa_, v, *);
            let c = two!(ctx, "Quaternion/mul_scalar", qa_, s, *);
            assign!(ctx, "Quaternion/mul_scalar", qa_, s, *=, c);
            let c = two!(ctx, "Quaternion/div_scalar", qa_, s, /);
            assign!(ctx, "Quaternion/div_scalar", qa_, s, /=, c);
            let c = two!(ctx, "Quaternion/rem_scalar", qa_, s, %);
            assign!(ctx, "Quaternion/rem_scalar", qa_, s, %=, c);
            same(ctx, "Quaternion/neg", "-&a", &(-&qa_), &(-qa_));
            // angles
            macro_rules! ang {
                ($A:ident, $name:expr) => {{
                    let a = $A(opn(1, ca)[0]);
                    let b = $A(opn(1, cb)[0]);
                    let c = four!(ctx, &format!("{}/add", $name), a, b, +);
                    assign!(ctx, &format!("{}/add", $name), a, b, +=, c);
                    let c = four!(ctx, &format!("{}/sub", $name), a, b, -);
                    assign!(ctx, &format!("{}/sub", $name), a, b, -=, c);
                    let _ = four!(ctx, &format!("{}/div_angle", $name), a, b, /);
                    let c = four!(ctx, &format!("{}/rem", $name), a, b, %);
                    assign!(ctx, &format!("{}/rem", $name), a, b, %=, c);
                    let c = two!(ctx, &format!("{}/mul_scalar", $name), a, s, *);
                    assign!(ctx, &format!("{}/mul_scalar", $name), a, s, *=, c);
                    let c = two!(ctx, &format!("{}/div_scalar", $name), a, s, /);
                    assign!(ctx, &format!("{}/div_scalar", $name), a, s, /=, c);
                    same(ctx, &format!("{}/neg", $name), "-&a", &(-&a), &(-a));
                }};
            }
            ang!(Rad, "Rad");
            ang!(Deg, "Deg");
            // bases (built from rational unit quaternions / Pythagorean rotations: no trigonometry needed)
            let uq = alphabet::uq(0);
            let q_of = |k: usize| -> Quaternion<T> { let (q, d) = uq[(7 * k + 3) % uq.len()]; mk_q(std::array::from_fn(|j| T::q(q[j], d))) };
            let (b3a, b3b) = (Basis3::from(q_of(ai)), Basis3::from(q_of(bi + 5)));
            let _ = four!(ctx, "Basis3/mul", b3a, b3b, *);
            let b2 = |k: usize| -> Basis2<T> { let (u, d) = alphabet::uv2()[(5 * k + 1) % alphabet::uv2().len()]; Basis2::look_at_stable(mk_v2([T::q(u[0], d), T::q(u[1], d)]), k % 2 == 0) };
            let _ = four!(ctx, "Basis2/mul", b2(ai), b2(bi + 3), *);
        },
    );
}

// ------------------------------------------------------------------ scalar on the left
trait Prim: Copy + Debug + PartialEq + Send + Sync + 'static {
    const NAME: &'static str;
    fn vals() -> [Self; 16];
    fn scalars() -> [Self; 3];
}
macro_rules! prim {
    ($t:ty, [$($v:expr),*], [$($s:expr),*]) => {
        impl Prim for $t {
            const NAME: &'static str = stringify!($t);
            fn vals() -> [$t; 16] { [$($v as $t),*] }
            fn scalars() -> [$t; 3] { [$($s as $t),*] }
        }
    };
}
prim!(u8, [1, 2, 3, 5, 7, 4, 6, 9, 10, 11, 8, 12, 13, 14, 15, 17], [1, 6, 13]);
prim!(u16, [1, 2, 3, 5, 7, 4, 6, 9, 10, 11, 8, 12, 13, 14, 15, 17], [1, 6, 130]);
prim!(u32, [1, 2, 3, 5, 7, 4, 6, 9, 10, 11, 8, 12, 13, 14, 15, 17], [1, 6, 1300]);
prim!(u64, [1, 2, 3, 5, 7, 4, 6, 9, 10, 11, 8, 12, 13, 14, 15, 17], [1, 6, 13000]);
prim!(usize, [1, 2, 3, 5, 7, 4, 6, 9, 10, 11, 8, 12, 13, 14, 15, 17], [1, 6, 13000]);
prim!(i8, [1, -2, 3, -5, 7, 4, -1, 2, -3, 5, -7, -4, 6, -6, 8, -9], [1, -6, 13]);
prim!(i16, [1, -2, 3, -5, 7, 4, -1, 2, -3, 5, -7, -4, 6, -6, 8, -9], [1, -6, 130]);
prim!(i32, [1, -2, 3, -5, 7, 4, -1, 2, -3, 5, -7, -4, 6, -6, 8, -9], [1, -6, 1300]);
prim!(i64, [1, -2, 3, -5, 7, 4, -1, 2, -3, 5, -7, -4, 6, -6, 8, -9], [1, -6, 13000]);
prim!(isize, [1, -2, 3, -5, 7, 4, -1, 2, -3, 5, -7, -4, 6, -6, 8, -9], [1, -6, 13000]);
prim!(f32, [1.5, -2.0, 3.25, -5.0, 7.0, 0.5, -1.25, 2.5, -3.0, 5.5, -7.5, -4.0, 6.0, -6.25, 8.0, -9.0], [1.0, -6.0, 0.75]);
prim!(f64, [1.5, -2.0, 3.25, -5.0, 7.0, 0.5, -1.25, 2.5, -3.0, 5.5, -7.5, -4.0, 6.0, -6.25, 8.0, -9.0], [1.0, -6.0, 0.75]);

macro_rules! left_scalar {
    ($fname:ident, $t:ty) => {
        fn $fname(rep: &mut Report) {
            let (vals, scs) = (<$t as Prim>::vals(), <$t as Prim>::scalars());
            rep.cases(
                &format!("left-scalar/{}", stringify!($t)),
                "P",
                "3 scalars x 3 rotations of a 16-value component alphabet (pairwise distinct components, no zero divisors, no overflow); s*v, s/v, s%v with v and &v for Vector1-4, Point1-3, Matrix2-4",
                9,
                Guard::states(9).distinct(5),
                |i, ctx| {
                    let (s, rot) = (scs[i / 3], i % 3);
                    let c = |j: usize| vals[(j + 5 * rot) % 16];
                    ctx.describe(|| format!("{} s={:?} components rotated by {}", stringify!($t), s, 5 * rot));
                    macro_rules! chk {
                        ($name:expr, $v:expr, $comps:expr, $flat:expr) => {{
                            let v = $v;
                            let comps: Vec<$t> = $comps;
                            for (op, f) in [("mul", (|a: $t, b: $t| a * b) as fn($t, $t) -> $t), ("div", |a, b| a / b), ("rem", |a, b| a % b)] {
                                let (byval, byref) = match op {
                                    "mul" => ($flat(s * v), $flat(s * &v)),
                                    "div" => ($flat(s / v), $flat(s / &v)),
                                    _ => ($flat(s % v), $flat(s % &v)),
                                };
                                let want: Vec<$t> = comps.iter().map(|x| f(s, *x)).collect();
                                ctx.t();
                                // (compared through the Debug rendering, like every other form: -0.0 is not 0.0)
                                if format!("{:?}", byval) != format!("{:?}", want) {
                                    ctx.fail(&key(&format!("left-scalar/{}/{op}", $name)), || format!("{:?} {op} {:?} = {:?}, the primitive applied per component with the scalar on the left gives {:?}", s, comps, byval, want));
                                }
                                ctx.t();
                                if format!("{:?}", byref) != format!("{:?}", byval) {
                                    ctx.fail(&key(&format!("left-scalar/{}/{op}/by-ref", $name)), || format!("s {op} &v = {:?}, s {op} v = {:?}", byref, byval));
                                }
                                ctx.out(&format!("{:?}", byval));
                            }
                        }};
                    }
                    chk!("Vector1", Vector1::new(c(0)), vec![c(0)], |r: Vector1<$t>| vec![r.x]);
                    chk!("Vector2", Vector2::new(c(0), c(1)), vec![c(0), c(1)], |r: Vector2<$t>| vec![r.x, r.y]);
                    chk!("Vector3", Vector3::new(c(0), c(1), c(2)), vec![c(0), c(1), c(2)], |r: Vector3<$t>| vec![r.x, r.y, r.z]);
                    chk!("Vector4", Vector4::new(c(0), c(1), c(2), c(3)), vec![c(0), c(1), c(2), c(3)], |r: Vector4<$t>| vec![r.x, r.y, r.z, r.w]);
                    chk!("Point1", Point1::new(c(0)), vec![c(0)], |r: Point1<$t>| vec![r.x]);
                    chk!("Point2", Point2::new(c(0), c(1)), vec![c(0), c(1)], |r: Point2<$t>| vec![r.x, r.y]);
                    chk!("Point3", Point3::new(c(0), c(1), c(2)), vec![c(0), c(1), c(2)], |r: Point3<$t>| vec![r.x, r.y, r.z]);
                    chk!("Matrix2", Matrix2::new(c(0), c(1), c(2), c(3)), (0..4).map(c).collect(), |r: Matrix2<$t>| flat_m(m2(r)));
                    chk!("Matrix3", Matrix3::new(c(0), c(1), c(2), c(3), c(4), c(5), c(6), c(7), c(8)), (0..9).map(c).collect(), |r: Matrix3<$t>| flat_m(m3(r)));
                    chk!(
                        "Matrix4",
                        Matrix4::new(c(0), c(1), c(2), c(3), c(4), c(5), c(6), c(7), c(8), c(9), c(10), c(11), c(12), c(13), c(14), c(15)),
                        (0..16).map(c).collect(),
                        |r: Matrix4<$t>| flat_m(m4(r))
                    );
                },
            );
        }
    };
}
left_scalar!(ls_u8, u8);
left_scalar!(ls_u16, u16);
left_scalar!(ls_u32, u32);
left_scalar!(ls_u64, u64);
left_scalar!(ls_usize, usize);
left_scalar!(ls_i8, i8);
left_scalar!(ls_i16, i16);
left_scalar!(ls_i32, i32);
left_scalar!(ls_i64, i64);
left_scalar!(ls_isize, isize);
left_scalar!(ls_f32, f32);
left_scalar!(ls_f64, f64);

macro_rules! left_scalar_quat {
    ($fname:ident, $t:ty) => {
        fn $fname(rep: &mut Report) {
            let (vals, scs) = (<$t as Prim>::vals(), <$t as Prim>::scalars());
            rep.cases(&format!("left-scalar/Quaternion<{}>", stringify!($t)), "P", "3 scalars x 3 rotations of the alphabet; s*q, s/q with q and &q", 9, Guard::states(9).distinct(5), |i, ctx| {
                let (s, rot) = (scs[i / 3], i % 3);
                let c = |j: usize| vals[(j + 5 * rot) % 16];
                let q = Quaternion::new(c(3), c(0), c(1), c(2));
                ctx.describe(|| format!("s={:?} q={:?}", s, q));
                let flat = |r: Quaternion<$t>| vec![r.v.x, r.v.y, r.v.z, r.s];
                let comps = vec![c(0), c(1), c(2), c(3)];
                let (m, mr) = (flat(s * q), flat(s * &q));
                let (d, dr) = (flat(s / q), flat(s / &q));
                ctx.check(m == comps.iter().map(|x| s * *x).collect::<Vec<_>>(), &key("left-scalar/Quaternion/mul"), || format!("{:?} * {:?} = {:?}", s, q, m));
                ctx.check(d == comps.iter().map(|x| s / *x).collect::<Vec<_>>(), &key("left-scalar/Quaternion/div"), || format!("{:?} / {:?} = {:?}", s, q, d));
                ctx.check(m == mr, &key("left-scalar/Quaternion/mul/by-ref"), || "s * &q differs".to_string());
                ctx.check(d == dr, &key("left-scalar/Quaternion/div/by-ref"), || "s / &q differs".to_string());
                ctx.out(&format!("{:?}{:?}", m, d));
            });
        }
    };
}
left_scalar_quat!(lsq_f32, f32);
left_scalar_quat!(lsq_f64, f64);

// ------------------------------------------------------------------ Sum and Product
fn lists(max: usize) -> Vec<Vec<usize>> {
    let mut out = vec![vec![]];
    for len in 1..=max {
        for idx in 0..3usize.pow(len as u32) {
            out.push(alphabet::decode(idx, &vec![3; len]));
        }
    }
    out
}
fn folds<T: Tier>(rep: &mut Report) {
    let ls = lists(3);
    rep.cases(
        "folds",
        T::NAME,
        "every list of length 0..3 over a 3-element alphabet; Sum / Product over iterators of values and of references vs the left fold from zero() / one()",
        ls.len(),
        Guard::states(40).distinct(10),
        |i, ctx| {
            let l = &ls[i];
            ctx.describe(|| format!("list of alphabet indices {:?} over {}", l, T::NAME));
            ctx.out(l);
            let g = |n: usize, v: usize| gen_r(n, v, false);
            macro_rules! sum {
                ($name:expr, $Ty:ty, $mk:expr) => {{
                    let items: Vec<$Ty> = l.iter().map(|&k| $mk(k)).collect();
                    let fold = items.iter().fold(<$Ty>::zero(), |a, b| a + *b);
                    same(ctx, &format!("{}/sum", $name), "values", &items.iter().copied().sum::<$Ty>(), &fold);
                    same(ctx, &format!("{}/sum", $name), "references", &items.iter().sum::<$Ty>(), &fold);
                    same(ctx, &format!("{}/sum", $name), "values (filtered iterator)", &items.iter().copied().filter(|_| true).sum::<$Ty>(), &fold);
                    same(ctx, &format!("{}/sum", $name), "references (filtered iterator)", &items.iter().filter(|_| true).sum::<$Ty>(), &fold);
                    same(ctx, &format!("{}/sum", $name), "values (once + filtered)", &items.iter().copied().take(1).chain(items.iter().copied().skip(1).filter(|_| true)).sum::<$Ty>(), &fold);
                }};
            }
            macro_rules! product {
                ($name:expr, $Ty:ty, $mk:expr) => {{
                    let items: Vec<$Ty> = l.iter().map(|&k| $mk(k)).collect();
                    let fold = items.iter().fold(<$Ty>::one(), |a, b| a * *b);
                    same(ctx, &format!("{}/product", $name), "values", &items.iter().copied().product::<$Ty>(), &fold);
                    same(ctx, &format!("{}/product", $name), "references", &items.iter().product::<$Ty>(), &fold);
                    // iterators that do not know their length (a lower size hint of 0), and an owning one
                    same(ctx, &format!("{}/product", $name), "values (filtered iterator)", &items.iter().copied().filter(|_| true).product::<$Ty>(), &fold);
                    same(ctx, &format!("{}/product", $name), "references (filtered iterator)", &items.iter().filter(|_| true).product::<$Ty>(), &fold);
                    same(ctx, &format!("{}/product", $name), "values (once + filtered)", &items.iter().copied().take(1).chain(items.iter().copied().skip(1).filter(|_| true)).product::<$Ty>(), &fold);
                    same(ctx, &format!("{}/product", $name), "values (into_iter)", &items.clone().into_iter().product::<$Ty>(), &fold);
                }};
            }
            sum!("Vector1", Vector1<T>, |k| mk_v1(vec_from_r::<T, 1>(&g(1, k))));
            sum!("Vector2", Vector2<T>, |k| mk_v2(vec_from_r::<T, 2>(&g(2, k))));
            sum!("Vector3", Vector3<T>, |k| mk_v3(vec_from_r::<T, 3>(&g(3, k))));
            sum!("Vector4", Vector4<T>, |k| mk_v4(vec_from_r::<T, 4>(&g(4, k))));
            sum!("Matrix2", Matrix2<T>, |k| mk_m2(mat_from_r::<T, 2>(&g(4, k))));
            sum!("Matrix3", Matrix3<T>, |k| mk_m3(mat_from_r::<T, 3>(&g(9, k))));
            sum!("Matrix4", Matrix4<T>, |k| mk_m4(mat_from_r::<T, 4>(&g(16, k))));
            sum!("Quaternion", Quaternion<T>, |k| mk_q(vec_from_r::<T, 4>(&g(4, k))));
            sum!("Rad", Rad<T>, |k| Rad(rq::<T>(g(1, k)[0])));
            sum!("Deg", Deg<T>, |k| Deg(rq::<T>(g(1, k)[0])));
            product!("Matrix2", Matrix2<T>, |k| mk_m2(mat_from_r::<T, 2>(&g(4, k))));
            product!("Matrix3", Matrix3<T>, |k| mk_m3(mat_from_r::<T, 3>(&g(9, k))));
            product!("Matrix4", Matrix4<T>, |k| mk_m4(mat_from_r::<T, 4>(&g(16, k))));
            product!("Quaternion", Quaternion<T>, |k| mk_q(vec_from_r::<T, 4>(&g(4, k))));
            let uq = alphabet::uq(0);
            product!("Basis3", Basis3<T>, |k: usize| { let (q, d) = uq[(11 * k + 3) % uq.len()]; Basis3::from(mk_q(std::array::from_fn(|j| T::q(q[j], d)))) });
            let uv = alphabet::uv2();
            product!("Basis2", Basis2<T>, |k: usize| { let (u, d) = uv[(5 * k + 2) % uv.len()]; Basis2::look_at_stable(mk_v2([T::q(u[0], d), T::q(u[1], d)]), k % 2 == 1) });
        },
    );
}
/// the same folds over signed zeros (float tiers): `zero() + (-0.0)` is `+0.0`, so a form that starts its fold from its
/// first element while another starts from zero() (or a Product from one() * first) is visible only here
fn folds_zero<T: Tier + num_traits::Float>(rep: &mut Report) {
    folds_special::<T>(rep, 0);
    folds_special::<T>(rep, 1);
}
/// mode 0: signed zeros; mode 1: letters {2^(p+1), 1, -2^(p+1)} (p the precision): the left fold rounds 2^(p+1) + 1 back to
/// 2^(p+1), so a compensated or re-associated sum gives another answer than the left fold the statement names
fn folds_special<T: Tier + num_traits::Float>(rep: &mut Report, mode: usize) {
    let ls = lists(if mode == 0 { 3 } else { 5 });
    let big: T = num_traits::cast::<f64, T>(if T::NAME == "F" { 33554432.0 } else { 18014398509481984.0 }).unwrap();
    rep.cases(
        if mode == 0 { "folds/signed-zero" } else { "folds/rounding" },
        T::NAME,
        if mode == 0 { "every list of length 0..3 over {all components -0.0, components alternating -0.0/+0.0, all +0.0}; Sum over values and references: equal in value to the left fold from zero(), all forms bit for bit the same; Product vs the left fold from one() bit for bit" } else { "every list of length 0..5 over {2^(p+1), 1, -2^(p+1)} (all components): Sum over values and references - slice iterators and iterators without a known length - vs the left fold from zero(), compared bit for bit" },
        ls.len(),
        Guard::states(40).distinct(3),
        |i, ctx| {
            let l = &ls[i];
            ctx.describe(|| format!("list of {} letters {:?} over {}", if mode == 0 { "signed-zero" } else { "rounding" }, l, T::NAME));
            ctx.out(l);
            let z = |k: usize, j: usize| -> T {
                match (mode, k) {
                    (0, 0) => T::neg_zero(),
                    (0, 1) => if j % 2 == 0 { T::neg_zero() } else { T::zero() },
                    (0, _) => T::zero(),
                    (_, 0) => big,
                    (_, 1) => T::one(),
                    _ => -big,
                }
            };
            macro_rules! sum {
                ($name:expr, $Ty:ty, $mk:expr) => {{
                    let items: Vec<$Ty> = l.iter().map(|&k| $mk(k)).collect();
                    let fold = items.iter().fold(<$Ty>::zero(), |a, b| a + *b);
                    let by_value = items.iter().copied().sum::<$Ty>();
                    // "equal the left fold from zero()" is an equation of numbers (0 + x = x for every x, only the sign
                    // of a zero sum depends on where the fold starts); "identical results" of the forms is bit for bit
                    let fold = if mode == 0 && by_value == fold { by_value } else { fold };
                    same(ctx, &format!("{}/sum", $name), "values", &by_value, &fold);
                    same(ctx, &format!("{}/sum", $name), "references", &items.iter().sum::<$Ty>(), &fold);
                    // iterators that do not know their length, and an owning one
                    same(ctx, &format!("{}/sum", $name), "values (filtered iterator)", &items.iter().copied().filter(|_| true).sum::<$Ty>(), &fold);
                    same(ctx, &format!("{}/sum", $name), "references (filtered iterator)", &items.iter().filter(|_| true).sum::<$Ty>(), &fold);
                    same(ctx, &format!("{}/sum", $name), "values (into_iter)", &items.clone().into_iter().sum::<$Ty>(), &fold);
                }};
            }
            macro_rules! product {
                ($name:expr, $Ty:ty, $mk:expr) => {{
                    let items: Vec<$Ty> = l.iter().map(|&k| $mk(k)).collect();
                    let fold = items.iter().fold(<$Ty>::one(), |a, b| a * *b);
                    same(ctx, &format!("{}/product", $name), "values", &items.iter().copied().product::<$Ty>(), &fold);
                    same(ctx, &format!("{}/product", $name), "references", &items.iter().product::<$Ty>(), &fold);
                    // iterators that do not know their length (a lower size hint of 0), and an owning one
                    same(ctx, &format!("{}/product", $name), "values (filtered iterator)", &items.iter().copied().filter(|_| true).product::<$Ty>(), &fold);
                    same(ctx, &format!("{}/product", $name), "references (filtered iterator)", &items.iter().filter(|_| true).product::<$Ty>(), &fold);
                    same(ctx, &format!("{}/product", $name), "values (once + filtered)", &items.iter().copied().take(1).chain(items.iter().copied().skip(1).filter(|_| true)).product::<$Ty>(), &fold);
                    same(ctx, &format!("{}/product", $name), "values (into_iter)", &items.clone().into_iter().product::<$Ty>(), &fold);
                }};
            }
            sum!("Vector1", Vector1<T>, |k| mk_v1::<T>(std::array::from_fn(|j| z(k, j))));
            sum!("Vector2", Vector2<T>, |k| mk_v2::<T>(std::array::from_fn(|j| z(k, j))));
            sum!("Vector3", Vector3<T>, |k| mk_v3::<T>(std::array::from_fn(|j| z(k, j))));
            sum!("Vector4", Vector4<T>, |k| mk_v4::<T>(std::array::from_fn(|j| z(k, j))));
            sum!("Matrix2", Matrix2<T>, |k| mk_m2::<T>(std::array::from_fn(|c| std::array::from_fn(|r| z(k, c + r)))));
            sum!("Matrix3", Matrix3<T>, |k| mk_m3::<T>(std::array::from_fn(|c| std::array::from_fn(|r| z(k, c + r)))));
            sum!("Matrix4", Matrix4<T>, |k| mk_m4::<T>(std::array::from_fn(|c| std::array::from_fn(|r| z(k, c + r)))));
            sum!("Quaternion", Quaternion<T>, |k| mk_q::<T>(std::array::from_fn(|j| z(k, j))));
            sum!("Rad", Rad<T>, |k| Rad(z(k, 0)));
            sum!("Deg", Deg<T>, |k| Deg(z(k, 0)));
            if mode != 0 {
                return;
            }
            product!("Matrix2", Matrix2<T>, |k| mk_m2::<T>(std::array::from_fn(|c| std::array::from_fn(|r| z(k, c + r)))));
            product!("Matrix3", Matrix3<T>, |k| mk_m3::<T>(std::array::from_fn(|c| std::array::from_fn(|r| z(k, c + r)))));
            product!("Matrix4", Matrix4<T>, |k| mk_m4::<T>(std::array::from_fn(|c| std::array::from_fn(|r| z(k, c + r)))));
            product!("Quaternion", Quaternion<T>, |k| mk_q::<T>(std::array::from_fn(|j| z(k, j))));
            // rotations whose matrices / quaternions contain signed zeros: turn by -0.0 resp. +0.0, identity with signed-zero vector part
            product!("Basis2", Basis2<T>, |k: usize| { let b: Basis2<T> = Rotation2::from_angle(Rad(z(if k == 2 { 2 } else { 0 }, 0) * if k == 1 { -T::one() } else { T::one() })); b });
            product!("Basis3", Basis3<T>, |k: usize| Basis3::from(mk_q::<T>([T::one(), z(k, 1), z(k, 2), z(k, 3)])));
        },
    );
}
/// long lists (float tiers): every length up to 40 and the neighbourhoods of 64, 128, ... 4096 - a summation or a product
/// done in blocks, in pairs or with a carried compensation has its seams there. Rotations as factors, so that products
/// of thousands of elements keep their size. Bit for bit against the explicit left fold.
fn folds_long<T: Tier + num_traits::Float>(rep: &mut Report) {
    let mut lens: Vec<usize> = (6..=40).collect();
    for p in [64usize, 128, 256, 512, 1024, 2048, 4096] {
        lens.extend([p - 1, p, p + 1]);
    }
    lens.extend([100, 1000, 1500, 3000]);
    lens.sort();
    rep.cases(
        "folds/long",
        T::NAME,
        &format!("one list of each length in {:?}: Sum (values, references, iterators without a known length) and Product (rotations) vs the left fold, bit for bit", lens),
        lens.len(),
        Guard::states(40).distinct(20),
        |i, ctx| {
            let n = lens[i];
            let l: Vec<usize> = (0..n).map(|j| (j * 7 + j / 5 + j / 64) % 3).collect();
            ctx.describe(|| format!("list of length {n} over {}", T::NAME));
            ctx.out(&n);
            let g = |m: usize, v: usize| gen_r(m, v, false);
            macro_rules! sum {
                ($name:expr, $Ty:ty, $mk:expr) => {{
                    let items: Vec<$Ty> = l.iter().map(|&k| $mk(k)).collect();
                    let fold = items.iter().fold(<$Ty>::zero(), |a, b| a + *b);
                    same(ctx, &format!("{}/sum/long", $name), "values", &items.iter().copied().sum::<$Ty>(), &fold);
                    same(ctx, &format!("{}/sum/long", $name), "references", &items.iter().sum::<$Ty>(), &fold);
                    same(ctx, &format!("{}/sum/long", $name), "values (filtered iterator)", &items.iter().copied().filter(|_| true).sum::<$Ty>(), &fold);
                    same(ctx, &format!("{}/sum/long", $name), "references (filtered iterator)", &items.iter().filter(|_| true).sum::<$Ty>(), &fold);
                }};
            }
            macro_rules! product {
                ($name:expr, $Ty:ty, $mk:expr) => {{
                    let items: Vec<$Ty> = l.iter().map(|&k| $mk(k)).collect();
                    let fold = items.iter().fold(<$Ty>::one(), |a, b| a * *b);
                    same(ctx, &format!("{}/product/long", $name), "values", &items.iter().copied().product::<$Ty>(), &fold);
                    same(ctx, &format!("{}/product/long", $name), "references", &items.iter().product::<$Ty>(), &fold);
                    same(ctx, &format!("{}/product/long", $name), "values (filtered iterator)", &items.iter().copied().filter(|_| true).product::<$Ty>(), &fold);
                    same(ctx, &format!("{}/product/long", $name), "references (filtered iterator)", &items.iter().filter(|_| true).product::<$Ty>(), &fold);
                }};
            }
            sum!("Vector1", Vector1<T>, |k| mk_v1(vec_from_r::<T, 1>(&g(1, k))));
            sum!("Vector2", Vector2<T>, |k| mk_v2(vec_from_r::<T, 2>(&g(2, k))));
            sum!("Vector3", Vector3<T>, |k| mk_v3(vec_from_r::<T, 3>(&g(3, k))));
            sum!("Vector4", Vector4<T>, |k| mk_v4(vec_from_r::<T, 4>(&g(4, k))));
            sum!("Matrix2", Matrix2<T>, |k| mk_m2(mat_from_r::<T, 2>(&g(4, k))));
            sum!("Matrix3", Matrix3<T>, |k| mk_m3(mat_from_r::<T, 3>(&g(9, k))));
            sum!("Matrix4", Matrix4<T>, |k| mk_m4(mat_from_r::<T, 4>(&g(16, k))));
            sum!("Quaternion", Quaternion<T>, |k| mk_q(vec_from_r::<T, 4>(&g(4, k))));
            sum!("Rad", Rad<T>, |k| Rad(rq::<T>(g(1, k)[0])));
            sum!("Deg", Deg<T>, |k| Deg(rq::<T>(g(1, k)[0])));
            let uq = alphabet::uq(0);
            let uv = alphabet::uv2();
            let quat = |k: usize| -> Quaternion<T> { let (q, d) = uq[(11 * k + 3) % uq.len()]; mk_q(std::array::from_fn(|j| T::q(q[j], d))) };
            let b2 = |k: usize| -> Basis2<T> { let (u, d) = uv[(5 * k + 2) % uv.len()]; Basis2::look_at_stable(mk_v2([T::q(u[0], d), T::q(u[1], d)]), k % 2 == 1) };
            product!("Quaternion", Quaternion<T>, |k| quat(k));
            product!("Basis3", Basis3<T>, |k| Basis3::from(quat(k)));
            product!("Basis2", Basis2<T>, |k| b2(k));
            product!("Matrix2", Matrix2<T>, |k| { let m: Matrix2<T> = b2(k).into(); m });
            product!("Matrix3", Matrix3<T>, |k| Matrix3::from(quat(k)));
            product!("Matrix4", Matrix4<T>, |k| Matrix4::from(quat(k)));
        },
    );
}
/// products whose factors are all but the identity (float tiers): rotations by 2^-k rad, k up to 60, singly and in lists
/// of up to 1000 - a product that skips, merges or short-cuts factors it takes for the identity (an approximate
/// predicate, a tolerance) differs from the left fold here and nowhere else. Bit for bit against the explicit left fold.
fn folds_near_identity<T: Tier + num_traits::Float>(rep: &mut Report) {
    let ks: Vec<i32> = vec![4, 10, 16, 20, 22, 24, 26, 30, 36, 44, 52, 56, 60];
    let ns: [usize; 5] = [1, 2, 3, 7, 1000];
    rep.cases(
        "folds/near-identity",
        T::NAME,
        &format!("step angles 2^-k rad for k in {:?} x list lengths {:?} (axes cycling x, y, z; every third factor the exact identity): Product over values and references vs the left fold, bit for bit", ks, ns),
        ks.len() * ns.len(),
        Guard::states(40).distinct(20),
        |i, ctx| {
            let (k, n) = (ks[i / ns.len()], ns[i % ns.len()]);
            ctx.describe(|| format!("{n} rotations by 2^-{k} rad over {}", T::NAME));
            ctx.out(&(k, n));
            let step = num_traits::cast::<f64, T>(2f64.powi(-k)).unwrap();
            let l: Vec<usize> = (0..n).map(|j| if n > 3 && j % 3 == 2 { 3 } else { j % 3 }).collect();
            macro_rules! product {
                ($name:expr, $Ty:ty, $mk:expr) => {{
                    let items: Vec<$Ty> = l.iter().map(|&a| $mk(a)).collect();
                    let fold = items.iter().fold(<$Ty>::one(), |a, b| a * *b);
                    same(ctx, &format!("{}/product/near-identity", $name), "values", &items.iter().copied().product::<$Ty>(), &fold);
                    same(ctx, &format!("{}/product/near-identity", $name), "references", &items.iter().product::<$Ty>(), &fold);
                    same(ctx, &format!("{}/product/near-identity", $name), "values (filtered iterator)", &items.iter().copied().filter(|_| true).product::<$Ty>(), &fold);
                }};
            }
            let b3 = |a: usize| -> Basis3<T> { match a { 0 => Rotation3::from_angle_x(Rad(step)), 1 => Rotation3::from_angle_y(Rad(step)), 2 => Rotation3::from_angle_z(Rad(step)), _ => Basis3::one() } };
            let q = |a: usize| -> Quaternion<T> { match a { 0 => Rotation3::from_angle_x(Rad(step)), 1 => Rotation3::from_angle_y(Rad(step)), 2 => Rotation3::from_angle_z(Rad(step)), _ => Quaternion::one() } };
            let b2 = |a: usize| -> Basis2<T> { if a == 3 { Basis2::one() } else { Rotation2::from_angle(Rad(if a == 1 { -step } else { step })) } };
            product!("Basis3", Basis3<T>, b3);
            product!("Quaternion", Quaternion<T>, q);
            product!("Basis2", Basis2<T>, b2);
            product!("Matrix2", Matrix2<T>, |a| { let m: Matrix2<T> = b2(a).into(); m });
            product!("Matrix3", Matrix3<T>, |a| { let m: Matrix3<T> = b3(a).into(); m });
            product!("Matrix4", Matrix4<T>, |a| Matrix4::from(q(a)));
        },
    );
}
fn folds_int<D: Dom>(rep: &mut Report) {
    let ls = lists(3);
    rep.cases("folds/vectors", D::NAME, "every list of length 0..3 over a 3-element alphabet; Sum over values and references", ls.len(), Guard::states(40).distinct(10), |i, ctx| {
        let l = &ls[i];
        ctx.describe(|| format!("list {:?} over {}", l, D::NAME));
        ctx.out(l);
        macro_rules! sum {
            ($name:expr, $Ty:ty, $mk:expr) => {{
                let items: Vec<$Ty> = l.iter().map(|&k| $mk(k)).collect();
                let fold = items.iter().fold(<$Ty>::zero(), |a, b| a + *b);
                same(ctx, &format!("{}/sum", $name), "values", &items.iter().copied().sum::<$Ty>(), &fold);
                same(ctx, &format!("{}/sum", $name), "references", &items.iter().sum::<$Ty>(), &fold);
            }};
        }
        let g = |n: usize, v: usize| -> Vec<R> { gen_r(n, v, true).iter().map(|r| (r.0.abs(), 1)).collect() };
        sum!("Vector1", Vector1<D>, |k| mk_v1(vec_from_r::<D, 1>(&g(1, k))));
        sum!("Vector2", Vector2<D>, |k| mk_v2(vec_from_r::<D, 2>(&g(2, k))));
        sum!("Vector3", Vector3<D>, |k| mk_v3(vec_from_r::<D, 3>(&g(3, k))));
        sum!("Vector4", Vector4<D>, |k| mk_v4(vec_from_r::<D, 4>(&g(4, k))));
    });
}

// ------------------------------------------------------------------ straight-line programs
/// Register machine over the exact scalar: registers M, N (Matrix3), v (Vector3), q (Quaternion).
/// Every instruction exists in several spellings; all spellings must reach the same state,
/// which the independent array model predicts.
fn programs(rep: &mut Report) {
    type T = Ex;
    let depth = rep.pick(3, 6);
    let m0 = mat_from_r::<T, 3>(&[(1, 1), (2, 1), (0, 1), (-1, 1), (1, 2), (3, 1), (2, 1), (0, 1), (-2, 1)]);
    let n0 = mat_from_r::<T, 3>(&[(0, 1), (1, 1), (-1, 1), (3, 2), (2, 1), (1, 1), (-2, 1), (1, 1), (1, 2)]);
    let v0: [T; 3] = vec_from_r(&[(1, 1), (-2, 1), (3, 2)]);
    let q0: [T; 4] = vec_from_r(&[(1, 2), (-1, 1), (2, 1), (1, 1)]);
    let s0 = T::q(-3, 2);
    let mut init = flat_m(m0);
    init.extend(flat_m(n0));
    init.extend(v0);
    init.extend(q0);
    // (instruction, number of spellings)
    const INSTR: [(&str, usize); 12] = [
        ("M<-M+N", 5),
        ("M<-M-N", 5),
        ("M<-M*N", 4),
        ("M<-N*M", 4),
        ("M<--M", 2),
        ("M<-M*s", 3),
        ("v<-M*v", 4),
        ("v<-v+v0", 5),
        ("v<-q*v", 4),
        ("q<-q*q0", 4),
        ("q<-q+q0", 5),
        ("N<-N/s", 3),
    ];
    let offsets: Vec<usize> = INSTR.iter().scan(0, |acc, (_, n)| { let o = *acc; *acc += n; Some(o) }).collect();
    let nact: usize = INSTR.iter().map(|(_, n)| n).sum();
    let prog = std::sync::Arc::new(move |st: &St<T>, act: usize, ctx: &mut Ctx| -> Option<St<T>> {
            let ins = offsets.iter().rposition(|o| *o <= act).unwrap();
            let sp = act - offsets[ins];
            let (m, n): ([[T; 3]; 3], [[T; 3]; 3]) = (st.mat(0), st.mat(9));
            let v: [T; 3] = st.vec(18);
            let q: [T; 4] = st.vec(21);
            let (cm, cn, cv, cq) = (mk_m3(m), mk_m3(n), mk_v3(v), mk_q(q));
            let (cv0, cq0) = (mk_v3(v0), mk_q(q0));
            ctx.branch(INSTR[ins].0);
            let (mut nm, mut nn, mut nv, mut nq) = (m, n, v, q);
            macro_rules! pick4 {
                ($a:expr, $b:expr, $op:tt) => {
                    match sp {
                        0 => $a $op $b,
                        1 => &$a $op $b,
                        2 => $a $op &$b,
                        _ => &$a $op &$b,
                    }
                };
            }
            macro_rules! pick5 {
                ($a:expr, $b:expr, $op:tt, $opa:tt) => {
                    match sp {
                        0 => $a $op $b,
                        1 => &$a $op $b,
                        2 => $a $op &$b,
                        3 => &$a $op &$b,
                        _ => {
                            let mut t = $a;
                            t $opa $b;
                            t
                        }
                    }
                };
            }
            macro_rules! pick3 {
                ($a:expr, $s:expr, $op:tt, $opa:tt) => {
                    match sp {
                        0 => $a $op $s,
                        1 => &$a $op $s,
                        _ => {
                            let mut t = $a;
                            t $opa $s;
                            t
                        }
                    }
                };
            }
            match ins {
                0 => {
                    nm = m3(pick5!(cm, cn, +, +=));
                    eq_m::<T, 3>(ctx, &key("programs/M+N"), nm, model::madd(m, n));
                }
                1 => {
                    nm = m3(pick5!(cm, cn, -, -=));
                    eq_m::<T, 3>(ctx, &key("programs/M-N"), nm, model::msub(m, n));
                }
                2 => {
                    nm = m3(pick4!(cm, cn, *));
                    eq_m::<T, 3>(ctx, &key("programs/M*N"), nm, model::mmul(m, n));
                }
                3 => {
                    nm = m3(pick4!(cn, cm, *));
                    eq_m::<T, 3>(ctx, &key("programs/N*M"), nm, model::mmul(n, m));
                }
                4 => {
                    nm = m3(if sp == 0 { -cm } else { -&cm });
                    eq_m::<T, 3>(ctx, &key("programs/-M"), nm, model::mneg(m));
                }
                5 => {
                    nm = m3(pick3!(cm, s0, *, *=));
                    eq_m::<T, 3>(ctx, &key("programs/M*s"), nm, model::mscale(m, s0));
                }
                6 => {
                    nv = v3(pick4!(cm, cv, *));
                    eq_v::<T, 3>(ctx, &key("programs/M*v"), nv, model::mvec(m, v));
                }
                7 => {
                    nv = v3(pick5!(cv, cv0, +, +=));
                    eq_v::<T, 3>(ctx, &key("programs/v+v0"), nv, model::vadd(v, v0));
                }
                8 => {
                    nv = v3(pick4!(cq, cv, *));
                    let qv = [q[1], q[2], q[3]];
                    let inner = model::vadd(model::cross(qv, v), model::vscale(v, q[0]));
                    eq_v::<T, 3>(ctx, &key("programs/q*v"), nv, model::vadd(v, model::vscale(model::cross(qv, inner), T::int(2))));
                }
                9 => {
                    nq = qa(pick4!(cq, cq0, *));
                    eq_v::<T, 4>(ctx, &key("programs/q*q0"), nq, model::qmul(q, q0));
                }
                10 => {
                    nq = qa(pick5!(cq, cq0, +, +=));
                    eq_v::<T, 4>(ctx, &key("programs/q+q0"), nq, model::vadd(q, q0));
                }
                _ => {
                    nn = m3(pick3!(cn, s0, /, /=));
                    eq_m::<T, 3>(ctx, &key("programs/N/s"), nn, std::array::from_fn(|c| model::vdiv(n[c], s0)));
                }
            }
            if ctx.failed() {
                return None;
            }
            let mut vals = flat_m(nm);
            vals.extend(flat_m(nn));
            vals.extend(nv);
            vals.extend(nq);
            Some(St(vals))
            });
    let init_state = St::<T>(init);
    let p1 = prog.clone();
    rep.bfs(
        "programs",
        "X",
        &format!("registers M, N: Matrix3, v: Vector3, q: Quaternion over exact rationals; 12 instructions in {nact} spellings; all straight-line programs up to length {depth}"),
        vec![init_state.clone()],
        nact,
        depth,
        Guard::states(50).inconclusive(0.02),
        move |st, act, ctx| p1(st, act, ctx),
        |_, _| {},
        |st| st.show(),
    );
    // cross-check of the engine: the same transition function under stateright's own BFS
    if rep.replay.is_none() {
        if let Some((states, _)) = rep.last_counts() {
            let p2 = prog.clone();
            let sr = mc_props0::stateright_states(vec![init_state], nact, depth, move |s: &St<T>, a: usize| {
                let mut c = Ctx::scratch();
                let r = p2(s, a, &mut c);
                if c.failed() { None } else { r }
            });
            rep.note(format!("programs: stateright 0.31 (single-threaded BFS, same transition function) reaches {sr} unique states within depth {depth}; own engine {states}"));
            if sr as u64 != states {
                rep.machinery.push(format!("programs: engine cross-check failed: stateright reaches {sr} unique states, own BFS {states}"));
            }
        }
    }
}

fn main() {
    let mut rep = Report::from_args(P);
    rep.assume("operator inventory written from the source: only spellings that exist are listed (Neg is by-value only for vectors; matrix AddAssign/SubAssign are by-value only; points have no Neg); a spelling that stops compiling fails the harness build (exit 2), not a verdict");
    rep.assume("forms are compared through their Debug rendering (bit-identical iff equal; no NaN occurs); the by-value form itself is judged against the model in the programs system (exact rationals) and in C01/C03/C04/C12/C13");
    set_lattice(None);
    vec_all::<i32>(&mut rep);
    vec_all::<u8>(&mut rep);
    vec_all::<f64>(&mut rep);
    vec_all::<f32>(&mut rep);
    vec_all::<Ex>(&mut rep);
    float_spellings::<f64>(&mut rep);
    float_spellings::<f32>(&mut rep);
    float_spellings::<Ex>(&mut rep);
    ls_u8(&mut rep);
    ls_u16(&mut rep);
    ls_u32(&mut rep);
    ls_u64(&mut rep);
    ls_usize(&mut rep);
    ls_i8(&mut rep);
    ls_i16(&mut rep);
    ls_i32(&mut rep);
    ls_i64(&mut rep);
    ls_isize(&mut rep);
    ls_f32(&mut rep);
    ls_f64(&mut rep);
    lsq_f32(&mut rep);
    lsq_f64(&mut rep);
    folds::<f64>(&mut rep);
    folds::<f32>(&mut rep);
    folds::<Ex>(&mut rep);
    folds_zero::<f64>(&mut rep);
    folds_zero::<f32>(&mut rep);
    folds_long::<f64>(&mut rep);
    folds_long::<f32>(&mut rep);
    folds_near_identity::<f64>(&mut rep);
    folds_near_identity::<f32>(&mut rep);
    folds_int::<i32>(&mut rep);
    folds_int::<u8>(&mut rep);
    programs(&mut rep);
    std::process::exit(rep.finish());
}
