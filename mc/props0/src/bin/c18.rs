//! C18 — approximate-equality and predicate methods test every component.
use cgmath::{AbsDiffEq, Matrix, RelativeEq, SquareMatrix, UlpsEq, Zero};
use mc_props::*;

const P: &str = "C18";
fn key(s: &str) -> String {
    format!("{P}/{s}")
}

trait Fl: Tier + std::fmt::Display {
    /// x moved by m units in the last place (through zero if necessary)
    fn step(self, m: i64) -> Self;
    fn c(x: f64) -> Self {
        num_traits::cast::<f64, Self>(x).unwrap()
    }
}
impl Fl for f64 {
    fn step(self, m: i64) -> f64 {
        let to_ord = |x: f64| -> i64 {
            let b = x.to_bits() as i64;
            if b < 0 { i64::MIN - b } else { b }
        };
        let from_ord = |o: i64| -> f64 { f64::from_bits((if o < 0 { i64::MIN - o } else { o }) as u64) };
        from_ord(to_ord(self) + m)
    }
}
impl Fl for f32 {
    fn step(self, m: i64) -> f32 {
        let to_ord = |x: f32| -> i32 {
            let b = x.to_bits() as i32;
            if b < 0 { i32::MIN - b } else { b }
        };
        let from_ord = |o: i32| -> f32 { f32::from_bits((if o < 0 { i32::MIN - o } else { o }) as u32) };
        from_ord(to_ord(self) + m as i32)
    }
}

/// a compound type built from n scalar components
trait Ap<T: Fl>: Sized + AbsDiffEq<Epsilon = T> + RelativeEq + UlpsEq {
    const NAME: &'static str;
    const N: usize;
    fn build(c: &[T]) -> Self;
}
macro_rules! ap_simple {
    ($V:ident, $n:expr, |$c:ident| $e:expr) => {
        impl<T: Fl> Ap<T> for $V<T> {
            const NAME: &'static str = stringify!($V);
            const N: usize = $n;
            fn build($c: &[T]) -> Self {
                $e
            }
        }
    };
}
ap_simple!(Vector1, 1, |c| mk_v1([c[0]]));
ap_simple!(Vector2, 2, |c| mk_v2([c[0], c[1]]));
ap_simple!(Vector3, 3, |c| mk_v3([c[0], c[1], c[2]]));
ap_simple!(Vector4, 4, |c| mk_v4([c[0], c[1], c[2], c[3]]));
ap_simple!(Point1, 1, |c| mk_p1([c[0]]));
ap_simple!(Point2, 2, |c| mk_p2([c[0], c[1]]));
ap_simple!(Point3, 3, |c| mk_p3([c[0], c[1], c[2]]));
ap_simple!(Matrix2, 4, |c| mk_m2([[c[0], c[1]], [c[2], c[3]]]));
ap_simple!(Matrix3, 9, |c| mk_m3(std::array::from_fn(|i| std::array::from_fn(|j| c[i * 3 + j]))));
ap_simple!(Matrix4, 16, |c| mk_m4(std::array::from_fn(|i| std::array::from_fn(|j| c[i * 4 + j]))));
ap_simple!(Quaternion, 4, |c| mk_q([c[0], c[1], c[2], c[3]]));
ap_simple!(Rad, 1, |c| Rad(c[0]));
ap_simple!(Deg, 1, |c| Deg(c[0]));
impl<T: Fl> Ap<T> for Euler<Rad<T>> {
    const NAME: &'static str = "Euler<Rad>";
    const N: usize = 3;
    fn build(c: &[T]) -> Self {
        Euler { x: Rad(c[0]), y: Rad(c[1]), z: Rad(c[2]) }
    }
}
impl<T: Fl> Ap<T> for Euler<Deg<T>> {
    const NAME: &'static str = "Euler<Deg>";
    const N: usize = 3;
    fn build(c: &[T]) -> Self {
        Euler { x: Deg(c[0]), y: Deg(c[1]), z: Deg(c[2]) }
    }
}
/// Basis2/Basis3 hold a private matrix: arbitrary components go in through serde.  The serialized shape (the name of the
/// private field, or no wrapper at all) is read off a serialized value: its numeric leaves, in x, y, z order, are
/// overwritten.  A Basis that cannot be built this way is a limit of the harness (inconclusive), not a verdict on C18.
fn refill<T: serde::Serialize>(v: &mut serde_json::Value, it: &mut std::slice::Iter<T>) -> Option<()> {
    match v {
        serde_json::Value::Number(_) => {
            *v = serde_json::to_value(it.next()?).ok()?;
            Some(())
        }
        serde_json::Value::Object(m) => {
            let mut ks: Vec<String> = m.keys().cloned().collect();
            ks.sort_by_key(|k| ("xyzw".find(k.as_str()).unwrap_or(9), k.clone()));
            for k in ks {
                refill(m.get_mut(&k)?, it)?;
            }
            Some(())
        }
        serde_json::Value::Array(a) => a.iter_mut().try_for_each(|x| refill(x, it)),
        _ => None,
    }
}
fn through_serde<B: serde::Serialize + serde::de::DeserializeOwned, T: serde::Serialize>(sample: &B, c: &[T]) -> B {
    let built = (|| {
        let mut v = serde_json::to_value(sample).ok()?;
        let mut it = c.iter();
        refill(&mut v, &mut it)?;
        if it.next().is_some() {
            return None;
        }
        serde_json::from_value(v).ok()
    })();
    built.unwrap_or_else(|| mc_core::ex::domain_exit("a Basis with arbitrary components cannot be built through serde"))
}
fn basis2<T: Fl + serde::Serialize + serde::de::DeserializeOwned>(c: &[T]) -> Basis2<T> {
    through_serde(&<Basis2<T> as cgmath::One>::one(), c)
}
fn basis3<T: Fl + serde::Serialize + serde::de::DeserializeOwned>(c: &[T]) -> Basis3<T> {
    through_serde(&<Basis3<T> as cgmath::One>::one(), c)
}
impl<T: Fl + serde::Serialize + serde::de::DeserializeOwned> Ap<T> for Basis2<T> {
    const NAME: &'static str = "Basis2";
    const N: usize = 4;
    fn build(c: &[T]) -> Self {
        basis2(c)
    }
}
impl<T: Fl + serde::Serialize + serde::de::DeserializeOwned> Ap<T> for Basis3<T> {
    const NAME: &'static str = "Basis3";
    const N: usize = 9;
    fn build(c: &[T]) -> Self {
        basis3(c)
    }
}
impl<T: Fl> Ap<T> for Decomposed<Vector3<T>, Quaternion<T>> {
    const NAME: &'static str = "Decomposed<Vector3,Quaternion>";
    const N: usize = 8;
    fn build(c: &[T]) -> Self {
        Decomposed { scale: c[0], rot: mk_q([c[1], c[2], c[3], c[4]]), disp: mk_v3([c[5], c[6], c[7]]) }
    }
}
impl<T: Fl + serde::Serialize + serde::de::DeserializeOwned> Ap<T> for Decomposed<Vector2<T>, Basis2<T>> {
    const NAME: &'static str = "Decomposed<Vector2,Basis2>";
    const N: usize = 7;
    fn build(c: &[T]) -> Self {
        Decomposed { scale: c[0], rot: basis2(&c[1..5]), disp: mk_v2([c[5], c[6]]) }
    }
}

#[derive(Clone, Copy, Debug)]
enum Setting<T> {
    Abs(T),
    Rel(T, T),
    Ulps(T, u32),
}

/// candidate perturbed values of one component for a comparison setting:
/// just inside, exactly on, and just outside the tolerance, both signs
fn perturbations<T: Fl>(a: T, s: Setting<T>) -> Vec<T> {
    let mut v = vec![a];
    fn pm<T: Fl>(v: &mut Vec<T>, a: T, d: T) {
        v.push(a + d);
        v.push(a - d);
    }
    match s {
        Setting::Abs(e) => {
            if e == T::zero() {
                v.push(a.step(1));
                v.push(a.step(-1));
            } else {
                pm(&mut v, a, e * T::c(0.5));
                pm(&mut v, a, e);
                pm(&mut v, a, e.step(1));
                pm(&mut v, a, e * T::c(2.0));
            }
        }
        Setting::Rel(e, mr) => {
            let m = a.abs() * mr;
            pm(&mut v, a, m * T::c(0.5));
            pm(&mut v, a, m);
            pm(&mut v, a, m * T::c(1.001));
            pm(&mut v, a, m * T::c(2.0));
            pm(&mut v, a, e * T::c(0.5));
            pm(&mut v, a, e * T::c(2.0));
        }
        Setting::Ulps(e, n) => {
            for m in [1i64, n as i64, n as i64 + 1] {
                v.push(a.step(m));
                v.push(a.step(-m));
            }
            pm(&mut v, a, e * T::c(0.5));
            pm(&mut v, a, e * T::c(2.0));
        }
    }
    v
}

fn settings<T: Fl>() -> Vec<Setting<T>> {
    vec![
        Setting::Abs(T::zero()),
        Setting::Abs(T::c(1e-6)),
        Setting::Abs(T::c(0.5)),
        Setting::Rel(T::zero(), T::c(1e-3)),
        Setting::Rel(T::c(1e-6), T::c(1e-6)),
        Setting::Rel(T::c(0.25), T::c(0.0)),
        Setting::Ulps(T::zero(), 0),
        Setting::Ulps(T::zero(), 1),
        Setting::Ulps(T::c(1e-9), 4),
    ]
}

fn bases<T: Fl>(n: usize) -> Vec<Vec<T>> {
    let g: Vec<T> = alphabet::generic(n, 1).iter().map(|&r| rq::<T>(r)).collect();
    // the last one: components of very different sizes side by side (one pair decided by the absolute clause of a
    // comparison, its neighbour by the relative one)
    let mixed: Vec<T> = g.iter().enumerate().map(|(j, x)| *x * T::c([1e-9, 1e3, 1.0, 1e6][j % 4])).collect();
    vec![g.clone(), g.iter().map(|x| *x * T::c(1e6)).collect(), g.iter().map(|x| *x * T::c(1e-6)).collect(), mixed]
}

fn approx_system<T: Fl, C: Ap<T>>(rep: &mut Report) {
    let n = C::N;
    let sets = settings::<T>();
    let bs = bases::<T>(n);
    const L: usize = 13; // max perturbation letters used (index 0 = unchanged)
    let k = rep.pick(2, 3);
    let dev = DevSpace::new(n, L - 1, k);
    let total = bs.len() * sets.len() * dev.len();
    rep.cases(
        &format!("approx/{}", C::NAME),
        T::NAME,
        &format!("4 bases (generic, x1e6, x1e-6, mixed magnitudes) x 9 comparison settings x <= {k} of {n} components perturbed to just inside / on / just outside the tolerance"),
        total,
        Guard::states(50).distinct(20).need("equal", 5).need("unequal", 5),
        |i, ctx| {
            let (bi, rest) = (i / (sets.len() * dev.len()), i % (sets.len() * dev.len()));
            let (si, di) = (rest / dev.len(), rest % dev.len());
            let a = &bs[bi];
            let s = sets[si];
            let mut b = a.clone();
            for (p, l) in dev.get(di) {
                let cand = perturbations(a[p], s);
                b[p] = cand[(l + 1) % cand.len()];
            }
            ctx.describe(|| format!("{}<{}> setting {:?}\n        a={:?}\n        b={:?}", C::NAME, T::NAME, s, a, b));
            ctx.out(&(keys(a), keys(&b), si));
            let (ca, cb) = (C::build(a), C::build(&b));
            let (got, got_rev, refl, exp, kind) = match s {
                Setting::Abs(e) => (ca.abs_diff_eq(&cb, e), cb.abs_diff_eq(&ca, e), ca.abs_diff_eq(&ca, e), (0..n).all(|j| a[j].abs_diff_eq(&b[j], e)), "abs_diff_eq"),
                Setting::Rel(e, mr) => (ca.relative_eq(&cb, e, mr), cb.relative_eq(&ca, e, mr), ca.relative_eq(&ca, e, mr), (0..n).all(|j| a[j].relative_eq(&b[j], e, mr)), "relative_eq"),
                Setting::Ulps(e, u) => (ca.ulps_eq(&cb, e, u), cb.ulps_eq(&ca, e, u), ca.ulps_eq(&ca, e, u), (0..n).all(|j| a[j].ulps_eq(&b[j], e, u)), "ulps_eq"),
            };
            ctx.branch(if exp { "equal" } else { "unequal" });
            ctx.check(got == exp, &key(&format!("{}/{kind}", C::NAME)), || format!("{kind} = {got}, the conjunction of the scalar comparisons over all components is {exp}"));
            ctx.check(got == got_rev, &key(&format!("{}/{kind}/symmetric", C::NAME)), || format!("{kind}(a,b) = {got} but {kind}(b,a) = {got_rev}"));
            ctx.check(refl, &key(&format!("{}/{kind}/reflexive", C::NAME)), || format!("{kind}(a,a) is false"));
            // the negated forms
            let ne = match s {
                Setting::Abs(e) => ca.abs_diff_ne(&cb, e),
                Setting::Rel(e, mr) => ca.relative_ne(&cb, e, mr),
                Setting::Ulps(e, u) => ca.ulps_ne(&cb, e, u),
            };
            ctx.check(ne == !got, &key(&format!("{}/{kind}/ne-is-negation", C::NAME)), || format!("_ne = {ne}, _eq = {got}"));
        },
    );
}

/// the same relations on special components and on whole-value transformations: one component of a, of b or of both is
/// NaN, +-inf, +-0 or MAX (the conjunction of the scalar comparisons decides, whatever those say), and b = -a, b = a
/// with its components rotated by one place, b = every component of a moved just outside the tolerance
fn approx_special<T: Fl, C: Ap<T>>(rep: &mut Report) {
    let n = C::N;
    let sets = settings::<T>();
    let g: Vec<T> = alphabet::generic(n, 2).iter().map(|&r| rq::<T>(r)).collect();
    let specials: Vec<Option<T>> = vec![None, Some(T::nan()), Some(T::infinity()), Some(T::neg_infinity()), Some(T::zero()), Some(T::neg_zero()), Some(T::max_value())];
    let ns = specials.len();
    let per_set = n * ns * ns + 3;
    rep.cases(
        &format!("approx-special/{}", C::NAME),
        T::NAME,
        &format!("9 comparison settings x ({n} positions x 7x7 (unchanged, NaN, +inf, -inf, +0, -0, MAX) for the component of a and of b; b = -a; b = a rotated by one place; b = a with every component just outside the tolerance)"),
        sets.len() * per_set,
        Guard::states(50).distinct(20).need("equal", 3).need("unequal", 5),
        |i, ctx| {
            let (si, j) = (i / per_set, i % per_set);
            let s = sets[si];
            let (mut a, mut b) = (g.clone(), g.clone());
            if j < n * ns * ns {
                let (p, la, lb) = (j / (ns * ns), (j / ns) % ns, j % ns);
                if let Some(x) = specials[la] { a[p] = x; }
                if let Some(x) = specials[lb] { b[p] = x; }
            } else {
                match j - n * ns * ns {
                    0 => b = a.iter().map(|x| -*x).collect(),
                    1 => b = (0..n).map(|q| a[(q + 1) % n]).collect(),
                    _ => b = a.iter().map(|x| { let c = perturbations(*x, s); c[c.len() - 2] }).collect(),
                }
            }
            ctx.describe(|| format!("{}<{}> setting {:?}\n        a={:?}\n        b={:?}", C::NAME, T::NAME, s, a, b));
            ctx.out(&(keys(&a), keys(&b), si));
            let (ca, cb) = (C::build(&a), C::build(&b));
            let (got, got_rev, refl, exp, exp_refl, kind) = match s {
                Setting::Abs(e) => (ca.abs_diff_eq(&cb, e), cb.abs_diff_eq(&ca, e), ca.abs_diff_eq(&ca, e), (0..n).all(|j| a[j].abs_diff_eq(&b[j], e)), (0..n).all(|j| a[j].abs_diff_eq(&a[j], e)), "abs_diff_eq"),
                Setting::Rel(e, mr) => (ca.relative_eq(&cb, e, mr), cb.relative_eq(&ca, e, mr), ca.relative_eq(&ca, e, mr), (0..n).all(|j| a[j].relative_eq(&b[j], e, mr)), (0..n).all(|j| a[j].relative_eq(&a[j], e, mr)), "relative_eq"),
                Setting::Ulps(e, u) => (ca.ulps_eq(&cb, e, u), cb.ulps_eq(&ca, e, u), ca.ulps_eq(&ca, e, u), (0..n).all(|j| a[j].ulps_eq(&b[j], e, u)), (0..n).all(|j| a[j].ulps_eq(&a[j], e, u)), "ulps_eq"),
            };
            let exp_rev = match s {
                Setting::Abs(e) => (0..n).all(|j| b[j].abs_diff_eq(&a[j], e)),
                Setting::Rel(e, mr) => (0..n).all(|j| b[j].relative_eq(&a[j], e, mr)),
                Setting::Ulps(e, u) => (0..n).all(|j| b[j].ulps_eq(&a[j], e, u)),
            };
            // NaN, or the same infinity on both sides: "the scalar comparison of every pair" (false: inf - inf is NaN) and
            // "reflexive" (true) contradict each other there, and the quantifier names finite deviations: not judged.
            // An infinity against a finite component or against the other infinity is judged (a against b, not a against a).
            let undecided = (0..n).any(|j| a[j].is_nan() || b[j].is_nan() || (a[j].is_infinite() && a[j] == b[j]));
            if undecided {
                ctx.branch("non-finite-not-judged");
                return;
            }
            let inf_a = (0..n).any(|j| a[j].is_infinite());
            ctx.branch(if exp { "equal" } else { "unequal" });
            ctx.check(got == exp, &key(&format!("{}/{kind}/special", C::NAME)), || format!("{kind} = {got}, the conjunction of the scalar comparisons over all components is {exp}"));
            ctx.check(got_rev == exp_rev, &key(&format!("{}/{kind}/special", C::NAME)), || format!("{kind}(b,a) = {got_rev}, the conjunction of the scalar comparisons is {exp_rev}"));
            ctx.check(inf_a || refl == exp_refl, &key(&format!("{}/{kind}/special/reflexive", C::NAME)), || format!("{kind}(a,a) = {refl}, the scalar comparisons of each component with itself give {exp_refl}"));
        },
    );
}

// ------------------------------------------------------------------ predicates
trait Fin<T: Fl> {
    const NAME: &'static str;
    const N: usize;
    fn finite(c: &[T]) -> bool;
    /// Some(is_zero) where the type has it, with the type's own default (epsilon, max_ulps) when
    /// it is the ulps flavour (matrices default to epsilon = 1e-6, not the scalar's EPSILON)
    fn zero(c: &[T]) -> Option<(bool, Option<(T, u32)>)>;
}
macro_rules! fin {
    ($V:ident, $n:expr, |$c:ident| $b:expr, zero = $zk:tt) => {
        impl<T: Fl> Fin<T> for $V<T> {
            const NAME: &'static str = stringify!($V);
            const N: usize = $n;
            fn finite($c: &[T]) -> bool {
                let v: $V<T> = $b;
                v.is_finite()
            }
            fn zero($c: &[T]) -> Option<(bool, Option<(T, u32)>)> {
                let v: $V<T> = $b;
                fin!(@zero v, $zk)
            }
        }
    };
    (@zero $v:ident, exact) => { Some(($v.is_zero(), None)) };
    (@zero $v:ident, ulps) => { Some(($v.is_zero(), Some((default_eps(&$v), default_ulps(&$v))))) };
    (@zero $v:ident, none) => { { let _ = &$v; None } };
}
fin!(Vector1, 1, |c| mk_v1([c[0]]), zero = exact);
fin!(Vector2, 2, |c| mk_v2([c[0], c[1]]), zero = exact);
fin!(Vector3, 3, |c| mk_v3([c[0], c[1], c[2]]), zero = exact);
fin!(Vector4, 4, |c| mk_v4([c[0], c[1], c[2], c[3]]), zero = exact);
fin!(Point1, 1, |c| mk_p1([c[0]]), zero = none);
fin!(Point2, 2, |c| mk_p2([c[0], c[1]]), zero = none);
fin!(Point3, 3, |c| mk_p3([c[0], c[1], c[2]]), zero = none);
fin!(Matrix2, 4, |c| mk_m2([[c[0], c[1]], [c[2], c[3]]]), zero = ulps);
fin!(Matrix3, 9, |c| mk_m3(std::array::from_fn(|i| std::array::from_fn(|j| c[i * 3 + j]))), zero = ulps);
fin!(Matrix4, 16, |c| mk_m4(std::array::from_fn(|i| std::array::from_fn(|j| c[i * 4 + j]))), zero = ulps);
fin!(Quaternion, 4, |c| mk_q([c[0], c[1], c[2], c[3]]), zero = ulps);

fn default_eps<T: Fl, X: AbsDiffEq<Epsilon = T>>(_: &X) -> T {
    X::default_epsilon()
}
fn default_ulps<X: UlpsEq>(_: &X) -> u32 {
    X::default_max_ulps()
}

fn finite_zero<T: Fl, C: Fin<T>>(rep: &mut Report) {
    let n = C::N;
    // (zero, negative zero and subnormals are finite too: is_normal() is not is_finite())
    let specials = [T::nan(), T::infinity(), T::neg_infinity(), T::max_value(), T::min_positive_value(), T::zero(), T::neg_zero(), T::zero().step(1), T::min_positive_value() / T::c(4.0), -T::max_value()];
    let small: Vec<T> = vec![T::zero(), T::neg_zero(), T::zero().step(1), T::epsilon() * T::c(0.5), T::epsilon(), T::epsilon().step(1), T::epsilon() * T::c(2.0), T::c(1e-3), -T::epsilon(), -T::epsilon() * T::c(2.0), T::c(0.5e-6), T::c(1e-6), T::c(1e-6).step(1), T::c(-2e-6)];
    let total = 1 + n * specials.len() + n * small.len() + n * (n - 1).max(1) * 2;
    rep.cases(
        &format!("finite+zero/{}", C::NAME),
        T::NAME,
        &format!("each of {n} components set to NaN, +-inf, +-MAX, MIN_POSITIVE, +-0, subnormals (is_finite); zero value with each component set to each of {} near-zero values, and pairs (is_zero)", small.len()),
        total,
        Guard::states(5).distinct(3),
        |i, ctx| {
            let g: Vec<T> = alphabet::generic(n, 0).iter().map(|&r| rq::<T>(r)).collect();
            if i == 0 {
                ctx.describe(|| format!("{} all finite {:?}", C::NAME, g));
                ctx.out(&0);
                ctx.check(C::finite(&g), &key(&format!("{}/is_finite", C::NAME)), || "is_finite() is false for finite components".to_string());
                // every component finite although their sum, their squares and their products are not
                for pat in 0..3 {
                    let big: Vec<T> = (0..n).map(|j| match pat { 0 => T::max_value(), 1 => -T::max_value(), _ => if j % 2 == 0 { T::max_value() } else { -T::max_value() } }).collect();
                    ctx.check(C::finite(&big), &key(&format!("{}/is_finite", C::NAME)), || format!("is_finite() is false for the finite components {:?}", big));
                }
                if let Some((z, _)) = C::zero(&g) {
                    ctx.check(!z, &key(&format!("{}/is_zero", C::NAME)), || "is_zero() is true for a non-zero value".to_string());
                }
                return;
            }
            let i = i - 1;
            if i < n * specials.len() {
                let (p, s) = (i / specials.len(), specials[i % specials.len()]);
                let mut c = g.clone();
                c[p] = s;
                ctx.describe(|| format!("{} component {p} = {:?}", C::NAME, s));
                ctx.out(&(p, i % specials.len()));
                let exp = c.iter().all(|x| x.is_finite());
                let got = C::finite(&c);
                ctx.check(got == exp, &key(&format!("{}/is_finite", C::NAME)), || format!("is_finite() = {got} with component {p} = {:?}", s));
                return;
            }
            let i = i - n * specials.len();
            let mut c = vec![T::zero(); n];
            if i < n * small.len() {
                let (p, s) = (i / small.len(), small[i % small.len()]);
                c[p] = s;
            } else {
                let j = i - n * small.len();
                let (p, q) = (j / 2 % n, (j / 2 / n + 1 + j / 2 % n) % n);
                c[p] = if j % 2 == 0 { T::epsilon() * T::c(0.5) } else { T::epsilon() * T::c(2.0) };
                c[q] = T::epsilon() * T::c(0.5);
            }
            ctx.describe(|| format!("{} {:?}", C::NAME, c));
            ctx.out(&keys(&c));
            ctx.check(C::finite(&c), &key(&format!("{}/is_finite", C::NAME)), || format!("is_finite() is false for the finite components {:?}", c));
            if let Some((got, ulps)) = C::zero(&c) {
                let exp = match ulps {
                    Some((e, u)) => c.iter().all(|x| x.ulps_eq(&T::zero(), e, u)),
                    None => c.iter().all(|x| *x == T::zero()),
                };
                // "ulps-equals zero": with the compound type's own default tolerances (what cgmath does) or with the scalar's
                // (the other reading of the statement); where the two readings differ the statement does not decide
                let exp_scalar = match ulps {
                    Some(_) => c.iter().all(|x| x.ulps_eq(&T::zero(), T::default_epsilon(), T::default_max_ulps())),
                    None => exp,
                };
                if exp == exp_scalar {
                    ctx.check(got == exp, &key(&format!("{}/is_zero", C::NAME)), || format!("is_zero() = {got}, component-wise {} gives {exp}", if ulps.is_some() { "ulps_eq(c, 0)" } else { "c == 0" }));
                } else {
                    ctx.branch("is_zero-readings-differ-not-judged");
                }
            }
        },
    );
}

fn angle_zero<T: Fl>(rep: &mut Report) {
    let small: Vec<T> = vec![T::zero(), T::neg_zero(), T::zero().step(1), T::epsilon() * T::c(0.5), T::epsilon(), T::epsilon().step(1), T::epsilon() * T::c(2.0), T::c(1e-3), -T::epsilon() * T::c(2.0), T::c(1.0)];
    rep.cases("is_zero/angles", T::NAME, "Rad and Deg at 10 near-zero values", small.len(), Guard::states(5), |i, ctx| {
        let x = small[i];
        ctx.describe(|| format!("angle value {:?}", x));
        ctx.out(&x.key());
        let exp = x.ulps_eq(&T::zero(), T::default_epsilon(), T::default_max_ulps());
        ctx.check(Rad(x).is_zero() == exp, &key("Rad/is_zero"), || format!("Rad({:?}).is_zero() != ulps_eq(x, 0) = {exp}", x));
        ctx.check(Deg(x).is_zero() == exp, &key("Deg/is_zero"), || format!("Deg({:?}).is_zero() != ulps_eq(x, 0) = {exp}", x));
    });
}

fn ueq<T: Fl>(a: T, b: T) -> bool {
    a.ulps_eq(&b, T::default_epsilon(), T::default_max_ulps())
}

fn matrix_predicates<T: Fl, M: MatN<T, N> + UlpsEq + AbsDiffEq<Epsilon = T>, const N: usize>(rep: &mut Report) {
    // perturbations of one element: 0, 1, 4, 5 ulps, 1e-3, and the epsilon band around zero
    let pert = |x: T| -> Vec<T> {
        vec![x, x.step(1), x.step(4), x.step(5), x.step(-5), x + T::c(1e-3), x + T::epsilon() * T::c(0.5), x + T::epsilon() * T::c(2.0), x - T::epsilon() * T::c(2.0), x + T::c(0.5e-6), x - T::c(2e-6)]
    };
    let np = 11;
    let g: [[T; N]; N] = mat_from_r(&alphabet::generic(N * N, 2));
    // bases: identity, diagonal (generic diagonal), symmetric (generic, mirrored)
    let mut ident = [[T::zero(); N]; N];
    let mut diag = [[T::zero(); N]; N];
    let mut sym = g;
    for i in 0..N {
        ident[i][i] = T::one();
        diag[i][i] = g[i][i];
        for j in 0..i {
            sym[i][j] = sym[j][i];
        }
    }
    // antisymmetric: mirror images equal in magnitude and opposite in sign (a sign-blind comparison calls it symmetric)
    let mut anti = sym;
    for i in 0..N {
        for j in 0..i {
            anti[i][j] = -anti[j][i];
        }
    }
    let bases = [("identity", ident), ("diagonal", diag), ("symmetric", sym), ("generic", g), ("antisymmetric", anti)];
    let total = bases.len() * N * N * np;
    rep.cases(
        &format!("predicates/{}", M::NAME),
        T::NAME,
        &format!("identity / diagonal / symmetric / generic / antisymmetric base with each single element perturbed by 0, 1, 4, +-5 ulps, 1e-3, +-epsilon-band ({} cases)", total),
        total,
        Guard::states(50).distinct(20).need("is_diagonal-judged", 50).need("is_symmetric-judged", 50),
        |i, ctx| {
            let (bi, rest) = (i / (N * N * np), i % (N * N * np));
            let (pos, pi) = (rest / np, rest % np);
            let (c, r) = (pos / N, pos % N);
            let mut e = bases[bi].1;
            e[c][r] = pert(e[c][r])[pi];
            ctx.describe(|| format!("{} base {} element [{c}][{r}] perturbation #{pi}: {:?}", M::NAME, bases[bi].0, e));
            ctx.out(&(bi, pos, pi));
            let m = M::mk(e);
            let idm = lower_m::<T, N>(model::mident());
            // is_identity is the matrix-level comparison (the matrix type's default tolerances)
            let (me, mu) = (default_eps(&m), default_ulps(&m));
            let exp_ident = (0..N).all(|a| (0..N).all(|b| e[a][b].ulps_eq(&idm[a][b], me, mu)));
            let exp_diag = (0..N).all(|a| (0..N).all(|b| a == b || ueq(e[a][b], T::zero())));
            let exp_sym = (0..N).all(|a| (0..N).all(|b| ueq(e[a][b], e[b][a])));
            // (the comparison with identity() under the matrix type's default tolerances or under the scalar's: judged where the two agree)
            let exp_ident_s = (0..N).all(|a| (0..N).all(|b| ueq(e[a][b], idm[a][b])));
            if exp_ident == exp_ident_s {
                ctx.check(m.is_identity() == exp_ident, &key(&format!("{}/is_identity", M::NAME)), || format!("is_identity() = {}, ulps comparison with identity() gives {exp_ident}", m.is_identity()));
            } else {
                ctx.branch("is_identity-readings-differ-not-judged");
            }
            // likewise "the ulps-comparison of every off-diagonal element with 0 / of every element with its mirror image":
            // element by element under the scalar's defaults, or in one matrix comparison (with from_diagonal(diagonal()),
            // with transpose()) under the matrix type's - judged where the two agree
            let exp_diag_m = (0..N).all(|a| (0..N).all(|b| a == b || e[a][b].ulps_eq(&T::zero(), me, mu)));
            let exp_sym_m = (0..N).all(|a| (0..N).all(|b| e[a][b].ulps_eq(&e[b][a], me, mu)));
            if exp_diag == exp_diag_m {
                ctx.branch("is_diagonal-judged");
                ctx.check(m.is_diagonal() == exp_diag, &key(&format!("{}/is_diagonal", M::NAME)), || format!("is_diagonal() = {}, ulps comparison of every off-diagonal element with 0 gives {exp_diag}", m.is_diagonal()));
            } else {
                ctx.branch("is_diagonal-readings-differ-not-judged");
            }
            if exp_sym == exp_sym_m {
                ctx.branch("is_symmetric-judged");
                ctx.check(m.is_symmetric() == exp_sym, &key(&format!("{}/is_symmetric", M::NAME)), || format!("is_symmetric() = {}, ulps comparison of every element with its mirror image gives {exp_sym}", m.is_symmetric()));
            } else {
                ctx.branch("is_symmetric-readings-differ-not-judged");
            }
            let det = m.determinant();
            let exp_inv = !ueq(det, T::zero());
            ctx.check(m.is_invertible() == exp_inv, &key(&format!("{}/is_invertible", M::NAME)), || format!("is_invertible() = {}, determinant() = {:?}", m.is_invertible(), det));
            // transposing does not change symmetry
            if exp_sym == exp_sym_m {
                ctx.check(m.transpose().is_symmetric() == exp_sym, &key(&format!("{}/is_symmetric/transpose", M::NAME)), || "is_symmetric() differs on the transpose".to_string());
            }
        },
    );
    // is_invertible on singular / nearly singular / regular matrices
    let mut sing = g;
    sing[N - 1] = std::array::from_fn(|r| g[0][r] * T::c(2.0));
    let mut near = sing;
    near[N - 1][N - 1] = near[N - 1][N - 1].step(1);
    let mut tiny_scale = [[T::zero(); N]; N];
    for i in 0..N {
        tiny_scale[i][i] = T::epsilon() * T::c(0.1);
    }
    let mut cands: Vec<(&'static str, [[T; N]; N])> = vec![("singular", sing), ("nearly singular (1 ulp)", near), ("regular", g), ("tiny multiple of the identity", tiny_scale), ("zero", [[T::zero(); N]; N])];
    // determinants placed in and around the band the ulps comparison with 0 accepts: diag(1, .., 1, d) has determinant d exactly
    for d in [0.5, 1.0, 1.5, 2.0, 3.0, 16.0, 250.0, -0.5, -1.0, -3.0] {
        let mut m = [[T::zero(); N]; N];
        for i in 0..N {
            m[i][i] = T::one();
        }
        m[N - 1][N - 1] = T::epsilon() * T::c(d);
        cands.push(("diag(1, .., 1, d) with d in the epsilon band", m));
    }
    rep.cases(&format!("is_invertible/{}", M::NAME), T::NAME, "singular, 1 ulp from singular, regular, tiny, zero, and determinants of exactly d = 0.5 .. 250 epsilon (both signs)", cands.len(), Guard::states(5).need("invertible", 3).need("not-invertible", 3), |i, ctx| {
        let m = M::mk(cands[i].1);
        ctx.describe(|| format!("{} {}: {:?}", M::NAME, cands[i].0, cands[i].1));
        ctx.out(&i);
        let det = m.determinant();
        let exp = !ueq(det, T::zero());
        ctx.branch(if exp { "invertible" } else { "not-invertible" });
        ctx.check(m.is_invertible() == exp, &key(&format!("{}/is_invertible", M::NAME)), || format!("is_invertible() = {}, determinant() = {:?}", m.is_invertible(), det));
    });
}

fn perpendicular<T: Fl>(rep: &mut Report) {
    // pairs with dot product exactly 0, within the ulps band of 0, and away from it
    let dots: Vec<T> = vec![T::zero(), T::epsilon() * T::c(0.5), T::epsilon(), T::epsilon() * T::c(2.0), -T::epsilon() * T::c(0.5), -T::epsilon() * T::c(2.0), T::c(1e-3), T::c(-3.0), T::zero().step(3)];
    rep.cases("is_perpendicular", T::NAME, "Vector1-4 and Quaternion pairs whose dot product is 0, inside and outside the ulps band", dots.len() * 5, Guard::states(10).distinct(5), |i, ctx| {
        let (d, which) = (dots[i / 5], i % 5);
        ctx.describe(|| format!("dot product {:?}, type #{which}", d));
        ctx.out(&(d.key(), which));
        let one = T::one();
        // u = (1, 2, ...), v chosen so that u.v = d exactly: v = (d, 0, ...) + w with w orthogonal to u
        let (got, dot): (bool, T) = match which {
            0 => {
                let (u, v) = (mk_v1([one]), mk_v1([d]));
                (u.is_perpendicular(v), u.dot(v))
            }
            1 => {
                let (u, v) = (mk_v2([one, T::c(2.0)]), mk_v2([d - T::c(2.0), one]));
                (u.is_perpendicular(v), u.dot(v))
            }
            2 => {
                let (u, v) = (mk_v3([one, T::c(2.0), T::c(-1.0)]), mk_v3([d, one, T::c(2.0)]));
                (u.is_perpendicular(v), u.dot(v))
            }
            3 => {
                let (u, v) = (mk_v4([one, T::c(2.0), T::c(-1.0), T::c(4.0)]), mk_v4([d, one, T::c(2.0), T::zero()]));
                (u.is_perpendicular(v), u.dot(v))
            }
            _ => {
                let (u, v) = (mk_q([one, T::c(2.0), T::c(-1.0), T::c(4.0)]), mk_q([d, one, T::c(2.0), T::zero()]));
                (u.is_perpendicular(v), u.dot(v))
            }
        };
        let exp = ueq(dot, T::zero());
        ctx.check(got == exp, &key("is_perpendicular"), || format!("is_perpendicular() = {got}, dot = {:?}, ulps_eq(dot, 0) = {exp}", dot));
    });
}

fn all<T: Fl + serde::Serialize + serde::de::DeserializeOwned>(rep: &mut Report) {
    approx_system::<T, Vector1<T>>(rep);
    approx_system::<T, Vector2<T>>(rep);
    approx_system::<T, Vector3<T>>(rep);
    approx_system::<T, Vector4<T>>(rep);
    approx_system::<T, Point1<T>>(rep);
    approx_system::<T, Point2<T>>(rep);
    approx_system::<T, Point3<T>>(rep);
    approx_system::<T, Matrix2<T>>(rep);
    approx_system::<T, Matrix3<T>>(rep);
    approx_system::<T, Matrix4<T>>(rep);
    approx_system::<T, Quaternion<T>>(rep);
    approx_system::<T, Rad<T>>(rep);
    approx_system::<T, Deg<T>>(rep);
    approx_system::<T, Euler<Rad<T>>>(rep);
    approx_system::<T, Euler<Deg<T>>>(rep);
    approx_system::<T, Basis2<T>>(rep);
    approx_system::<T, Basis3<T>>(rep);
    approx_system::<T, Decomposed<Vector3<T>, Quaternion<T>>>(rep);
    approx_system::<T, Decomposed<Vector2<T>, Basis2<T>>>(rep);
    approx_special::<T, Vector1<T>>(rep);
    approx_special::<T, Vector2<T>>(rep);
    approx_special::<T, Vector3<T>>(rep);
    approx_special::<T, Vector4<T>>(rep);
    approx_special::<T, Point1<T>>(rep);
    approx_special::<T, Point2<T>>(rep);
    approx_special::<T, Point3<T>>(rep);
    approx_special::<T, Matrix2<T>>(rep);
    approx_special::<T, Matrix3<T>>(rep);
    approx_special::<T, Matrix4<T>>(rep);
    approx_special::<T, Quaternion<T>>(rep);
    approx_special::<T, Rad<T>>(rep);
    approx_special::<T, Deg<T>>(rep);
    approx_special::<T, Euler<Rad<T>>>(rep);
    approx_special::<T, Euler<Deg<T>>>(rep);
    approx_special::<T, Decomposed<Vector3<T>, Quaternion<T>>>(rep);
    finite_zero::<T, Vector1<T>>(rep);
    finite_zero::<T, Vector2<T>>(rep);
    finite_zero::<T, Vector3<T>>(rep);
    finite_zero::<T, Vector4<T>>(rep);
    finite_zero::<T, Point1<T>>(rep);
    finite_zero::<T, Point2<T>>(rep);
    finite_zero::<T, Point3<T>>(rep);
    finite_zero::<T, Matrix2<T>>(rep);
    finite_zero::<T, Matrix3<T>>(rep);
    finite_zero::<T, Matrix4<T>>(rep);
    finite_zero::<T, Quaternion<T>>(rep);
    angle_zero::<T>(rep);
    matrix_predicates::<T, Matrix2<T>, 2>(rep);
    matrix_predicates::<T, Matrix3<T>, 3>(rep);
    matrix_predicates::<T, Matrix4<T>, 4>(rep);
    perpendicular::<T>(rep);
}

fn main() {
    let mut rep = Report::from_args(P);
    rep.assume("oracle: the conjunction over components of approx 0.5.1's scalar comparison with the same parameters; Basis2/Basis3 values with arbitrary components are built through their serde Deserialize impl");
    all::<f64>(&mut rep);
    all::<f32>(&mut rep);
    std::process::exit(rep.finish());
}
