//! C20 — serialized values round-trip exactly and keep their field structure.
use cgmath::{Ortho, Perspective, PerspectiveFov, PlanarFov};
use mc_props::tokens::{from_tokens, from_tokens_as, to_tokens, to_tokens_as, Tok};
use mc_props::*;
use serde::de::DeserializeOwned;
use serde::Serialize;

const P: &str = "C20";
fn key(s: &str) -> String {
    format!("{P}/{s}")
}

/// scalar types that are serialized: f64, f32 (bit-exact) and i32
trait Sc: Copy + std::fmt::Debug + PartialEq + Serialize + DeserializeOwned + Send + Sync + 'static {
    const NAME: &'static str;
    fn alphabet() -> Vec<Self>;
    fn generic(i: usize) -> Self;
    fn bits(self) -> u64;
    fn tok(self) -> Tok;
    /// float types: the value of an f64
    fn from_f64(_x: f64) -> Option<Self> {
        None
    }
    fn as_f64(self) -> f64;
}
impl Sc for f64 {
    const NAME: &'static str = "f64";
    fn from_f64(x: f64) -> Option<f64> {
        Some(x)
    }
    fn as_f64(self) -> f64 {
        self
    }
    fn alphabet() -> Vec<f64> {
        vec![0.0, -0.0, 1.0, -1.5, f64::MIN_POSITIVE, 5e-324, f64::MAX, 0.1, std::f64::consts::PI, 1e-310, -f64::MAX, 1.0000000000000002]
    }
    fn generic(i: usize) -> f64 {
        let g = alphabet::generic(24, 1)[i % 24];
        g.0 as f64 / g.1 as f64 + 0.1
    }
    fn bits(self) -> u64 {
        self.to_bits()
    }
    fn tok(self) -> Tok {
        Tok::F64(self.to_bits())
    }
}
impl Sc for f32 {
    const NAME: &'static str = "f32";
    fn from_f64(x: f64) -> Option<f32> {
        Some(x as f32)
    }
    fn as_f64(self) -> f64 {
        self as f64
    }
    fn alphabet() -> Vec<f32> {
        vec![0.0, -0.0, 1.0, -1.5, f32::MIN_POSITIVE, 1e-45, f32::MAX, 0.1, std::f32::consts::PI, 1e-40, -f32::MAX, 1.0000001]
    }
    fn generic(i: usize) -> f32 {
        let g = alphabet::generic(24, 1)[i % 24];
        g.0 as f32 / g.1 as f32 + 0.1
    }
    fn bits(self) -> u64 {
        self.to_bits() as u64
    }
    fn tok(self) -> Tok {
        Tok::F32(self.to_bits())
    }
}
impl Sc for i32 {
    const NAME: &'static str = "i32";
    fn as_f64(self) -> f64 {
        self as f64
    }
    fn alphabet() -> Vec<i32> {
        vec![0, 1, -1, i32::MAX, i32::MIN, 65536, -32769]
    }
    fn generic(i: usize) -> i32 {
        alphabet::generic(24, 1)[i % 24].0 as i32 * 4 + i as i32
    }
    fn bits(self) -> u64 {
        self as i64 as u64
    }
    fn tok(self) -> Tok {
        Tok::I64(self as i64)
    }
}

/// expected shape of a serialized value: nested public field names with scalars at the leaves
#[derive(Clone, Debug)]
enum Shape {
    Scalar,
    /// transparent wrapper (angles): a bare number
    Newtype(Box<Shape>),
    /// (field name, judged?, shape): Basis' private field name is not part of the statement
    Struct(Vec<(&'static str, bool, Shape)>),
}
fn st(fields: &[(&'static str, Shape)]) -> Shape {
    Shape::Struct(fields.iter().map(|(n, s)| (*n, true, s.clone())).collect())
}
fn vecn(n: usize) -> Shape {
    st(&["x", "y", "z", "w"][..n].iter().map(|f| (*f, Shape::Scalar)).collect::<Vec<_>>())
}
fn matn(n: usize) -> Shape {
    st(&["x", "y", "z", "w"][..n].iter().map(|f| (*f, vecn(n))).collect::<Vec<_>>())
}
fn angle() -> Shape {
    Shape::Newtype(Box::new(Shape::Scalar))
}
fn quat() -> Shape {
    st(&[("v", vecn(3)), ("s", Shape::Scalar)])
}
/// Basis2/Basis3 wrap a matrix in one private field whose name is not part of the statement: it is read off a
/// serialized value instead of being assumed
fn basis(n: usize) -> Shape {
    let toks = if n == 2 { to_tokens(&<Basis2<f64> as cgmath::Rotation2>::from_angle(Rad(0.0))) } else { to_tokens(&Basis3::<f64>::from_quaternion(&Quaternion::new(1.0, 0.0, 0.0, 0.0))) };
    // ... nor is the wrapper level itself: a Basis that serializes as the matrix it holds has the matrix's shape
    if let Ok(t) = &toks {
        let (mut p, mut sc) = (0, Vec::new());
        if match_shape::<f64>(&matn(n), t, &mut p, "", &mut sc).is_ok() && p == t.len() {
            return matn(n);
        }
    }
    let name: &'static str = match toks.ok().and_then(|t| t.into_iter().find_map(|x| if let Tok::Field(f) = x { Some(f) } else { None })) {
        Some(f) => Box::leak(f.into_boxed_str()),
        None => "mat",
    };
    Shape::Struct(vec![(name, false, matn(n))])
}
fn decomposed(rot: Shape, n: usize) -> Shape {
    st(&[("scale", Shape::Scalar), ("rot", rot), ("disp", vecn(n))])
}

/// build the token stream of `shape` filled with `comps` (in serialization order)
fn tokens_of<S: Sc>(shape: &Shape, comps: &[S], pos: &mut usize, out: &mut Vec<Tok>) {
    match shape {
        Shape::Scalar => {
            out.push(comps[*pos].tok());
            *pos += 1;
        }
        Shape::Newtype(inner) => {
            // a bare number: what both a derived newtype impl and a `transparent` one accept
            tokens_of(inner, comps, pos, out);
        }
        Shape::Struct(fs) => {
            out.push(Tok::Struct("?", fs.len()));
            for (n, _, s) in fs {
                out.push(Tok::Field(n.to_string()));
                tokens_of(s, comps, pos, out);
            }
            out.push(Tok::End);
        }
    }
}
fn count(shape: &Shape) -> usize {
    match shape {
        Shape::Scalar => 1,
        Shape::Newtype(i) => count(i),
        Shape::Struct(fs) => fs.iter().map(|(_, _, s)| count(s)).sum(),
    }
}
/// end (exclusive) of the value starting at `pos`
fn value_end(toks: &[Tok], pos: usize) -> Result<usize, String> {
    match toks.get(pos) {
        None => Err("token stream ends early".to_string()),
        Some(Tok::Struct(..)) => {
            let mut p = pos + 1;
            loop {
                match toks.get(p) {
                    Some(Tok::End) => return Ok(p + 1),
                    Some(Tok::Field(_)) => p = value_end(toks, p + 1)?,
                    other => return Err(format!("malformed struct: {:?}", other)),
                }
            }
        }
        Some(Tok::Newtype(_)) => value_end(toks, pos + 1),
        Some(Tok::Field(_)) | Some(Tok::End) => Err("a value expected".to_string()),
        Some(_) => Ok(pos + 1),
    }
}
/// compare a recorded token stream with the expected shape; returns the scalars found, in the order of the shape.
/// What the statement fixes is judged: field names and nesting, bare numbers at the leaves. What it leaves open is
/// not: the order in which a struct emits its fields, whether a transparent wrapper announces itself as a newtype.
fn match_shape<S: Sc>(shape: &Shape, toks: &[Tok], pos: &mut usize, path: &str, scalars: &mut Vec<Tok>) -> Result<(), String> {
    let next = |pos: &mut usize| -> Result<Tok, String> {
        let t = toks.get(*pos).cloned().ok_or_else(|| format!("{path}: token stream ends early"))?;
        *pos += 1;
        Ok(t)
    };
    match shape {
        Shape::Scalar => {
            let t = next(pos)?;
            match t {
                Tok::F64(_) | Tok::F32(_) | Tok::I64(_) | Tok::U64(_) => {
                    scalars.push(t);
                    Ok(())
                }
                other => Err(format!("{path}: a bare number expected, found {:?}", other)),
            }
        }
        Shape::Newtype(inner) => {
            if let Some(Tok::Newtype(_)) = toks.get(*pos) {
                *pos += 1;
            }
            match_shape::<S>(inner, toks, pos, path, scalars)
        }
        Shape::Struct(fs) => {
            match next(pos)? {
                Tok::Struct(_, len) if len == fs.len() => {}
                other => return Err(format!("{path}: a struct with {} fields expected, found {:?}", fs.len(), other)),
            }
            let mut found: Vec<Option<Vec<Tok>>> = vec![None; fs.len()];
            loop {
                match next(pos)? {
                    Tok::End => break,
                    Tok::Field(f) => {
                        // a judged field is found by its name; the single unjudged one (Basis) by being the only one
                        let k = fs.iter().position(|(n, judged, _)| *judged && *n == f).or_else(|| fs.iter().position(|(_, judged, _)| !*judged));
                        let k = match k {
                            Some(k) if found[k].is_none() => k,
                            Some(_) => return Err(format!("{path}: field `{f}` serialized twice")),
                            None => return Err(format!("{path}: unexpected field `{f}` (expected {:?})", fs.iter().map(|x| x.0).collect::<Vec<_>>())),
                        };
                        let end = value_end(toks, *pos).map_err(|e| format!("{path}.{f}: {e}"))?;
                        let mut sub = Vec::new();
                        let mut p2 = 0;
                        let slice = &toks[*pos..end];
                        match_shape::<S>(&fs[k].2, slice, &mut p2, &format!("{path}.{f}"), &mut sub)?;
                        if p2 != slice.len() {
                            return Err(format!("{path}.{f}: {} extra tokens", slice.len() - p2));
                        }
                        found[k] = Some(sub);
                        *pos = end;
                    }
                    other => return Err(format!("{path}: field or end of struct expected, found {:?}", other)),
                }
            }
            for (k, f) in found.into_iter().enumerate() {
                match f {
                    Some(sub) => scalars.extend(sub),
                    None => return Err(format!("{path}: field `{}` missing", fs[k].0)),
                }
            }
            Ok(())
        }
    }
}

/// one serializable configuration
struct Cfg<S: Sc> {
    name: String,
    shape: Shape,
    /// components -> (tokens, json, tokens after token round trip, json after json round trip)
    run: Box<dyn Fn(&[S]) -> Result<(Vec<Tok>, String, Vec<Tok>, String), String> + Send + Sync>,
    /// components -> tokens of the value built from them through the public fields / constructors (where the type
    /// has them), and the tokens before / after a round trip through a format that is not human readable
    extra: Box<dyn Fn(&[S]) -> Result<(Option<Vec<Tok>>, Vec<Tok>, Vec<Tok>), String> + Send + Sync>,
}
fn cfg<S: Sc, V: Serialize + DeserializeOwned + 'static>(name: &str, shape: Shape, mk: Option<fn(&[S]) -> V>) -> Cfg<S> {
    let sh = shape.clone();
    let sh2 = shape.clone();
    Cfg {
        name: format!("{name}<{}>", S::NAME),
        shape,
        extra: Box::new(move |comps: &[S]| {
            let mut toks = Vec::new();
            tokens_of(&sh2, comps, &mut 0, &mut toks);
            let v: V = from_tokens(&toks).map_err(|e| format!("cannot build the value from its expected shape: {e}"))?;
            let t_pub = match mk {
                Some(f) => Some(to_tokens(&f(comps)).map_err(|e| format!("token serialization of the publicly built value failed: {e}"))?),
                None => None,
            };
            let t_nh = to_tokens_as(&v, false).map_err(|e| format!("serialization (not human readable) failed: {e}"))?;
            let v_nh: V = from_tokens_as(&t_nh, false).map_err(|e| format!("round trip (not human readable) failed: {e}"))?;
            let t_nh2 = to_tokens_as(&v_nh, false).map_err(|e| e.to_string())?;
            Ok((t_pub, t_nh, t_nh2))
        }),
        run: Box::new(move |comps: &[S]| {
            // the value is built by deserializing the token stream of the expected shape ...
            let mut toks = Vec::new();
            tokens_of(&sh, comps, &mut 0, &mut toks);
            let v: V = from_tokens(&toks).map_err(|e| format!("cannot build the value from its expected shape: {e}"))?;
            // ... then serialized through both formats and read back
            let t1 = to_tokens(&v).map_err(|e| format!("token serialization failed: {e}"))?;
            let j1 = serde_json::to_string(&v).map_err(|e| format!("JSON serialization failed: {e}"))?;
            let v2: V = from_tokens(&t1).map_err(|e| format!("token round trip failed: {e}"))?;
            let v3: V = serde_json::from_str(&j1).map_err(|e| format!("JSON round trip failed: {e} in {j1}"))?;
            let t2 = to_tokens(&v2).map_err(|e| e.to_string())?;
            let j3 = to_tokens(&v3).map_err(|e| e.to_string())?;
            Ok((t1, j1, t2, format!("{:?}", j3)))
        }),
    }
}

fn configs<S: Sc + cgmath::BaseNum>() -> Vec<Cfg<S>> {
    vec![
        cfg::<S, Vector1<S>>("Vector1", vecn(1), Some(|c| Vector1 { x: c[0] })),
        cfg::<S, Vector2<S>>("Vector2", vecn(2), Some(|c| Vector2 { x: c[0], y: c[1] })),
        cfg::<S, Vector3<S>>("Vector3", vecn(3), Some(|c| Vector3 { x: c[0], y: c[1], z: c[2] })),
        cfg::<S, Vector4<S>>("Vector4", vecn(4), Some(|c| Vector4 { x: c[0], y: c[1], z: c[2], w: c[3] })),
        cfg::<S, Point1<S>>("Point1", vecn(1), Some(|c| Point1 { x: c[0] })),
        cfg::<S, Point2<S>>("Point2", vecn(2), Some(|c| Point2 { x: c[0], y: c[1] })),
        cfg::<S, Point3<S>>("Point3", vecn(3), Some(|c| Point3 { x: c[0], y: c[1], z: c[2] })),
    ]
}
fn float_configs<S: Sc + cgmath::BaseFloat>() -> Vec<Cfg<S>> {
    let mut v = configs::<S>();
    v.extend(vec![
        // components come in serialization order: columns x, y, z, w of a matrix, each x..w; a quaternion's v.x, v.y, v.z, then s
        cfg::<S, Matrix2<S>>("Matrix2", matn(2), Some(|c| Matrix2 { x: Vector2 { x: c[0], y: c[1] }, y: Vector2 { x: c[2], y: c[3] } })),
        cfg::<S, Matrix3<S>>("Matrix3", matn(3), Some(|c| Matrix3 { x: Vector3 { x: c[0], y: c[1], z: c[2] }, y: Vector3 { x: c[3], y: c[4], z: c[5] }, z: Vector3 { x: c[6], y: c[7], z: c[8] } })),
        cfg::<S, Matrix4<S>>("Matrix4", matn(4), Some(|c| Matrix4 { x: Vector4 { x: c[0], y: c[1], z: c[2], w: c[3] }, y: Vector4 { x: c[4], y: c[5], z: c[6], w: c[7] }, z: Vector4 { x: c[8], y: c[9], z: c[10], w: c[11] }, w: Vector4 { x: c[12], y: c[13], z: c[14], w: c[15] } })),
        cfg::<S, Quaternion<S>>("Quaternion", quat(), Some(|c| Quaternion { v: Vector3 { x: c[0], y: c[1], z: c[2] }, s: c[3] })),
        cfg::<S, Rad<S>>("Rad", angle(), Some(|c| Rad(c[0]))),
        cfg::<S, Deg<S>>("Deg", angle(), Some(|c| Deg(c[0]))),
        cfg::<S, Euler<Rad<S>>>("Euler<Rad>", st(&[("x", angle()), ("y", angle()), ("z", angle())]), Some(|c| Euler { x: Rad(c[0]), y: Rad(c[1]), z: Rad(c[2]) })),
        cfg::<S, Euler<Deg<S>>>("Euler<Deg>", st(&[("x", angle()), ("y", angle()), ("z", angle())]), Some(|c| Euler { x: Deg(c[0]), y: Deg(c[1]), z: Deg(c[2]) })),
        cfg::<S, Basis2<S>>("Basis2", basis(2), None),
        cfg::<S, Basis3<S>>("Basis3", basis(3), None),
        cfg::<S, PerspectiveFov<S>>("PerspectiveFov", st(&[("fovy", angle()), ("aspect", Shape::Scalar), ("near", Shape::Scalar), ("far", Shape::Scalar)]), Some(|c| PerspectiveFov { fovy: Rad(c[0]), aspect: c[1], near: c[2], far: c[3] })),
        cfg::<S, Perspective<S>>("Perspective", st(&[("left", Shape::Scalar), ("right", Shape::Scalar), ("bottom", Shape::Scalar), ("top", Shape::Scalar), ("near", Shape::Scalar), ("far", Shape::Scalar)]), Some(|c| Perspective { left: c[0], right: c[1], bottom: c[2], top: c[3], near: c[4], far: c[5] })),
        cfg::<S, Ortho<S>>("Ortho", st(&[("left", Shape::Scalar), ("right", Shape::Scalar), ("bottom", Shape::Scalar), ("top", Shape::Scalar), ("near", Shape::Scalar), ("far", Shape::Scalar)]), Some(|c| Ortho { left: c[0], right: c[1], bottom: c[2], top: c[3], near: c[4], far: c[5] })),
        cfg::<S, PlanarFov<S>>("PlanarFov", st(&[("fovy", angle()), ("aspect", Shape::Scalar), ("height", Shape::Scalar), ("near", Shape::Scalar), ("far", Shape::Scalar)]), Some(|c| PlanarFov { fovy: Rad(c[0]), aspect: c[1], height: c[2], near: c[3], far: c[4] })),
        cfg::<S, Decomposed<Vector3<S>, Quaternion<S>>>("Decomposed<Vector3,Quaternion>", decomposed(quat(), 3), Some(|c| Decomposed { scale: c[0], rot: Quaternion { v: Vector3 { x: c[1], y: c[2], z: c[3] }, s: c[4] }, disp: Vector3 { x: c[5], y: c[6], z: c[7] } })),
        cfg::<S, Decomposed<Vector3<S>, Basis3<S>>>("Decomposed<Vector3,Basis3>", decomposed(basis(3), 3), None),
        cfg::<S, Decomposed<Vector2<S>, Basis2<S>>>("Decomposed<Vector2,Basis2>", decomposed(basis(2), 2), None),
    ]);
    v
}

fn roundtrip<S: Sc>(rep: &mut Report, cfgs: &[Cfg<S>]) {
    let alpha = S::alphabet();
    for c in cfgs {
        let n = count(&c.shape);
        let k = if n <= 6 { 3 } else { rep.pick(2, 3) };
        let dev = DevSpace::new(n, alpha.len(), k);
        // whole-value patterns over the first three letters (for the float types 0.0, -0.0, 1.0): uniform, one position
        // different, every 3rd / 4th / 5th position different (identity matrices, unit columns, the identity quaternion,
        // zero vectors: the values a "skip if default" attribute would drop)
        let pl = 3.min(alpha.len());
        // float types: the generic components scaled so that the sum of their squares is 1 + d, d = +-2^-j for every
        // second j up to 40 (unit quaternions, orthonormal columns and values next to them: what a "repair on load" touches)
        let ladder: Vec<f64> = if S::from_f64(0.0).is_some() { (4..=40).step_by(2).flat_map(|j| [2f64.powi(-j), -(2f64.powi(-j))]).chain([0.0]).collect() } else { vec![] };
        let n_pat = alpha.len() + pl * pl * (n + 3);
        rep.cases(
            &format!("roundtrip/{}", c.name),
            "S",
            &format!("generic components with <= {k} of {n} positions replaced by each of {} special values (0, -0, subnormals, MAX, 0.1, pi, ...), plus (float types) the whole value scaled to squared length 1 + d for 37 values of d down to +-2^-40, plus {n_pat} whole-value patterns (uniform; one position or every 3rd/4th/5th position 0, -0 or 1 on a background of 0, -0 or 1); the value also built through its public fields; token format (human readable and not) and serde_json", alpha.len()),
            dev.len() + n_pat + ladder.len(),
            Guard::states(5).distinct(5),
            |i, ctx| {
                let mut comps: Vec<S> = (0..n).map(S::generic).collect();
                if i >= dev.len() + n_pat {
                    let d = ladder[i - dev.len() - n_pat];
                    let norm = comps.iter().map(|x| x.as_f64() * x.as_f64()).sum::<f64>().sqrt();
                    comps = comps.iter().map(|x| S::from_f64(x.as_f64() / norm * (1.0 + d).sqrt()).unwrap()).collect();
                } else if i < dev.len() {
                    for (p, l) in dev.get(i) {
                        comps[p] = alpha[l];
                    }
                } else {
                    let j = i - dev.len();
                    if j < alpha.len() {
                        comps = vec![alpha[j]; n];
                    } else {
                        let j = j - alpha.len();
                        let (fg, bg, which) = (alpha[j % pl], alpha[(j / pl) % pl], j / (pl * pl));
                        comps = (0..n).map(|p| if which < n { if p == which { fg } else { bg } } else if p % (which - n + 3) == 0 { fg } else { bg }).collect();
                    }
                }
                ctx.describe(|| format!("{} components (serialization order) {:?}", c.name, comps));
                ctx.out(&comps.iter().map(|x| x.bits()).collect::<Vec<_>>());
                ctx.t();
                match (c.extra)(&comps) {
                    Err(e) => ctx.fail(&key(&format!("{}/roundtrip", c.name)), || e),
                    Ok((t_pub, t_nh, t_nh2)) => {
                        let mut expected = Vec::new();
                        tokens_of(&c.shape, &comps, &mut 0, &mut expected);
                        let want: Vec<Tok> = comps.iter().map(|x| x.tok()).collect();
                        if let Some(tp) = t_pub {
                            // the value whose public field `x` holds comps[0] etc. must serialize `x` as comps[0]
                            let mut scalars = Vec::new();
                            let mut pos = 0;
                            match match_shape::<S>(&c.shape, &tp, &mut pos, &c.name, &mut scalars) {
                                Err(e) => ctx.fail(&key(&format!("{}/structure/public-fields", c.name)), || e),
                                Ok(()) => { ctx.check(scalars == want && pos == tp.len(), &key(&format!("{}/serialized-components/public-fields", c.name)), || format!("the value built through its public fields serializes the scalars {:?}, its fields hold {:?}", scalars, want)); }
                            }
                        }
                        let mut scalars = Vec::new();
                        let mut pos = 0;
                        match match_shape::<S>(&c.shape, &t_nh, &mut pos, &c.name, &mut scalars) {
                            Err(e) => ctx.fail(&key(&format!("{}/structure/not-human-readable", c.name)), || e),
                            Ok(()) => { ctx.check(scalars == want && pos == t_nh.len(), &key(&format!("{}/serialized-components/not-human-readable", c.name)), || format!("serialized scalars {:?}, components {:?}", scalars, want)); }
                        }
                        ctx.check(t_nh2 == t_nh, &key(&format!("{}/roundtrip/not-human-readable", c.name)), || format!("after the round trip the value serializes to {:?}, before: {:?}", t_nh2, t_nh));
                    }
                }
                match (c.run)(&comps) {
                    Err(e) => ctx.fail(&key(&format!("{}/roundtrip", c.name)), || e),
                    Ok((t1, j1, t2, j3)) => {
                        // structure: public field names, nesting, angles as bare numbers
                        let mut scalars = Vec::new();
                        let mut pos = 0;
                        match match_shape::<S>(&c.shape, &t1, &mut pos, &c.name, &mut scalars) {
                            Err(e) => ctx.fail(&key(&format!("{}/structure", c.name)), || e),
                            Ok(()) if pos != t1.len() => ctx.fail(&key(&format!("{}/structure", c.name)), || format!("{} extra tokens", t1.len() - pos)),
                            Ok(()) => {
                                // every component, in order, bit for bit
                                let want: Vec<Tok> = comps.iter().map(|x| x.tok()).collect();
                                ctx.check(scalars == want, &key(&format!("{}/serialized-components", c.name)), || format!("serialized scalars {:?}, components {:?}", scalars, want));
                            }
                        }
                        ctx.check(t2 == t1, &key(&format!("{}/roundtrip/tokens", c.name)), || format!("after the token round trip the value serializes to {:?}, before: {:?}", t2, t1));
                        ctx.check(j3 == format!("{:?}", t1), &key(&format!("{}/roundtrip/json", c.name)), || format!("after the JSON round trip ({j1}) the value serializes to {j3}, before: {:?}", t1));
                        // angles are bare numbers in JSON as well
                        if let Shape::Newtype(_) = c.shape {
                            ctx.check(!j1.contains('{') && !j1.contains('['), &key(&format!("{}/structure/json-bare-number", c.name)), || format!("JSON {j1}"));
                        }
                    }
                }
            },
        );
    }
}

/// the hand-written Deserialize of Decomposed, driven with every key sequence of length <= 4
fn protocol(rep: &mut Report) {
    type D = Decomposed<Vector3<f64>, Quaternion<f64>>;
    // the three fields and names that are not fields: an arbitrary one, plausible aliases, another letter case, a padded name
    let keys4 = ["scale", "rot", "disp", "bogus", "rotation", "Scale", "translation", " disp", "ROT", "Disp", "scal", "scale ", "rot_", "displacement", "s"];
    let nk = keys4.len();
    // a name that is not a field carries the value of the field it resembles (an alias would have to accept exactly that)
    let like = |k: &str| -> &'static str {
        let l = k.trim().to_ascii_lowercase();
        if l.starts_with('s') { "scale" } else if l.starts_with('r') { "rot" } else if l.starts_with('d') || l.starts_with('t') { "disp" } else { "other" }
    };
    let value_toks = |k: &str| -> Vec<Tok> {
        let mut out = Vec::new();
        match like(k) {
            "scale" => tokens_of::<f64>(&Shape::Scalar, &[2.5], &mut 0, &mut out),
            "rot" => tokens_of::<f64>(&quat(), &[0.1, 0.2, 0.3, 0.9], &mut 0, &mut out),
            "disp" => tokens_of::<f64>(&vecn(3), &[7.0, -8.0, 9.5], &mut 0, &mut out),
            _ => out.push(Tok::F64(1.0f64.to_bits())),
        }
        out
    };
    // breadth-first over key sequences: state = sequence of keys fed so far
    let inits = vec![Vec::<usize>::new()];
    rep.bfs(
        "protocol/Decomposed",
        "S",
        "deserializer driven with every key sequence of length <= 4 over {scale, rot, disp, and twelve names that are not fields: an arbitrary one, aliases, other letter cases, prefixes, suffixes, padded names}, human-readable and not; reference: three-flag automaton (accept iff no unknown key and all three present)",
        inits,
        nk,
        4,
        Guard::states((1 + nk + nk * nk + nk * nk * nk + nk * nk * nk * nk) as u64).need("accepted", 6).need("rejected-missing", 10).need("rejected-unknown", 10),
        |st, act, _ctx| {
            let mut n = st.clone();
            n.push(act);
            Some(n)
        },
        |st, ctx| {
            let mut toks = vec![Tok::Struct("Decomposed", st.len())];
            for &k in st {
                toks.push(Tok::Field(keys4[k].to_string()));
                toks.extend(value_toks(keys4[k]));
            }
            toks.push(Tok::End);
            ctx.out(st);
            // the same verdict whether or not the format calls itself human readable
            let res_nh = guarded(|| from_tokens_as::<D>(&toks, false));
            let res = guarded(|| from_tokens::<D>(&toks));
            if let (Ok(a), Ok(b)) = (&res, &res_nh) {
                ctx.t();
                if a.is_ok() != b.is_ok() {
                    ctx.fail(&key("protocol/same-verdict-when-not-human-readable"), || format!("keys {:?}: human readable {}, not human readable {}", st.iter().map(|k| keys4[*k]).collect::<Vec<_>>(), if a.is_ok() { "accepted" } else { "rejected" }, if b.is_ok() { "accepted" } else { "rejected" }));
                }
            }
            let res = match res {
                Ok(r) => r,
                Err(p) => {
                    ctx.fail(&key("protocol/no-panic"), || format!("deserializing keys {:?} panicked: {p}", st.iter().map(|k| keys4[*k]).collect::<Vec<_>>()));
                    return;
                }
            };
            // reference automaton
            let unknown = st.iter().any(|k| *k >= 3);
            let all = [0, 1, 2].iter().all(|k| st.contains(k));
            let dup = (0..3).any(|k| st.iter().filter(|x| **x == k).count() > 1);
            ctx.t();
            let names: Vec<&str> = st.iter().map(|k| keys4[*k]).collect();
            if unknown {
                ctx.branch("rejected-unknown");
                if res.is_ok() {
                    ctx.fail(&key("protocol/unknown-field-rejected"), || format!("keys {:?} accepted although one is unknown", names));
                }
            } else if !all {
                ctx.branch("rejected-missing");
                if let Ok(v) = &res {
                    ctx.fail(&key("protocol/missing-field-rejected"), || format!("keys {:?} accepted with a field missing; value {:?}", names, v));
                }
            } else if !dup {
                ctx.branch("accepted");
                match &res {
                    Err(e) => ctx.fail(&key("protocol/any-order-accepted"), || format!("keys {:?} rejected: {e}", names)),
                    Ok(v) => {
                        let ok = v.scale == 2.5 && qa(v.rot) == [0.9, 0.1, 0.2, 0.3] && v3(v.disp) == [7.0, -8.0, 9.5];
                        if !ok {
                            ctx.fail(&key("protocol/any-order-same-value"), || format!("keys {:?} give {:?}", names, v));
                        }
                    }
                }
            } else {
                // duplicates: the statement does not define them; only "no panic" (checked above)
                ctx.branch("duplicate-not-judged");
            }
            // the same through JSON for the judged classes
            if !dup {
                let body: Vec<String> = st
                    .iter()
                    .map(|&k| match like(keys4[k]) {
                        "scale" => format!("\"{}\":2.5", keys4[k]),
                        "rot" => format!("\"{}\":{{\"v\":{{\"x\":0.1,\"y\":0.2,\"z\":0.3}},\"s\":0.9}}", keys4[k]),
                        "disp" => format!("\"{}\":{{\"x\":7.0,\"y\":-8.0,\"z\":9.5}}", keys4[k]),
                        _ => format!("\"{}\":1.0", keys4[k]),
                    })
                    .collect();
                let js = format!("{{{}}}", body.join(","));
                let jr: Result<D, _> = serde_json::from_str(&js);
                ctx.t();
                if jr.is_ok() != (!unknown && all) {
                    ctx.fail(&key("protocol/json"), || format!("JSON {js}: {}", if jr.is_ok() { "accepted" } else { "rejected" }));
                }
                // ... and through a buffered document (serde_json::Value: keys in sorted order, every entry handed over as a
                // whole - what untagged enums, flattened records and `from_value` use)
                if let Ok(val) = serde_json::from_str::<serde_json::Value>(&js) {
                    let distinct = { let mut n: Vec<&str> = st.iter().map(|k| keys4[*k]).collect(); n.sort(); n.dedup(); n.len() == st.len() };
                    if distinct {
                        let vr: Result<D, _> = serde_json::from_value(val);
                        ctx.t();
                        if vr.is_ok() != (!unknown && all) {
                            ctx.fail(&key("protocol/json-value"), || format!("from_value of {js}: {}", if vr.is_ok() { "accepted" } else { "rejected" }));
                        }
                    }
                }
            }
        },
        |st| format!("keys {:?}", st.iter().map(|k| keys4[*k]).collect::<Vec<_>>()),
    );
}

// ------------------------------------------------------------------ a Decomposed inside somebody else's record
/// the way a Decomposed is usually stored: as part of a larger record, flattened into it, next to keys it does not own
/// (serde buffers such a record and replays it to the inner Deserialize impl)
#[derive(serde::Serialize, serde::Deserialize, Debug, PartialEq)]
struct Node {
    name: String,
    #[serde(flatten)]
    xf: Decomposed<Vector3<f64>, Quaternion<f64>>,
    #[serde(flatten)]
    extra: std::collections::BTreeMap<String, f64>,
}
#[derive(serde::Serialize, serde::Deserialize, Debug, PartialEq)]
struct Node2 {
    #[serde(flatten)]
    xf: Decomposed<Vector2<f32>, Basis2<f32>>,
    id: u32,
}
#[derive(serde::Serialize, serde::Deserialize, Debug, PartialEq)]
struct Nested {
    a: Decomposed<Vector3<f64>, Quaternion<f64>>,
    b: Vec<Decomposed<Vector3<f64>, Quaternion<f64>>>,
    c: Option<Decomposed<Vector3<f64>, Quaternion<f64>>>,
}
fn embedded(rep: &mut Report) {
    rep.cases("embedded", "S", "a Decomposed flattened into a record with 0, 1 or 2 keys of a sibling map, flattened next to an ordinary field, and as a field / list element / option of a record: JSON round trip", 3 + 2, Guard::states(5), |i, ctx| {
        ctx.out(&i);
        let g = |j: usize| f64::generic(j);
        let d = |o: usize| Decomposed { scale: g(o), rot: Quaternion::new(g(o + 1), g(o + 2), g(o + 3), g(o + 4)), disp: Vector3::new(g(o + 5), g(o + 6), g(o + 7)) };
        ctx.t();
        let res: Result<(), String> = (|| {
            if i < 3 {
                let mut extra = std::collections::BTreeMap::new();
                for k in 0..i {
                    extra.insert(["mass", "zeta"][k].to_string(), g(9 + k));
                }
                let n = Node { name: "n".into(), xf: d(0), extra };
                let js = serde_json::to_string(&n).map_err(|e| format!("serialize: {e}"))?;
                let back: Node = serde_json::from_str(&js).map_err(|e| format!("deserialize {js}: {e}"))?;
                if back != n { return Err(format!("{js} came back as {:?}", back)); }
            } else if i == 3 {
                let b: Basis2<f32> = cgmath::Rotation2::from_angle(Rad(0.7f32));
                let n = Node2 { xf: Decomposed { scale: 1.5, rot: b, disp: Vector2::new(0.25, -3.0) }, id: 7 };
                let js = serde_json::to_string(&n).map_err(|e| format!("serialize: {e}"))?;
                let back: Node2 = serde_json::from_str(&js).map_err(|e| format!("deserialize {js}: {e}"))?;
                if back != n { return Err(format!("{js} came back as {:?}", back)); }
            } else {
                let n = Nested { a: d(0), b: vec![d(3), d(5)], c: Some(d(8)) };
                let js = serde_json::to_string(&n).map_err(|e| format!("serialize: {e}"))?;
                let back: Nested = serde_json::from_str(&js).map_err(|e| format!("deserialize {js}: {e}"))?;
                if back != n { return Err(format!("{js} came back as {:?}", back)); }
            }
            Ok(())
        })();
        if let Err(e) = res {
            ctx.fail(&key("Decomposed/embedded/roundtrip"), || e);
        }
    });
}

fn main() {
    let mut rep = Report::from_args(P);
    rep.assume("two formats: the harness's own token format (records struct / field / newtype / bit-exact scalar tokens; replays arbitrary token lists into the real Deserialize impls) and serde_json with float_roundtrip; struct *names* are not part of the statement and not judged, nor is the name of Basis2/Basis3's private field");
    let f64c = float_configs::<f64>();
    let f32c = float_configs::<f32>();
    let i32c = configs::<i32>();
    roundtrip::<f64>(&mut rep, &f64c);
    roundtrip::<f32>(&mut rep, &f32c);
    roundtrip::<i32>(&mut rep, &i32c);
    protocol(&mut rep);
    embedded(&mut rep);
    std::process::exit(rep.finish());
}
