//! C16 — miri replay of the view machine (DESIGN 2.8): the same write/read views as `c16`,
//! explored by a plain breadth-first loop with no engine, no threads and no I/O, so that it can
//! run under `cargo +nightly miri run` (aliasing model off). miri aborts on out-of-bounds,
//! misaligned, uninitialised or invalid reads through the transmute / pointer-cast views; a
//! value mismatch is reported as well. An auxiliary oracle on executions the explorer
//! enumerates — not a different deciding technique.
use mc_props0::views::*;
use std::collections::HashSet;

fn run<V, E: El>(d: Desc<V, E>, depth: usize) -> (usize, usize) {
    let n = d.n;
    let init: Vec<u8> = (0..n as u8).collect();
    let mut seen: HashSet<Vec<u8>> = HashSet::new();
    seen.insert(init.clone());
    let mut frontier = vec![init];
    let mut transitions = 0usize;
    let check = |v: &V, model: &[u8], what: &str| {
        let want: Vec<E> = model.iter().map(|l| E::label(*l as usize)).collect();
        for (rname, rf) in &d.reads {
            let got = rf(v);
            if got != want {
                println!("MIRI-REPLAY MISMATCH {}: after {what}, view `{rname}` shows {:?}, contents are {:?}", d.name, got, want);
                std::process::exit(1);
            }
        }
    };
    for _ in 0..depth {
        let mut next = Vec::new();
        for st in &frontier {
            let vals: Vec<E> = st.iter().map(|l| E::label(*l as usize)).collect();
            for (wname, wf) in &d.writes {
                for i in 0..n {
                    let l = (n + (i + transitions) % 2) as u8;
                    let mut v = (d.mk)(&vals);
                    wf(&mut v, i, E::label(l as usize));
                    let mut model = st.clone();
                    model[i] = l;
                    check(&v, &model, wname);
                    transitions += 1;
                    if seen.insert(model.clone()) {
                        next.push(model);
                    }
                }
            }
            for (sname, sf) in &d.swaps {
                for i in 0..n {
                    for j in 0..n {
                        let mut v = (d.mk)(&vals);
                        sf(&mut v, i, j);
                        let mut model = st.clone();
                        model.swap(i, j);
                        check(&v, &model, sname);
                        transitions += 1;
                        if seen.insert(model.clone()) {
                            next.push(model);
                        }
                    }
                }
            }
        }
        // keep the replay small: continue from a few of the new states only
        next.truncate(3);
        frontier = next;
    }
    println!("  {:<28} states={} transitions={} read views={}", d.name, seen.len(), transitions, d.reads.len());
    (seen.len(), transitions)
}

fn main() {
    let mut tot = (0, 0);
    let mut add = |r: (usize, usize)| {
        tot.0 += r.0;
        tot.1 += r.1;
    };
    add(run(dn_v1::<u8>(), 2));
    add(run(dn_v2::<i16>(), 2));
    add(run(dn_v3::<i32>(), 2));
    add(run(dn_v4::<f32>(), 2));
    add(run(dn_p1::<u64>(), 2));
    add(run(dn_p2::<u8>(), 2));
    add(run(dn_p3::<f64>(), 2));
    add(run(dc_v3::<char>(), 2));
    add(run(d_p2::<Tag>(), 2));
    add(run(dc_v4::<&'static str>(), 1));
    add(run(d_m2::<u8>(), 2));
    add(run(d_m3::<i32>(), 1));
    add(run(df_m2::<f64>(), 2));
    add(run(df_m3::<f32>(), 1));
    add(run(df_m4::<f64>(), 1));
    add(run(d_m4::<bool>(), 1));
    add(run(d_q::<f64>(), 2));
    add(run(d_q::<i32>(), 1));
    add(run(d_q_any::<char>(), 2));
    println!("MIRI-REPLAY-OK states={} transitions={}", tot.0, tot.1);
}
