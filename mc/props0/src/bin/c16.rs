//! C16 — layout, indexing, conversions and swizzles preserve every component in order.
use cgmath::conv;
use cgmath::{Array, Matrix};
use mc_props::*;
use std::fmt::Debug;

const P: &str = "C16";
fn key(s: &str) -> String {
    format!("{P}/{s}")
}

/// element types with pairwise-distinct labelled values
trait El: Copy + PartialEq + Debug + Send + Sync + 'static {
    const NAME: &'static str;
    fn label(i: usize) -> Self;
}
macro_rules! el_num {
    ($($t:ty),*) => { $( impl El for $t { const NAME: &'static str = stringify!($t); fn label(i: usize) -> $t { (3 + 2 * i) as $t } } )* };
}
el_num!(u8, i16, i32, u64, usize, f32, f64);
impl El for char {
    const NAME: &'static str = "char";
    fn label(i: usize) -> char {
        (b'a' + i as u8) as char
    }
}
impl El for bool {
    const NAME: &'static str = "bool";
    fn label(i: usize) -> bool {
        i % 2 == 1
    }
}
impl El for &'static str {
    const NAME: &'static str = "&str";
    fn label(i: usize) -> &'static str {
        ["a0", "b1", "c2", "d3", "e4", "f5", "g6", "h7", "i8", "j9", "k10", "l11", "m12", "n13", "o14", "p15", "q16", "r17", "s18", "t19"][i]
    }
}
#[derive(Clone, Copy, PartialEq, Debug)]
struct Tag(u8, u8);
impl El for Tag {
    const NAME: &'static str = "Tag";
    fn label(i: usize) -> Tag {
        Tag(i as u8, 100 - i as u8)
    }
}

type ReadFn<V, E> = fn(&V) -> Vec<E>;
type WriteFn<V, E> = fn(&mut V, usize, E);
type SwapFn<V> = fn(&mut V, usize, usize);
struct Desc<V, E> {
    name: String,
    n: usize,
    mk: fn(&[E]) -> V,
    reads: Vec<(&'static str, ReadFn<V, E>)>,
    writes: Vec<(&'static str, WriteFn<V, E>)>,
    swaps: Vec<(&'static str, SwapFn<V>)>,
}

/// the view machine: BFS over contents; every write view followed by every read view
fn machine<V: Send + Sync + 'static, E: El>(rep: &mut Report, d: Desc<V, E>) {
    use std::sync::Arc;
    let depth = rep.pick(2, 3);
    let d = Arc::new(d);
    let n = d.n;
    let fresh = 2usize;
    let (nw, ns) = (d.writes.len(), d.swaps.len());
    let nact = nw * n * fresh + ns * n * n;
    let init: Vec<u8> = (0..n as u8).collect();
    fn read_all<V, E: El>(d: &Desc<V, E>, ctx: &mut Ctx, v: &V, model: &[u8], after: &str) {
        let want: Vec<E> = model.iter().map(|l| E::label(*l as usize)).collect();
        for (rname, rf) in &d.reads {
            ctx.t();
            let got = rf(v);
            if got != want {
                ctx.fail(&key(&format!("{}/read:{rname}", d.name.split('<').next().unwrap())), || format!("after {after}: view `{rname}` shows {:?}, contents are {:?}", got, want));
            }
        }
    }
    let d1 = d.clone();
    let step = Arc::new(move |st: &Vec<u8>, act: usize, ctx: &mut Ctx| -> Option<Vec<u8>> {
        let d = &d1;
        let vals: Vec<E> = st.iter().map(|l| E::label(*l as usize)).collect();
        let mut v = (d.mk)(&vals);
        let mut model = st.clone();
        let after;
        if act < nw * n * fresh {
            let (w, rest) = (act / (n * fresh), act % (n * fresh));
            let (i, l) = (rest / fresh, (n + rest % fresh) as u8);
            (d.writes[w].1)(&mut v, i, E::label(l as usize));
            model[i] = l;
            after = format!("write of {:?} at index {i} through `{}`", E::label(l as usize), d.writes[w].0);
            ctx.branch(d.writes[w].0);
        } else {
            let a = act - nw * n * fresh;
            let (s, rest) = (a / (n * n), a % (n * n));
            let (i, j) = (rest / n, rest % n);
            (d.swaps[s].1)(&mut v, i, j);
            model.swap(i, j);
            after = format!("`{}`({i},{j})", d.swaps[s].0);
            ctx.branch(d.swaps[s].0);
        }
        read_all(d, ctx, &v, &model, &after);
        if ctx.failed() {
            return None;
        }
        Some(model)
    });
    let (s1, d2) = (step.clone(), d.clone());
    rep.bfs(
        &format!("views/{}", d.name),
        "L",
        &format!("contents of {n} labelled components; {nw} write views x {n} indices x {fresh} fresh labels + {ns} swap operations x {n}^2 index pairs; {} read views after every step; depth {depth}", d.reads.len()),
        vec![init.clone()],
        nact,
        depth,
        Guard::states(3),
        move |st, act, ctx| s1(st, act, ctx),
        move |st, ctx| {
            ctx.out(st);
            let vals: Vec<E> = st.iter().map(|l| E::label(*l as usize)).collect();
            let v = (d2.mk)(&vals);
            read_all(&d2, ctx, &v, st, "construction");
        },
        |st| format!("{:?}", st),
    );
    // cross-check of the engine: the same transition function under stateright's own BFS
    if rep.replay.is_none() {
        if let Some((states, _)) = rep.last_counts() {
            let s2 = step.clone();
            let sr = mc_props0::stateright_states(vec![init], nact, depth, move |s: &Vec<u8>, a: usize| {
                let mut c = Ctx::scratch();
                let r = s2(s, a, &mut c);
                if c.failed() { None } else { r }
            });
            if sr as u64 != states {
                rep.machinery.push(format!("views/{}: engine cross-check failed: stateright reaches {sr} unique states, own BFS {states}", d.name));
            } else {
                rep.sr_agree += 1;
            }
        }
    }
}

// ------------------------------------------------------------------ descriptors
macro_rules! idx_match {
    ($i:expr, $e:expr, $t:expr; $($k:tt),+) => { match $i { $( $k => $t.$k = $e, )+ _ => unreachable!() } };
}
macro_rules! vec_like {
    ($fname:ident, $V:ident, $n:expr, [$($f:ident : $k:tt),+], $Tup:ty) => {
        fn $fname<E: El>() -> Desc<$V<E>, E> {
            let d: Desc<$V<E>, E> = Desc {
                name: format!("{}<{}>", stringify!($V), E::NAME),
                n: $n,
                mk: |c| $V { $($f: c[$k]),+ },
                reads: vec![
                    ("fields", |v| vec![$(v.$f),+]),
                    ("index", |v| (0..$n).map(|i| v[i]).collect()),
                    ("index[..]", |v| v[..].to_vec()),
                    ("index[0..n]", |v| v[0..$n].to_vec()),
                    ("index[..n]", |v| v[..$n].to_vec()),
                    ("index[i..] heads", |v| (0..$n).map(|i| v[i..][0]).collect()),
                    ("as_ref array", |v| { let a: &[E; $n] = v.as_ref(); a.to_vec() }),
                    ("as_ref tuple", |v| { let t: &$Tup = v.as_ref(); vec![$(t.$k),+] }),
                    ("into array", |v| { let a: [E; $n] = (*v).into(); a.to_vec() }),
                    ("into tuple", |v| { let t: $Tup = (*v).into(); vec![$(t.$k),+] }),
                    ("from array", |v| { let a = [$(v.$f),+]; let w: $V<E> = a.into(); vec![$(w.$f),+] }),
                    ("from tuple", |v| { let t: $Tup = ($(v.$f),+ ,); let w: $V<E> = t.into(); vec![$(w.$f),+] }),
                    ("from &array", |v| { let a = [$(v.$f),+]; let w: &$V<E> = (&a).into(); vec![$(w.$f),+] }),
                    ("from &tuple", |v| { let t: $Tup = ($(v.$f),+ ,); let w: &$V<E> = (&t).into(); vec![$(w.$f),+] }),
                    ("map identity", |v| { let w = v.map(|x| x); vec![$(w.$f),+] }),
                    ("clone", |v| { let w = v.clone(); vec![$(w.$f),+] }),
                ],
                writes: vec![
                    ("field", |v, i, e| idx_field!(v, i, e; $($f : $k),+)),
                    ("index_mut", |v, i, e| v[i] = e),
                    ("index_mut[..]", |v, i, e| v[..][i] = e),
                    ("index_mut[i..i+1]", |v, i, e| v[i..i + 1][0] = e),
                    ("index_mut[..i+1]", |v, i, e| v[..i + 1][i] = e),
                    ("index_mut[i..]", |v, i, e| v[i..][0] = e),
                    ("as_mut array", |v, i, e| { let a: &mut [E; $n] = v.as_mut(); a[i] = e; }),
                    ("as_mut tuple", |v, i, e| { let t: &mut $Tup = v.as_mut(); idx_match!(i, e, t; $($k),+) }),
                    ("from &mut array", |v, i, e| { let mut a = [$(v.$f),+]; { let w: &mut $V<E> = (&mut a).into(); idx_field!(w, i, e; $($f : $k),+); } *v = $V { $($f: a[$k]),+ }; }),
                    ("from &mut tuple", |v, i, e| { let mut t: $Tup = ($(v.$f),+ ,); { let w: &mut $V<E> = (&mut t).into(); idx_field!(w, i, e; $($f : $k),+); } *v = $V { $($f: t.$k),+ }; }),
                ],
                swaps: vec![],
            };
            d
        }
    };
}
macro_rules! idx_field {
    ($v:expr, $i:expr, $e:expr; $($f:ident : $k:tt),+) => { match $i { $( $k => $v.$f = $e, )+ _ => unreachable!() } };
}
macro_rules! with_mint {
    ($fname:ident, $base:ident, $V:ident, $M:ident, [$($f:ident),+]) => {
        fn $fname<E: El>() -> Desc<$V<E>, E> {
            let mut d = $base::<E>();
            d.reads.push(("into mint", |v| { let m: mint::$M<E> = (*v).into(); vec![$(m.$f),+] }));
            d.reads.push(("from mint", |v| { let m: mint::$M<E> = mint::$M { $($f: v.$f),+ }; let w: $V<E> = m.into(); vec![$(w.$f),+] }));
            d
        }
    };
}
vec_like!(d_v1, Vector1, 1, [x: 0], (E,));
vec_like!(d_v2_, Vector2, 2, [x: 0, y: 1], (E, E));
with_mint!(d_v2, d_v2_, Vector2, Vector2, [x, y]);
vec_like!(d_v3_, Vector3, 3, [x: 0, y: 1, z: 2], (E, E, E));
with_mint!(d_v3, d_v3_, Vector3, Vector3, [x, y, z]);
vec_like!(d_v4_, Vector4, 4, [x: 0, y: 1, z: 2, w: 3], (E, E, E, E));
with_mint!(d_v4, d_v4_, Vector4, Vector4, [x, y, z, w]);
vec_like!(d_p1, Point1, 1, [x: 0], (E,));
vec_like!(d_p2_, Point2, 2, [x: 0, y: 1], (E, E));
with_mint!(d_p2, d_p2_, Point2, Point2, [x, y]);
vec_like!(d_p3_, Point3, 3, [x: 0, y: 1, z: 2], (E, E, E));
with_mint!(d_p3, d_p3_, Point3, Point3, [x, y, z]);

/// views that exist only for numeric element types (Array trait, conv functions)
macro_rules! vec_num_extras {
    ($fname:ident, $base:ident, $V:ident, $n:expr, [$($f:ident),+] $(, conv: $cf:ident)?) => {
        fn $fname<E: El + cgmath::BaseNum>() -> Desc<$V<E>, E> {
            let mut d = $base::<E>();
            d.reads.push(("as_ptr", |v| { let p = Array::as_ptr(v); (0..$n).map(|i| unsafe { *p.add(i) }).collect() }));
            d.writes.push(("as_mut_ptr", |v, i, e| { let p = Array::as_mut_ptr(v); unsafe { *p.add(i) = e } }));
            d.swaps.push(("Array::swap_elements", |v, i, j| Array::swap_elements(v, i, j)));
            $( d.reads.push((concat!("conv::", stringify!($cf)), |v| conv::$cf(*v).to_vec())); )?
            d.reads.push(("len()", |v| { let l = <$V<E> as Array>::len(); if l == $n { vec![$(v.$f),+] } else { vec![] } }));
            d
        }
    };
}
vec_num_extras!(dn_v1, d_v1, Vector1, 1, [x]);
vec_num_extras!(dn_v2, d_v2, Vector2, 2, [x, y], conv: array2);
vec_num_extras!(dn_v3, d_v3, Vector3, 3, [x, y, z], conv: array3);
vec_num_extras!(dn_v4, d_v4, Vector4, 4, [x, y, z, w], conv: array4);
vec_num_extras!(dn_p1, d_p1, Point1, 1, [x]);
vec_num_extras!(dn_p2, d_p2, Point2, 2, [x, y], conv: array2);
vec_num_extras!(dn_p3, d_p3, Point3, 3, [x, y, z], conv: array3);

fn fieldw_m2<E: El>(m: &mut Matrix2<E>, i: usize, e: E) {
    match i {
        0 => m.x.x = e,
        1 => m.x.y = e,
        2 => m.y.x = e,
        _ => m.y.y = e,
    }
}
fn fieldw_m3<E: El>(m: &mut Matrix3<E>, i: usize, e: E) {
    let col = match i / 3 {
        0 => &mut m.x,
        1 => &mut m.y,
        _ => &mut m.z,
    };
    match i % 3 {
        0 => col.x = e,
        1 => col.y = e,
        _ => col.z = e,
    }
}
fn fieldw_m4<E: El>(m: &mut Matrix4<E>, i: usize, e: E) {
    let col = match i / 4 {
        0 => &mut m.x,
        1 => &mut m.y,
        2 => &mut m.z,
        _ => &mut m.w,
    };
    match i % 4 {
        0 => col.x = e,
        1 => col.y = e,
        2 => col.z = e,
        _ => col.w = e,
    }
}
macro_rules! mat_like {
    ($fname:ident, $M:ident, $n:expr, $nn:expr, $mk:ident, $arr:ident, $fieldw:ident, [$($c:ident),+], $Mint:ident, $convf:ident) => {
        fn $fname<E: El>() -> Desc<$M<E>, E> {
            Desc {
                name: format!("{}<{}>", stringify!($M), E::NAME),
                n: $nn,
                // flat column-major contents
                mk: |c| $mk(std::array::from_fn(|i| std::array::from_fn(|j| c[i * $n + j]))),
                reads: vec![
                    ("fields", |m| flat_m($arr(*m))),
                    ("index[c][r]", |m| { let mut o = Vec::new(); for c in 0..$n { for r in 0..$n { o.push(m[c][r]); } } o }),
                    ("as_ref nested", |m| { let a: &[[E; $n]; $n] = m.as_ref(); a.iter().flat_map(|c| c.iter().copied()).collect() }),
                    ("as_ref flat", |m| { let a: &[E; $nn] = m.as_ref(); a.to_vec() }),
                    ("into nested", |m| { let a: [[E; $n]; $n] = (*m).into(); a.iter().flat_map(|c| c.iter().copied()).collect() }),
                    ("conv::arrayNxN", |m| { let a = conv::$convf(*m); a.iter().flat_map(|c| c.iter().copied()).collect() }),
                    ("from nested", |m| { let w: $M<E> = $arr(*m).into(); flat_m($arr(w)) }),
                    ("from &nested", |m| { let a = $arr(*m); let w: &$M<E> = (&a).into(); flat_m($arr(*w)) }),
                    ("from &flat", |m| { let f = flat_m($arr(*m)); let a: [E; $nn] = std::array::from_fn(|i| f[i]); let w: &$M<E> = (&a).into(); flat_m($arr(*w)) }),
                    ("from_cols", |m| { let w = $M::from_cols($(m.$c),+); flat_m($arr(w)) }),
                    ("into mint", |m| { let mm: mint::$Mint<E> = (*m).into(); let cols = [$(mm.$c),+]; cols.iter().flat_map(|c| { let a: [E; $n] = (*c).into(); a.to_vec() }).collect() }),
                    ("mint round trip", |m| { let mm: mint::$Mint<E> = (*m).into(); let back: $M<E> = mm.into(); flat_m($arr(back)) }),
                    ("clone", |m| flat_m($arr(m.clone()))),
                ],
                writes: vec![
                    ("field", $fieldw::<E>),
                    ("index_mut[c][r]", |m, i, e| m[i / $n][i % $n] = e),
                    ("as_mut nested", |m, i, e| { let a: &mut [[E; $n]; $n] = m.as_mut(); a[i / $n][i % $n] = e; }),
                    ("as_mut flat", |m, i, e| { let a: &mut [E; $nn] = m.as_mut(); a[i] = e; }),
                    ("from &mut nested", |m, i, e| { let mut a = $arr(*m); { let w: &mut $M<E> = (&mut a).into(); w[i / $n][i % $n] = e; } *m = $mk(a); }),
                    ("from &mut flat", |m, i, e| { let f = flat_m($arr(*m)); let mut a: [E; $nn] = std::array::from_fn(|k| f[k]); { let w: &mut $M<E> = (&mut a).into(); w[i / $n][i % $n] = e; } *m = $mk(std::array::from_fn(|c| std::array::from_fn(|r| a[c * $n + r]))); }),
                ],
                swaps: vec![],
            }
        }
    };
}
mat_like!(d_m2, Matrix2, 2, 4, mk_m2, m2, fieldw_m2, [x, y], ColumnMatrix2, array2x2);
mat_like!(d_m3, Matrix3, 3, 9, mk_m3, m3, fieldw_m3, [x, y, z], ColumnMatrix3, array3x3);
mat_like!(d_m4, Matrix4, 4, 16, mk_m4, m4, fieldw_m4, [x, y, z, w], ColumnMatrix4, array4x4);

macro_rules! mat_float_extras {
    ($fname:ident, $base:ident, $M:ident, $n:expr, $nn:expr) => {
        fn $fname<E: El + cgmath::BaseFloat>() -> Desc<$M<E>, E> {
            let mut d = $base::<E>();
            d.reads.push(("as_ptr", |m| { let p = Matrix::as_ptr(m); (0..$nn).map(|i| unsafe { *p.add(i) }).collect() }));
            d.reads.push(("row()", |m| { let mut cols = vec![Vec::new(); $n]; for r in 0..$n { let row = m.row(r); for c in 0..$n { cols[c].push(row[c]); } } cols.concat() }));
            d.writes.push(("as_mut_ptr", |m, i, e| { let p = Matrix::as_mut_ptr(m); unsafe { *p.add(i) = e } }));
            d.writes.push(("replace_col", |m, i, e| { let mut col = m[i / $n]; col[i % $n] = e; let _ = m.replace_col(i / $n, col); }));
            d.swaps.push(("Matrix::swap_elements", |m, i, j| Matrix::swap_elements(m, (i / $n, i % $n), (j / $n, j % $n))));
            d
        }
    };
}
mat_float_extras!(df_m2, d_m2, Matrix2, 2, 4);
mat_float_extras!(df_m3, d_m3, Matrix3, 3, 9);
mat_float_extras!(df_m4, d_m4, Matrix4, 4, 16);

/// Quaternion: field order x, y, z, then the scalar part; new() takes the scalar first
fn d_q<E: El + cgmath::BaseNum>() -> Desc<Quaternion<E>, E> {
    type T4<E> = (E, E, E, E);
    Desc {
        name: format!("Quaternion<{}>", E::NAME),
        n: 4,
        mk: |c| Quaternion { v: Vector3 { x: c[0], y: c[1], z: c[2] }, s: c[3] },
        reads: vec![
            ("fields", |q| vec![q.v.x, q.v.y, q.v.z, q.s]),
            ("index", |q| (0..4).map(|i| q[i]).collect()),
            ("index[..]", |q| q[..].to_vec()),
            ("index[0..4]", |q| q[0..4].to_vec()),
            ("index[..4]", |q| q[..4].to_vec()),
            ("index[i..] heads", |q| (0..4).map(|i| q[i..][0]).collect()),
            ("as_ref array", |q| { let a: &[E; 4] = q.as_ref(); a.to_vec() }),
            ("as_ref tuple", |q| { let t: &T4<E> = q.as_ref(); vec![t.0, t.1, t.2, t.3] }),
            ("into array", |q| { let a: [E; 4] = (*q).into(); a.to_vec() }),
            ("into tuple", |q| { let t: T4<E> = (*q).into(); vec![t.0, t.1, t.2, t.3] }),
            ("conv::array4", |q| conv::array4(*q).to_vec()),
            ("from array", |q| { let w: Quaternion<E> = [q.v.x, q.v.y, q.v.z, q.s].into(); vec![w.v.x, w.v.y, w.v.z, w.s] }),
            ("from tuple", |q| { let w: Quaternion<E> = (q.v.x, q.v.y, q.v.z, q.s).into(); vec![w.v.x, w.v.y, w.v.z, w.s] }),
            ("from &array", |q| { let a = [q.v.x, q.v.y, q.v.z, q.s]; let w: &Quaternion<E> = (&a).into(); vec![w.v.x, w.v.y, w.v.z, w.s] }),
            ("from &tuple", |q| { let t = (q.v.x, q.v.y, q.v.z, q.s); let w: &Quaternion<E> = (&t).into(); vec![w.v.x, w.v.y, w.v.z, w.s] }),
            ("new (scalar first)", |q| { let w = Quaternion::new(q.s, q.v.x, q.v.y, q.v.z); vec![w.v.x, w.v.y, w.v.z, w.s] }),
            ("from_sv", |q| { let w = Quaternion::from_sv(q.s, q.v); vec![w.v.x, w.v.y, w.v.z, w.s] }),
            ("mint", |q| { let m: mint::Quaternion<E> = (*q).into(); let direct = vec![m.v.x, m.v.y, m.v.z, m.s]; let m2: mint::Quaternion<E> = (*q).into(); let back: Quaternion<E> = m2.into(); if vec![back.v.x, back.v.y, back.v.z, back.s] == direct { direct } else { vec![] } }),
        ],
        writes: vec![
            ("field", |q, i, e| match i { 0 => q.v.x = e, 1 => q.v.y = e, 2 => q.v.z = e, _ => q.s = e }),
            ("index_mut", |q, i, e| q[i] = e),
            ("index_mut[..]", |q, i, e| q[..][i] = e),
            ("index_mut[i..i+1]", |q, i, e| q[i..i + 1][0] = e),
            ("index_mut[..i+1]", |q, i, e| q[..i + 1][i] = e),
            ("index_mut[i..]", |q, i, e| q[i..][0] = e),
            ("as_mut array", |q, i, e| { let a: &mut [E; 4] = q.as_mut(); a[i] = e; }),
            ("as_mut tuple", |q, i, e| { let t: &mut T4<E> = q.as_mut(); match i { 0 => t.0 = e, 1 => t.1 = e, 2 => t.2 = e, _ => t.3 = e } }),
            ("from &mut array", |q, i, e| { let mut a = [q.v.x, q.v.y, q.v.z, q.s]; { let w: &mut Quaternion<E> = (&mut a).into(); w[i] = e; } *q = Quaternion { v: Vector3 { x: a[0], y: a[1], z: a[2] }, s: a[3] }; }),
            ("from &mut tuple", |q, i, e| { let mut t = (q.v.x, q.v.y, q.v.z, q.s); { let w: &mut Quaternion<E> = (&mut t).into(); w[i] = e; } *q = Quaternion { v: Vector3 { x: t.0, y: t.1, z: t.2 }, s: t.3 }; }),
        ],
        swaps: vec![],
    }
}
/// Quaternion over non-numeric elements: construction, fields and mint only
fn d_q_any<E: El>() -> Desc<Quaternion<E>, E> {
    Desc {
        name: format!("Quaternion<{}>", E::NAME),
        n: 4,
        mk: |c| Quaternion { v: Vector3 { x: c[0], y: c[1], z: c[2] }, s: c[3] },
        reads: vec![
            ("fields", |q| vec![q.v.x, q.v.y, q.v.z, q.s]),
            ("new (scalar first)", |q| { let w = Quaternion::new(q.s, q.v.x, q.v.y, q.v.z); vec![w.v.x, w.v.y, w.v.z, w.s] }),
            ("from_sv", |q| { let w = Quaternion::from_sv(q.s, q.v); vec![w.v.x, w.v.y, w.v.z, w.s] }),
            ("mint", |q| { let m: mint::Quaternion<E> = (*q).into(); vec![m.v.x, m.v.y, m.v.z, m.s] }),
        ],
        writes: vec![("field", |q, i, e| match i { 0 => q.v.x = e, 1 => q.v.y = e, 2 => q.v.z = e, _ => q.s = e })],
        swaps: vec![],
    }
}

fn any_elem<E: El>(rep: &mut Report) {
    machine(rep, d_v1::<E>());
    machine(rep, d_v2::<E>());
    machine(rep, d_v3::<E>());
    machine(rep, d_v4::<E>());
    machine(rep, d_p1::<E>());
    machine(rep, d_p2::<E>());
    machine(rep, d_p3::<E>());
    machine(rep, d_m2::<E>());
    machine(rep, d_m3::<E>());
    machine(rep, d_m4::<E>());
    machine(rep, d_q_any::<E>());
}
fn num_elem<E: El + cgmath::BaseNum>(rep: &mut Report) {
    machine(rep, dn_v1::<E>());
    machine(rep, dn_v2::<E>());
    machine(rep, dn_v3::<E>());
    machine(rep, dn_v4::<E>());
    machine(rep, dn_p1::<E>());
    machine(rep, dn_p2::<E>());
    machine(rep, dn_p3::<E>());
    machine(rep, d_q::<E>());
}
fn int_mats<E: El>(rep: &mut Report) {
    machine(rep, d_m2::<E>());
    machine(rep, d_m3::<E>());
    machine(rep, d_m4::<E>());
}
fn float_mats<E: El + cgmath::BaseFloat>(rep: &mut Report) {
    machine(rep, df_m2::<E>());
    machine(rep, df_m3::<E>());
    machine(rep, df_m4::<E>());
}

// ------------------------------------------------------------------ out-of-range indices
fn index_panics(rep: &mut Report) {
    type Probe = (&'static str, usize, Box<dyn Fn(usize) -> bool + Send + Sync>);
    // each probe: (type/view, n, f(index) -> panicked?)
    let mut probes: Vec<Probe> = Vec::new();
    macro_rules! vecs {
        ($V:ident, $n:expr, $mk:expr) => {
            probes.push((concat!(stringify!($V), "/index"), $n, Box::new(|i| panics(|| { let v = $mk; v[i] }))));
            probes.push((concat!(stringify!($V), "/index_mut"), $n, Box::new(|i| panics(|| { let mut v = $mk; v[i] = 9; }))));
            probes.push((concat!(stringify!($V), "/index[0..i+1]"), $n, Box::new(|i| i == usize::MAX || panics(|| { let v = $mk; v[0..i + 1].len() }))));
            probes.push((concat!(stringify!($V), "/index[i+1..]"), $n, Box::new(|i| i == usize::MAX || panics(|| { let v = $mk; v[i + 1..].len() }))));
            probes.push((concat!(stringify!($V), "/index[..i+1]"), $n, Box::new(|i| i == usize::MAX || panics(|| { let v = $mk; v[..i + 1].len() }))));
            probes.push((concat!(stringify!($V), "/index_mut[i..]"), $n, Box::new(|i| i == $n || panics(|| { let mut v = $mk; v[i..][0] = 9; }))));
        };
    }
    vecs!(Vector1, 1, Vector1::new(1));
    vecs!(Vector2, 2, Vector2::new(1, 2));
    vecs!(Vector3, 3, Vector3::new(1, 2, 3));
    vecs!(Vector4, 4, Vector4::new(1, 2, 3, 4));
    vecs!(Point1, 1, Point1::new(1));
    vecs!(Point2, 2, Point2::new(1, 2));
    vecs!(Point3, 3, Point3::new(1, 2, 3));
    vecs!(Quaternion, 4, Quaternion::new(1, 2, 3, 4));
    probes.push(("Matrix2/index", 2, Box::new(|i| panics(|| Matrix2::new(1, 2, 3, 4)[i]))));
    probes.push(("Matrix2/index[0][i]", 2, Box::new(|i| panics(|| Matrix2::new(1, 2, 3, 4)[0][i]))));
    probes.push(("Matrix2/index_mut", 2, Box::new(|i| panics(|| { let mut m = Matrix2::new(1, 2, 3, 4); m[i] = Vector2::new(0, 0); }))));
    probes.push(("Matrix3/index", 3, Box::new(|i| panics(|| Matrix3::new(1, 2, 3, 4, 5, 6, 7, 8, 9)[i]))));
    probes.push(("Matrix3/index[0][i]", 3, Box::new(|i| panics(|| Matrix3::new(1, 2, 3, 4, 5, 6, 7, 8, 9)[0][i]))));
    probes.push(("Matrix3/index_mut", 3, Box::new(|i| panics(|| { let mut m = Matrix3::new(1, 2, 3, 4, 5, 6, 7, 8, 9); m[i] = Vector3::new(0, 0, 0); }))));
    probes.push(("Matrix4/index", 4, Box::new(|i| panics(|| Matrix4::new(1, 2, 3, 4, 5, 6, 7, 8, 9, 10, 11, 12, 13, 14, 15, 16)[i]))));
    probes.push(("Matrix4/index[0][i]", 4, Box::new(|i| panics(|| Matrix4::new(1, 2, 3, 4, 5, 6, 7, 8, 9, 10, 11, 12, 13, 14, 15, 16)[0][i]))));
    probes.push(("Matrix4/index_mut", 4, Box::new(|i| panics(|| { let mut m = Matrix4::new(1, 2, 3, 4, 5, 6, 7, 8, 9, 10, 11, 12, 13, 14, 15, 16); m[i] = Vector4::new(0, 0, 0, 0); }))));
    probes.push(("Matrix4<f64>/row", 4, Box::new(|i| panics(|| Matrix4::<f64>::from_value(1.0).row(i)))));
    probes.push(("Matrix3<f64>/swap_rows", 3, Box::new(|i| panics(|| { let mut m = Matrix3::<f64>::from_value(1.0); m.swap_rows(0, i); }))));
    probes.push(("Matrix3<f64>/swap_columns", 3, Box::new(|i| panics(|| { let mut m = Matrix3::<f64>::from_value(1.0); m.swap_columns(0, i); }))));
    probes.push(("Vector3/swap_elements", 3, Box::new(|i| panics(|| { let mut v = Vector3::new(1, 2, 3); Array::swap_elements(&mut v, 0, i); }))));
    let np = probes.len();
    rep.cases(
        "index-panics",
        "L",
        &format!("{np} index views x indices {{n, n+1, usize::MAX}} must panic, and every in-range index must not"),
        np * 4,
        Guard::states(100).distinct(2).need("in-range", 30).need("out-of-range", 90),
        |i, ctx| {
            let (pi, which) = (i / 4, i % 4);
            let (name, n, f) = &probes[pi];
            let idx = match which {
                0 => n - 1,
                1 => *n,
                2 => n + 1,
                _ => usize::MAX,
            };
            ctx.describe(|| format!("{name} with index {idx} (n = {n})"));
            ctx.out(&(pi, which));
            let panicked = f(idx);
            if which == 0 {
                ctx.branch("in-range");
                // range probes built from i+1 are out of range already at i = n-1 for [i+1..] only when i+1 > n: not the case
                let expect_panic = false;
                let _ = expect_panic;
                if name.contains("[0..i+1]") || name.contains("[..i+1]") || name.contains("[i+1..]") || name.contains("index_mut[i..]") {
                    ctx.check(!panicked, &key(&format!("in-range-index-ok/{name}")), || format!("{name} panicked for the in-range index {idx}"));
                } else {
                    ctx.check(!panicked, &key(&format!("in-range-index-ok/{name}")), || format!("{name} panicked for the in-range index {idx}"));
                }
            } else {
                ctx.branch("out-of-range");
                ctx.check(panicked, &key(&format!("out-of-range-panics/{name}")), || format!("{name} did not panic for index {idx} (n = {n})"));
            }
        },
    );
    rep.cases("truncate_n-panics", "L", "Vector4::truncate_n(k) for k in -2..=5: panics exactly outside 0..=3", 8, Guard::states(8), |i, ctx| {
        let k = i as isize - 2;
        ctx.describe(|| format!("truncate_n({k})"));
        ctx.out(&k);
        let p = panics(|| Vector4::new(1, 2, 3, 4).truncate_n(k));
        ctx.check(p == !(0..=3).contains(&k), &key("truncate_n/panics-outside-0..=3"), || format!("truncate_n({k}) {}", if p { "panicked" } else { "did not panic" }));
    });
}

// ------------------------------------------------------------------ shape operations
fn shape<E: El + cgmath::BaseNum>(rep: &mut Report) {
    rep.cases(&format!("shape/{}", E::NAME), "L", "map, zip, from_value, extend, truncate, truncate_n(0..3), constructors, on labelled values", 1, Guard::states(1), |_, ctx| {
        let l = |i: usize| E::label(i);
        ctx.describe(|| format!("labelled values over {}", E::NAME));
        ctx.out(&E::NAME);
        let mut eq = |name: &str, got: Vec<E>, want: Vec<E>| {
            ctx.t();
            if got != want {
                ctx.fail(&key(&format!("shape/{name}")), || format!("{name}: got {:?}, expected {:?}", got, want));
            }
        };
        let v4c = Vector4::new(l(0), l(1), l(2), l(3));
        let v3c = Vector3::new(l(0), l(1), l(2));
        let v2c = Vector2::new(l(0), l(1));
        eq("Vector4::new", vec![v4c.x, v4c.y, v4c.z, v4c.w], vec![l(0), l(1), l(2), l(3)]);
        eq("Vector3::new", vec![v3c.x, v3c.y, v3c.z], vec![l(0), l(1), l(2)]);
        eq("vec4()", { let v = cgmath::vec4(l(0), l(1), l(2), l(3)); vec![v.x, v.y, v.z, v.w] }, vec![l(0), l(1), l(2), l(3)]);
        eq("vec3()", { let v = cgmath::vec3(l(0), l(1), l(2)); vec![v.x, v.y, v.z] }, vec![l(0), l(1), l(2)]);
        eq("vec2()", { let v = cgmath::vec2(l(0), l(1)); vec![v.x, v.y] }, vec![l(0), l(1)]);
        eq("point3()", { let v = cgmath::point3(l(0), l(1), l(2)); vec![v.x, v.y, v.z] }, vec![l(0), l(1), l(2)]);
        eq("point2()", { let v = cgmath::point2(l(0), l(1)); vec![v.x, v.y] }, vec![l(0), l(1)]);
        eq("Vector2::extend", { let v = v2c.extend(l(7)); vec![v.x, v.y, v.z] }, vec![l(0), l(1), l(7)]);
        eq("Vector3::extend", { let v = v3c.extend(l(7)); vec![v.x, v.y, v.z, v.w] }, vec![l(0), l(1), l(2), l(7)]);
        eq("Vector3::truncate", { let v = v3c.truncate(); vec![v.x, v.y] }, vec![l(0), l(1)]);
        eq("Vector4::truncate", { let v = v4c.truncate(); vec![v.x, v.y, v.z] }, vec![l(0), l(1), l(2)]);
        for k in 0..4usize {
            let want: Vec<E> = (0..4).filter(|j| *j != k).map(l).collect();
            eq(&format!("Vector4::truncate_n({k})"), { let v = v4c.truncate_n(k as isize); vec![v.x, v.y, v.z] }, want);
        }
        eq("Vector4::from_value", { let v = Vector4::from_value(l(5)); vec![v.x, v.y, v.z, v.w] }, vec![l(5); 4]);
        eq("Vector3::from_value", { let v = Vector3::from_value(l(5)); vec![v.x, v.y, v.z] }, vec![l(5); 3]);
        eq("Point3::from_value", { let v = Point3::from_value(l(5)); vec![v.x, v.y, v.z] }, vec![l(5); 3]);
        // map / zip keep positions (the closure sees the components in order)
        let mut seen = Vec::new();
        let m = v4c.map(|x| { seen.push(x); x });
        eq("Vector4::map/order", seen, vec![l(0), l(1), l(2), l(3)]);
        eq("Vector4::map", vec![m.x, m.y, m.z, m.w], vec![l(0), l(1), l(2), l(3)]);
        let other = Vector4::new(l(4), l(5), l(6), l(7));
        let z = v4c.zip(other, |a, b| (a, b));
        ctx.t();
        if [z.x, z.y, z.z, z.w] != [(l(0), l(4)), (l(1), l(5)), (l(2), l(6)), (l(3), l(7))] {
            ctx.fail(&key("shape/Vector4::zip"), || format!("zip pairs {:?}", [z.x, z.y, z.z, z.w]));
        }
        let p = Point3::new(l(0), l(1), l(2)).zip(Point3::new(l(4), l(5), l(6)), |a, b| (a, b));
        ctx.t();
        if [p.x, p.y, p.z] != [(l(0), l(4)), (l(1), l(5)), (l(2), l(6))] {
            ctx.fail(&key("shape/Point3::zip"), || format!("zip pairs {:?}", [p.x, p.y, p.z]));
        }
        // Quaternion::new takes the scalar first; arrays and tuples carry it last
        let q = Quaternion::new(l(3), l(0), l(1), l(2));
        let a: [E; 4] = q.into();
        ctx.t();
        if a != [l(0), l(1), l(2), l(3)] {
            ctx.fail(&key("shape/Quaternion::new-vs-array"), || format!("Quaternion::new(s, x, y, z) as array = {:?}", a));
        }
    });
}

include!(concat!(env!("OUT_DIR"), "/swizzle_table.rs"));

fn swizzles(rep: &mut Report) {
    macro_rules! run_table {
        ($name:expr, $table:expr, $mk:expr, $n:expr, $letters:expr) => {{
            let table = $table;
            let total = table.len();
            rep.cases(
                $name,
                "L",
                &format!("every word of length 1..{} over the letters `{}`: {total} accessors", if $name.starts_with("swizzle/Point") { 3 } else { 4 }, $letters),
                total,
                Guard::states(3).distinct(3),
                |i, ctx| {
                    let (word, f) = table[i];
                    ctx.describe(|| format!("{}.{word}()", $name));
                    ctx.out(&word);
                    let v = $mk;
                    let got = f(&v);
                    let comps: Vec<i32> = (0..$n).map(|k| 10 + 7 * k as i32).collect();
                    let want: Vec<i32> = word.chars().map(|c| comps[$letters.find(c).unwrap()]).collect();
                    ctx.check(got == want, &key(&format!("{}/names-the-components", $name)), || format!("{word}() = {:?}, expected {:?} (dimension {})", got, want, word.len()));
                },
            );
            total
        }};
    }
    let mut total = 0;
    total += run_table!("swizzle/Vector1", swizzle_vector1(), Vector1::new(10), 1, "x");
    total += run_table!("swizzle/Vector2", swizzle_vector2(), Vector2::new(10, 17), 2, "xy");
    total += run_table!("swizzle/Vector3", swizzle_vector3(), Vector3::new(10, 17, 24), 3, "xyz");
    total += run_table!("swizzle/Vector4", swizzle_vector4(), Vector4::new(10, 17, 24, 31), 4, "xyzw");
    total += run_table!("swizzle/Point1", swizzle_point1(), Point1::new(10), 1, "x");
    total += run_table!("swizzle/Point2", swizzle_point2(), Point2::new(10, 17), 2, "xy");
    total += run_table!("swizzle/Point3", swizzle_point3(), Point3::new(10, 17, 24), 3, "xyz");
    if rep.replay.is_none() && total != 550 {
        rep.machinery.push(format!("swizzle table has {total} entries, expected 550"));
    }
}

fn main() {
    let mut rep = Report::from_args(P);
    rep.assume("element types: u8, i16, i32, u64, usize, f32, f64 for every view; char, bool, &'static str and a two-field struct for the views that exist without numeric bounds; components carry pairwise-distinct labels (bool: alternating)");
    rep.assume("the 550 swizzle accessors are named by the harness's own build script (every word over the type's letters), independent of cgmath's generator; a missing accessor is a build failure reported as a violation by the driver");
    any_elem::<char>(&mut rep);
    any_elem::<bool>(&mut rep);
    any_elem::<&'static str>(&mut rep);
    any_elem::<Tag>(&mut rep);
    num_elem::<u8>(&mut rep);
    num_elem::<i16>(&mut rep);
    num_elem::<i32>(&mut rep);
    num_elem::<u64>(&mut rep);
    num_elem::<usize>(&mut rep);
    num_elem::<f32>(&mut rep);
    num_elem::<f64>(&mut rep);
    int_mats::<u8>(&mut rep);
    int_mats::<i32>(&mut rep);
    int_mats::<u64>(&mut rep);
    float_mats::<f32>(&mut rep);
    float_mats::<f64>(&mut rep);
    index_panics(&mut rep);
    shape::<u8>(&mut rep);
    shape::<i32>(&mut rep);
    shape::<u64>(&mut rep);
    shape::<f32>(&mut rep);
    shape::<f64>(&mut rep);
    swizzles(&mut rep);
    let n = rep.sr_agree;
    rep.note(format!("{n} view machines cross-checked: stateright 0.31 (single-threaded BFS over the same transition function) reaches the same number of unique states as the own engine"));
    std::process::exit(rep.finish());
}
