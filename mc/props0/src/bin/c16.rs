//! C16 — layout, indexing, conversions and swizzles preserve every component in order.
use cgmath::{Array, Matrix};
use mc_props::*;

const P: &str = "C16";
fn key(s: &str) -> String {
    format!("{P}/{s}")
}

use mc_props0::views::*;

/// the view machine: BFS over contents; every write view followed by every read view
fn machine<V: Send + Sync + 'static, E: El>(rep: &mut Report, d: Desc<V, E>) {
    use std::sync::Arc;
    let depth = rep.pick(2, 3);
    let d = Arc::new(d);
    let n = d.n;
    let fresh = 2usize;
    let (nw, ns) = (d.writes.len(), d.swaps.len());
    let nact = nw * n * fresh + ns * n * n;
    let init: Vec<u8> = (0..n as u8).collect();
    fn read_all<V, E: El>(d: &Desc<V, E>, ctx: &mut Ctx, v: &V, model: &[u8], after: &str) {
        let want: Vec<E> = model.iter().map(|l| E::label(*l as usize)).collect();
        for (rname, rf) in &d.reads {
            ctx.t();
            let got = rf(v);
            if got != want {
                ctx.fail(&key(&format!("{}/read:{rname}", d.name.split('<').next().unwrap())), || format!("after {after}: view `{rname}` shows {:?}, contents are {:?}", got, want));
            }
        }
    }
    let d1 = d.clone();
    let step = Arc::new(move |st: &Vec<u8>, act: usize, ctx: &mut Ctx| -> Option<Vec<u8>> {
        let d = &d1;
        let vals: Vec<E> = st.iter().map(|l| E::label(*l as usize)).collect();
        let mut v = (d.mk)(&vals);
        let mut model = st.clone();
        let after;
        if act < nw * n * fresh {
            let (w, rest) = (act / (n * fresh), act % (n * fresh));
            let (i, l) = (rest / fresh, (n + rest % fresh) as u8);
            (d.writes[w].1)(&mut v, i, E::label(l as usize));
            model[i] = l;
            after = format!("write of {:?} at index {i} through `{}`", E::label(l as usize), d.writes[w].0);
            ctx.branch(d.writes[w].0);
        } else {
            let a = act - nw * n * fresh;
            let (s, rest) = (a / (n * n), a % (n * n));
            let (i, j) = (rest / n, rest % n);
            (d.swaps[s].1)(&mut v, i, j);
            model.swap(i, j);
            after = format!("`{}`({i},{j})", d.swaps[s].0);
            ctx.branch(d.swaps[s].0);
        }
        read_all(d, ctx, &v, &model, &after);
        if ctx.failed() {
            return None;
        }
        Some(model)
    });
    let (s1, d2) = (step.clone(), d.clone());
    rep.bfs(
        &format!("views/{}", d.name),
        "L",
        &format!("contents of {n} labelled components; {nw} write views x {n} indices x {fresh} fresh labels + {ns} swap operations x {n}^2 index pairs; {} read views after every step; depth {depth}", d.reads.len()),
        vec![init.clone()],
        nact,
        depth,
        Guard::states(3),
        move |st, act, ctx| s1(st, act, ctx),
        move |st, ctx| {
            ctx.out(st);
            let vals: Vec<E> = st.iter().map(|l| E::label(*l as usize)).collect();
            let v = (d2.mk)(&vals);
            read_all(&d2, ctx, &v, st, "construction");
        },
        |st| format!("{:?}", st),
    );
    // cross-check of the engine: the same transition function under stateright's own BFS
    if rep.replay.is_none() {
        if let Some((states, _)) = rep.last_counts() {
            let s2 = step.clone();
            let sr = mc_props0::stateright_states(vec![init], nact, depth, move |s: &Vec<u8>, a: usize| {
                let mut c = Ctx::scratch();
                let r = s2(s, a, &mut c);
                if c.failed() { None } else { r }
            });
            if sr as u64 != states {
                rep.machinery.push(format!("views/{}: engine cross-check failed: stateright reaches {sr} unique states, own BFS {states}", d.name));
            } else {
                rep.sr_agree += 1;
            }
        }
    }
}

fn any_elem<E: El>(rep: &mut Report) {
    machine(rep, dc_v1::<E>());
    machine(rep, dc_v2::<E>());
    machine(rep, dc_v3::<E>());
    machine(rep, dc_v4::<E>());
    machine(rep, d_p1::<E>());
    machine(rep, d_p2::<E>());
    machine(rep, d_p3::<E>());
    machine(rep, d_m2::<E>());
    machine(rep, d_m3::<E>());
    machine(rep, d_m4::<E>());
    machine(rep, d_q_any::<E>());
}
fn num_elem<E: El + cgmath::BaseNum>(rep: &mut Report) {
    machine(rep, dn_v1::<E>());
    machine(rep, dn_v2::<E>());
    machine(rep, dn_v3::<E>());
    machine(rep, dn_v4::<E>());
    machine(rep, dn_p1::<E>());
    machine(rep, dn_p2::<E>());
    machine(rep, dn_p3::<E>());
    machine(rep, d_q::<E>());
}
fn int_mats<E: El>(rep: &mut Report) {
    machine(rep, d_m2::<E>());
    machine(rep, d_m3::<E>());
    machine(rep, d_m4::<E>());
}
fn float_mats<E: El + cgmath::BaseFloat>(rep: &mut Report) {
    machine(rep, df_m2::<E>());
    machine(rep, df_m3::<E>());
    machine(rep, df_m4::<E>());
}

// ------------------------------------------------------------------ out-of-range indices
fn index_panics(rep: &mut Report) {
    type Probe = (&'static str, usize, Box<dyn Fn(usize) -> bool + Send + Sync>);
    // each probe: (type/view, n, f(index) -> panicked?)
    let mut probes: Vec<Probe> = Vec::new();
    macro_rules! vecs {
        ($V:ident, $n:expr, $mk:expr) => {
            probes.push((concat!(stringify!($V), "/index"), $n, Box::new(|i| panics(|| { let v = $mk; v[i] }))));
            probes.push((concat!(stringify!($V), "/index_mut"), $n, Box::new(|i| panics(|| { let mut v = $mk; v[i] = 9; }))));
            probes.push((concat!(stringify!($V), "/index[0..i+1]"), $n, Box::new(|i| i == usize::MAX || panics(|| { let v = $mk; v[0..i + 1].len() }))));
            probes.push((concat!(stringify!($V), "/index[i+1..]"), $n, Box::new(|i| i == usize::MAX || panics(|| { let v = $mk; v[i + 1..].len() }))));
            probes.push((concat!(stringify!($V), "/index[..i+1]"), $n, Box::new(|i| i == usize::MAX || panics(|| { let v = $mk; v[..i + 1].len() }))));
            probes.push((concat!(stringify!($V), "/index_mut[i..]"), $n, Box::new(|i| i == $n || panics(|| { let mut v = $mk; v[i..][0] = 9; }))));
        };
    }
    vecs!(Vector1, 1, Vector1::new(1));
    vecs!(Vector2, 2, Vector2::new(1, 2));
    vecs!(Vector3, 3, Vector3::new(1, 2, 3));
    vecs!(Vector4, 4, Vector4::new(1, 2, 3, 4));
    vecs!(Point1, 1, Point1::new(1));
    vecs!(Point2, 2, Point2::new(1, 2));
    vecs!(Point3, 3, Point3::new(1, 2, 3));
    vecs!(Quaternion, 4, Quaternion::new(1, 2, 3, 4));
    probes.push(("Matrix2/index", 2, Box::new(|i| panics(|| Matrix2::new(1, 2, 3, 4)[i]))));
    probes.push(("Matrix2/index[0][i]", 2, Box::new(|i| panics(|| Matrix2::new(1, 2, 3, 4)[0][i]))));
    probes.push(("Matrix2/index_mut", 2, Box::new(|i| panics(|| { let mut m = Matrix2::new(1, 2, 3, 4); m[i] = Vector2::new(0, 0); }))));
    probes.push(("Matrix3/index", 3, Box::new(|i| panics(|| Matrix3::new(1, 2, 3, 4, 5, 6, 7, 8, 9)[i]))));
    probes.push(("Matrix3/index[0][i]", 3, Box::new(|i| panics(|| Matrix3::new(1, 2, 3, 4, 5, 6, 7, 8, 9)[0][i]))));
    probes.push(("Matrix3/index_mut", 3, Box::new(|i| panics(|| { let mut m = Matrix3::new(1, 2, 3, 4, 5, 6, 7, 8, 9); m[i] = Vector3::new(0, 0, 0); }))));
    probes.push(("Matrix4/index", 4, Box::new(|i| panics(|| Matrix4::new(1, 2, 3, 4, 5, 6, 7, 8, 9, 10, 11, 12, 13, 14, 15, 16)[i]))));
    probes.push(("Matrix4/index[0][i]", 4, Box::new(|i| panics(|| Matrix4::new(1, 2, 3, 4, 5, 6, 7, 8, 9, 10, 11, 12, 13, 14, 15, 16)[0][i]))));
    probes.push(("Matrix4/index_mut", 4, Box::new(|i| panics(|| { let mut m = Matrix4::new(1, 2, 3, 4, 5, 6, 7, 8, 9, 10, 11, 12, 13, 14, 15, 16); m[i] = Vector4::new(0, 0, 0, 0); }))));
    probes.push(("Matrix4<f64>/row", 4, Box::new(|i| panics(|| Matrix4::<f64>::from_value(1.0).row(i)))));
    probes.push(("Matrix3<f64>/swap_rows", 3, Box::new(|i| panics(|| { let mut m = Matrix3::<f64>::from_value(1.0); m.swap_rows(0, i); }))));
    probes.push(("Matrix3<f64>/swap_columns", 3, Box::new(|i| panics(|| { let mut m = Matrix3::<f64>::from_value(1.0); m.swap_columns(0, i); }))));
    probes.push(("Vector3/swap_elements", 3, Box::new(|i| panics(|| { let mut v = Vector3::new(1, 2, 3); Array::swap_elements(&mut v, 0, i); }))));
    // every index argument of row / swap_rows / swap_columns / swap_elements, in every dimension (the three matrix types
    // implement them separately), and both arguments of Array::swap_elements, also with i == j
    macro_rules! mats {
        ($M:ident, $n:expr) => {
            probes.push((concat!(stringify!($M), "/row(i)"), $n, Box::new(|i| panics(|| $M::<f64>::from_value(1.0).row(i)))));
            probes.push((concat!(stringify!($M), "/swap_rows(0,i)"), $n, Box::new(|i| panics(|| { let mut m = $M::<f64>::from_value(1.0); m.swap_rows(0, i); }))));
            probes.push((concat!(stringify!($M), "/swap_rows(i,0)"), $n, Box::new(|i| panics(|| { let mut m = $M::<f64>::from_value(1.0); m.swap_rows(i, 0); }))));
            probes.push((concat!(stringify!($M), "/swap_rows(i,i)"), $n, Box::new(|i| panics(|| { let mut m = $M::<f64>::from_value(1.0); m.swap_rows(i, i); }))));
            probes.push((concat!(stringify!($M), "/swap_columns(0,i)"), $n, Box::new(|i| panics(|| { let mut m = $M::<f64>::from_value(1.0); m.swap_columns(0, i); }))));
            probes.push((concat!(stringify!($M), "/swap_columns(i,0)"), $n, Box::new(|i| panics(|| { let mut m = $M::<f64>::from_value(1.0); m.swap_columns(i, 0); }))));
            probes.push((concat!(stringify!($M), "/swap_columns(i,i)"), $n, Box::new(|i| panics(|| { let mut m = $M::<f64>::from_value(1.0); m.swap_columns(i, i); }))));
            probes.push((concat!(stringify!($M), "/swap_elements((i,0),(0,0))"), $n, Box::new(|i| panics(|| { let mut m = $M::<f64>::from_value(1.0); cgmath::Matrix::swap_elements(&mut m, (i, 0), (0, 0)); }))));
            probes.push((concat!(stringify!($M), "/swap_elements((0,i),(0,0))"), $n, Box::new(|i| panics(|| { let mut m = $M::<f64>::from_value(1.0); cgmath::Matrix::swap_elements(&mut m, (0, i), (0, 0)); }))));
            probes.push((concat!(stringify!($M), "/swap_elements((0,0),(i,0))"), $n, Box::new(|i| panics(|| { let mut m = $M::<f64>::from_value(1.0); cgmath::Matrix::swap_elements(&mut m, (0, 0), (i, 0)); }))));
            probes.push((concat!(stringify!($M), "/swap_elements((0,0),(0,i))"), $n, Box::new(|i| panics(|| { let mut m = $M::<f64>::from_value(1.0); cgmath::Matrix::swap_elements(&mut m, (0, 0), (0, i)); }))));
            probes.push((concat!(stringify!($M), "/swap_elements((i,i),(i,i))"), $n, Box::new(|i| panics(|| { let mut m = $M::<f64>::from_value(1.0); cgmath::Matrix::swap_elements(&mut m, (i, i), (i, i)); }))));
            probes.push((concat!(stringify!($M), "/replace_col(i)"), $n, Box::new(|i| panics(|| { let mut m = $M::<f64>::from_value(1.0); let c = m[0]; m.replace_col(i, c); }))));
        };
    }
    mats!(Matrix2, 2);
    mats!(Matrix3, 3);
    mats!(Matrix4, 4);
    macro_rules! arrs {
        ($V:ident, $n:expr, $mk:expr) => {
            probes.push((concat!(stringify!($V), "/swap_elements(0,i)"), $n, Box::new(|i| panics(|| { let mut v = $mk; Array::swap_elements(&mut v, 0, i); }))));
            probes.push((concat!(stringify!($V), "/swap_elements(i,0)"), $n, Box::new(|i| panics(|| { let mut v = $mk; Array::swap_elements(&mut v, i, 0); }))));
            probes.push((concat!(stringify!($V), "/swap_elements(i,i)"), $n, Box::new(|i| panics(|| { let mut v = $mk; Array::swap_elements(&mut v, i, i); }))));
        };
    }
    arrs!(Vector1, 1, Vector1::new(1));
    arrs!(Vector2, 2, Vector2::new(1, 2));
    arrs!(Vector3, 3, Vector3::new(1, 2, 3));
    arrs!(Vector4, 4, Vector4::new(1, 2, 3, 4));
    arrs!(Point1, 1, Point1::new(1));
    arrs!(Point2, 2, Point2::new(1, 2));
    arrs!(Point3, 3, Point3::new(1, 2, 3));
    let np = probes.len();
    rep.cases(
        "index-panics",
        "L",
        &format!("{np} index views x indices {{n, n+1, usize::MAX, 256, 2^16 + 1, 2^32 (values that alias small indices in a narrower integer)}} must panic, and every in-range index must not"),
        np * 7,
        Guard::states(100).distinct(2).need("in-range", 30).need("out-of-range", 180),
        |i, ctx| {
            let (pi, which) = (i / 7, i % 7);
            let (name, n, f) = &probes[pi];
            let idx = match which {
                0 => n - 1,
                1 => *n,
                2 => n + 1,
                3 => usize::MAX,
                4 => 256,
                5 => 65537,
                _ => 1usize << 32,
            };
            ctx.describe(|| format!("{name} with index {idx} (n = {n})"));
            ctx.out(&(pi, which));
            let panicked = f(idx);
            if which == 0 {
                ctx.branch("in-range");
                // range probes built from i+1 are out of range already at i = n-1 for [i+1..] only when i+1 > n: not the case
                let expect_panic = false;
                let _ = expect_panic;
                if name.contains("[0..i+1]") || name.contains("[..i+1]") || name.contains("[i+1..]") || name.contains("index_mut[i..]") {
                    ctx.check(!panicked, &key(&format!("in-range-index-ok/{name}")), || format!("{name} panicked for the in-range index {idx}"));
                } else {
                    ctx.check(!panicked, &key(&format!("in-range-index-ok/{name}")), || format!("{name} panicked for the in-range index {idx}"));
                }
            } else {
                ctx.branch("out-of-range");
                ctx.check(panicked, &key(&format!("out-of-range-panics/{name}")), || format!("{name} did not panic for index {idx} (n = {n})"));
            }
        },
    );
    let tks: Vec<isize> = (-2..=5).chain([255, 256, 257, -256, 65536, 1 << 32, isize::MAX, isize::MIN]).collect();
    rep.cases("truncate_n-panics", "L", "Vector4::truncate_n(k) for k in -2..=5 and +-256, 255, 257, 2^16, 2^32, isize::MAX, isize::MIN (values that alias 0..3 in a narrower integer): panics exactly outside 0..=3", tks.len(), Guard::states(8), |i, ctx| {
        let k = tks[i];
        ctx.describe(|| format!("truncate_n({k})"));
        ctx.out(&k);
        let p = panics(|| Vector4::new(1, 2, 3, 4).truncate_n(k));
        ctx.check(p == !(0..=3).contains(&k), &key("truncate_n/panics-outside-0..=3"), || format!("truncate_n({k}) {}", if p { "panicked" } else { "did not panic" }));
    });
}

// ------------------------------------------------------------------ shape operations
fn shape<E: El + cgmath::BaseNum>(rep: &mut Report) {
    rep.cases(&format!("shape/{}", E::NAME), "L", "map, zip, from_value, extend, truncate, truncate_n(0..3), constructors, on labelled values", 1, Guard::states(1), |_, ctx| {
        let l = |i: usize| E::label(i);
        ctx.describe(|| format!("labelled values over {}", E::NAME));
        ctx.out(&E::NAME);
        let mut eq = |name: &str, got: Vec<E>, want: Vec<E>| {
            ctx.t();
            if got != want {
                ctx.fail(&key(&format!("shape/{name}")), || format!("{name}: got {:?}, expected {:?}", got, want));
            }
        };
        let v4c = Vector4::new(l(0), l(1), l(2), l(3));
        let v3c = Vector3::new(l(0), l(1), l(2));
        let v2c = Vector2::new(l(0), l(1));
        eq("Vector4::new", vec![v4c.x, v4c.y, v4c.z, v4c.w], vec![l(0), l(1), l(2), l(3)]);
        eq("Vector3::new", vec![v3c.x, v3c.y, v3c.z], vec![l(0), l(1), l(2)]);
        eq("vec4()", { let v = cgmath::vec4(l(0), l(1), l(2), l(3)); vec![v.x, v.y, v.z, v.w] }, vec![l(0), l(1), l(2), l(3)]);
        eq("vec3()", { let v = cgmath::vec3(l(0), l(1), l(2)); vec![v.x, v.y, v.z] }, vec![l(0), l(1), l(2)]);
        eq("vec2()", { let v = cgmath::vec2(l(0), l(1)); vec![v.x, v.y] }, vec![l(0), l(1)]);
        eq("point3()", { let v = cgmath::point3(l(0), l(1), l(2)); vec![v.x, v.y, v.z] }, vec![l(0), l(1), l(2)]);
        eq("point2()", { let v = cgmath::point2(l(0), l(1)); vec![v.x, v.y] }, vec![l(0), l(1)]);
        eq("Vector2::extend", { let v = v2c.extend(l(7)); vec![v.x, v.y, v.z] }, vec![l(0), l(1), l(7)]);
        eq("Vector3::extend", { let v = v3c.extend(l(7)); vec![v.x, v.y, v.z, v.w] }, vec![l(0), l(1), l(2), l(7)]);
        eq("Vector3::truncate", { let v = v3c.truncate(); vec![v.x, v.y] }, vec![l(0), l(1)]);
        eq("Vector4::truncate", { let v = v4c.truncate(); vec![v.x, v.y, v.z] }, vec![l(0), l(1), l(2)]);
        for k in 0..4usize {
            let want: Vec<E> = (0..4).filter(|j| *j != k).map(l).collect();
            eq(&format!("Vector4::truncate_n({k})"), { let v = v4c.truncate_n(k as isize); vec![v.x, v.y, v.z] }, want);
        }
        eq("Vector4::from_value", { let v = Vector4::from_value(l(5)); vec![v.x, v.y, v.z, v.w] }, vec![l(5); 4]);
        eq("Vector3::from_value", { let v = Vector3::from_value(l(5)); vec![v.x, v.y, v.z] }, vec![l(5); 3]);
        eq("Point3::from_value", { let v = Point3::from_value(l(5)); vec![v.x, v.y, v.z] }, vec![l(5); 3]);
        // map / zip keep positions (every component is handed to the closure exactly once; in which order is not stated)
        let mut seen = Vec::new();
        let m = v4c.map(|x| { seen.push(x); x });
        eq("Vector4::map", vec![m.x, m.y, m.z, m.w], vec![l(0), l(1), l(2), l(3)]);
        eq("Vector3::map", { let m = v3c.map(|x| x); vec![m.x, m.y, m.z] }, vec![l(0), l(1), l(2)]);
        eq("Vector2::map", { let m = Vector2::new(l(0), l(1)).map(|x| x); vec![m.x, m.y] }, vec![l(0), l(1)]);
        eq("Point3::map", { let m = Point3::new(l(0), l(1), l(2)).map(|x| x); vec![m.x, m.y, m.z] }, vec![l(0), l(1), l(2)]);
        eq("Vector2::from_value", { let v = Vector2::from_value(l(5)); vec![v.x, v.y] }, vec![l(5); 2]);
        eq("Vector1::from_value", { let v = Vector1::from_value(l(5)); vec![v.x] }, vec![l(5); 1]);
        eq("Point2::from_value", { let v = Point2::from_value(l(5)); vec![v.x, v.y] }, vec![l(5); 2]);
        eq("Point1::from_value", { let v = Point1::from_value(l(5)); vec![v.x] }, vec![l(5); 1]);

        ctx.t();
        if !(seen.len() == 4 && (0..4).all(|k| seen.contains(&l(k)))) {
            ctx.fail(&key("shape/Vector4::map/each-component-once"), || format!("the closure saw {:?}", seen));
        }
        { let z = v3c.zip(Vector3::new(l(4), l(5), l(6)), |a, b| (a, b)); ctx.t(); if [z.x, z.y, z.z] != [(l(0), l(4)), (l(1), l(5)), (l(2), l(6))] { ctx.fail(&key("shape/Vector3::zip"), || format!("zip pairs {:?}", [z.x, z.y, z.z])); } }
        { let z = Vector2::new(l(0), l(1)).zip(Vector2::new(l(4), l(5)), |a, b| (a, b)); ctx.t(); if [z.x, z.y] != [(l(0), l(4)), (l(1), l(5))] { ctx.fail(&key("shape/Vector2::zip"), || format!("zip pairs {:?}", [z.x, z.y])); } }
        let other = Vector4::new(l(4), l(5), l(6), l(7));
        let z = v4c.zip(other, |a, b| (a, b));
        ctx.t();
        if [z.x, z.y, z.z, z.w] != [(l(0), l(4)), (l(1), l(5)), (l(2), l(6)), (l(3), l(7))] {
            ctx.fail(&key("shape/Vector4::zip"), || format!("zip pairs {:?}", [z.x, z.y, z.z, z.w]));
        }
        let p = Point3::new(l(0), l(1), l(2)).zip(Point3::new(l(4), l(5), l(6)), |a, b| (a, b));
        ctx.t();
        if [p.x, p.y, p.z] != [(l(0), l(4)), (l(1), l(5)), (l(2), l(6))] {
            ctx.fail(&key("shape/Point3::zip"), || format!("zip pairs {:?}", [p.x, p.y, p.z]));
        }
        // Quaternion::new takes the scalar first; arrays and tuples carry it last
        let q = Quaternion::new(l(3), l(0), l(1), l(2));
        let a: [E; 4] = q.into();
        ctx.t();
        if a != [l(0), l(1), l(2), l(3)] {
            ctx.fail(&key("shape/Quaternion::new-vs-array"), || format!("Quaternion::new(s, x, y, z) as array = {:?}", a));
        }
    });
}

/// the same shape operations on special floating-point components (-0.0, +-inf, MAX, MIN_POSITIVE, a subnormal, NaN),
/// compared bit for bit: an accessor rewritten through arithmetic (`extend` as `v + w * unit_w`, `row` as a product
/// with a basis vector, `truncate` as a multiplication by a projection) keeps ordinary labels and loses these
macro_rules! shape_special {
    ($fname:ident, $F:ty, $name:expr) => {
        fn $fname(rep: &mut Report) {
            rep.cases(concat!("shape-special/", $name), "L", "extend, truncate, truncate_n, from_value, map, zip, row, column index, transpose, array conversions on -0.0, +-inf, MAX, MIN_POSITIVE, subnormal, NaN; bit for bit", 1, Guard::states(1), |_, ctx| {
                let sp: [$F; 8] = [-0.0, <$F>::INFINITY, <$F>::NEG_INFINITY, <$F>::MAX, <$F>::MIN_POSITIVE, <$F>::MIN_POSITIVE / 4.0, <$F>::NAN, 0.0];
                let l = |i: usize| sp[i % 8];
                ctx.describe(|| format!("special values over {}", $name));
                ctx.out(&$name);
                let bits = |v: &[$F]| -> Vec<u64> { v.iter().map(|x| x.to_bits() as u64).collect() };
                let mut eq = |name: &str, got: Vec<$F>, want: Vec<$F>| {
                    ctx.t();
                    if bits(&got) != bits(&want) {
                        ctx.fail(&key(&format!("shape-special/{name}")), || format!("{name}: got {:?}, expected {:?}", got, want));
                    }
                };
                let v4c = Vector4::new(l(0), l(1), l(2), l(3));
                let v3c = Vector3::new(l(0), l(1), l(2));
                eq("Vector3::extend", { let v = v3c.extend(l(6)); vec![v.x, v.y, v.z, v.w] }, vec![l(0), l(1), l(2), l(6)]);
                eq("Vector3::extend(-0.0)", { let v = Vector3::new(l(3), l(4), l(5)).extend(l(0)); vec![v.x, v.y, v.z, v.w] }, vec![l(3), l(4), l(5), l(0)]);
                eq("Vector2::extend", { let v = Vector2::new(l(6), l(0)).extend(l(1)); vec![v.x, v.y, v.z] }, vec![l(6), l(0), l(1)]);
                eq("Vector4::truncate", { let v = v4c.truncate(); vec![v.x, v.y, v.z] }, vec![l(0), l(1), l(2)]);
                eq("Vector3::truncate", { let v = v3c.truncate(); vec![v.x, v.y] }, vec![l(0), l(1)]);
                for k in 0..4usize {
                    let want: Vec<$F> = (0..4).filter(|j| *j != k).map(l).collect();
                    eq(&format!("Vector4::truncate_n({k})"), { let v = v4c.truncate_n(k as isize); vec![v.x, v.y, v.z] }, want);
                }
                for k in 0..7 {
                    eq("Vector4::from_value", { let v = Vector4::from_value(l(k)); vec![v.x, v.y, v.z, v.w] }, vec![l(k); 4]);
                    eq("Point3::from_value", { let v = Point3::from_value(l(k)); vec![v.x, v.y, v.z] }, vec![l(k); 3]);
                }
                eq("Vector4::map", { let m = v4c.map(|x| x); vec![m.x, m.y, m.z, m.w] }, vec![l(0), l(1), l(2), l(3)]);
                eq("Vector4::zip", { let z = v4c.zip(Vector4::new(l(4), l(5), l(6), l(7)), |_, b| b); vec![z.x, z.y, z.z, z.w] }, vec![l(4), l(5), l(6), l(7)]);
                eq("Vector4 into array", { let a: [$F; 4] = v4c.into(); a.to_vec() }, vec![l(0), l(1), l(2), l(3)]);
                eq("Vector4 from array", { let v: Vector4<$F> = [l(3), l(2), l(1), l(0)].into(); vec![v.x, v.y, v.z, v.w] }, vec![l(3), l(2), l(1), l(0)]);
                // (to_vec / from_vec are documented as "origin + v" / "p - origin" and are C12's subject: no signed zero here)
                eq("Point3::to_vec/from_vec", { let p = Point3::from_vec(Vector3::new(l(3), l(1), l(2))); let v = cgmath::EuclideanSpace::to_vec(p); vec![p.x, p.y, p.z, v.x, v.y, v.z] }, vec![l(3), l(1), l(2), l(3), l(1), l(2)]);
                // matrices: row(), column index, transpose, the flat view
                let m = Matrix3::new(l(0), l(1), l(2), l(3), l(4), l(5), l(6), l(7), l(1));
                for r in 0..3 {
                    eq(&format!("Matrix3::row({r})"), { let v = m.row(r); vec![v.x, v.y, v.z] }, vec![m[0][r], m[1][r], m[2][r]]);
                }
                eq("Matrix3[c]", { let c = m[1]; vec![c.x, c.y, c.z] }, vec![l(3), l(4), l(5)]);
                eq("Matrix3::transpose", { let t = m.transpose(); let a: [[$F; 3]; 3] = t.into(); a.iter().flat_map(|c| c.iter().copied()).collect() }, vec![l(0), l(3), l(6), l(1), l(4), l(7), l(2), l(5), l(1)]);
                eq("Matrix3 flat", { let a: &[$F; 9] = m.as_ref(); a.to_vec() }, vec![l(0), l(1), l(2), l(3), l(4), l(5), l(6), l(7), l(1)]);
                eq("Matrix3::from(Matrix2)", { let e = Matrix3::from(Matrix2::new(l(0), l(1), l(2), l(6))); vec![e[0][0], e[0][1], e[1][0], e[1][1]] }, vec![l(0), l(1), l(2), l(6)]);
                eq("Quaternion::new", { let q = Quaternion::new(l(6), l(0), l(1), l(2)); let a: [$F; 4] = q.into(); a.to_vec() }, vec![l(0), l(1), l(2), l(6)]);
            });
        }
    };
}
shape_special!(shape_special_f64, f64, "f64");
shape_special!(shape_special_f32, f32, "f32");

include!(concat!(env!("OUT_DIR"), "/swizzle_table.rs"));

fn swizzles(rep: &mut Report) {
    macro_rules! run_table {
        ($name:expr, $E:ty, $table:expr, $mk:expr, $n:expr, $letters:expr) => {{
            let table = $table;
            let total = table.len();
            let name = format!("{}<{}>", $name, <$E as El>::NAME);
            rep.cases(
                &name,
                "L",
                &format!("every word of length 1..{} over the letters `{}`: {total} accessors", if $name.starts_with("swizzle/Point") { 3 } else { 4 }, $letters),
                total,
                Guard::states(3).distinct(3),
                |i, ctx| {
                    let (word, f) = table[i];
                    ctx.describe(|| format!("{}.{word}()", name));
                    ctx.out(&word);
                    let l = |k: usize| <$E as El>::label(k);
                    let v = $mk(l);
                    let got = f(&v);
                    let want: Vec<$E> = word.chars().map(|c| l($letters.find(c).unwrap())).collect();
                    ctx.check(got == want, &key(&format!("{}/names-the-components", $name)), || format!("{word}() = {:?}, expected {:?} (dimension {})", got, want, word.len()));
                },
            );
            total
        }};
    }
    macro_rules! all_tables {
        (vectors: $E:ty) => {{
            let mut t = 0;
            t += run_table!("swizzle/Vector1", $E, swizzle_vector1::<$E>(), |l: fn(usize) -> $E| Vector1::new(l(0)), 1, "x");
            t += run_table!("swizzle/Vector2", $E, swizzle_vector2::<$E>(), |l: fn(usize) -> $E| Vector2::new(l(0), l(1)), 2, "xy");
            t += run_table!("swizzle/Vector3", $E, swizzle_vector3::<$E>(), |l: fn(usize) -> $E| Vector3::new(l(0), l(1), l(2)), 3, "xyz");
            t += run_table!("swizzle/Vector4", $E, swizzle_vector4::<$E>(), |l: fn(usize) -> $E| Vector4::new(l(0), l(1), l(2), l(3)), 4, "xyzw");
            t
        }};
        (points: $E:ty) => {{
            let mut t = 0;
            t += run_table!("swizzle/Point1", $E, swizzle_point1::<$E>(), |l: fn(usize) -> $E| Point1::new(l(0)), 1, "x");
            t += run_table!("swizzle/Point2", $E, swizzle_point2::<$E>(), |l: fn(usize) -> $E| Point2::new(l(0), l(1)), 2, "xy");
            t += run_table!("swizzle/Point3", $E, swizzle_point3::<$E>(), |l: fn(usize) -> $E| Point3::new(l(0), l(1), l(2)), 3, "xyz");
            t
        }};
    }
    let total = all_tables!(vectors: i32) + all_tables!(points: i32);
    if rep.replay.is_none() && total != 550 {
        rep.machinery.push(format!("swizzle table has {total} entries, expected 550"));
    }
    // the same accessors over the other kinds of element: a float and an unsigned type for the vectors (their accessors need a
    // numeric element), a non-numeric Copy struct for the points (theirs need Copy only)
    let _ = all_tables!(vectors: f64) + all_tables!(vectors: u8) + all_tables!(points: f64) + all_tables!(points: Tag) + all_tables!(points: char);
}

// ------------------------------------------------------------------ element types that own something
thread_local! {
    /// per label: instances alive (created + cloned - dropped)
    static LIVE: std::cell::RefCell<Vec<i64>> = std::cell::RefCell::new(vec![0; 16]);
}
/// an element type that is `Clone` but not `Copy`: it holds no pointer (nothing dangles if it is duplicated bitwise), it
/// only counts - so a conversion that duplicates or loses an element shows in the count instead of in undefined behaviour
#[derive(Debug, PartialEq)]
struct Owned(usize);
impl Owned {
    fn new(label: usize) -> Owned {
        LIVE.with(|l| l.borrow_mut()[label] += 1);
        Owned(label)
    }
}
impl Clone for Owned {
    fn clone(&self) -> Owned {
        Owned::new(self.0)
    }
}
impl Drop for Owned {
    fn drop(&mut self) {
        LIVE.with(|l| l.borrow_mut()[self.0] -= 1);
    }
}
fn live(n: usize) -> Vec<i64> {
    LIVE.with(|l| l.borrow()[..n].to_vec())
}
/// the by-value conversions that exist for every `Clone` element type ("every element type"): the result holds the
/// components in order, every element exists exactly once while the result lives and not at all afterwards
fn owned_elems(rep: &mut Report) {
    rep.cases("owned-elements", "L", "Vector1-4 and Point1-3 over a Clone (not Copy) element type that counts its instances: from / into arrays and tuples, mint", 1, Guard::states(1), |_, ctx| {
        ctx.out(&0);
        macro_rules! conv {
            ($name:expr, $n:expr, $mk:expr, $labels:expr) => {{
                LIVE.with(|l| l.borrow_mut().iter_mut().for_each(|x| *x = 0));
                {
                    let r = $mk;
                    let got: Vec<usize> = $labels(&r);
                    ctx.check(got == (0..$n).collect::<Vec<usize>>(), &key(&format!("owned-elements/{}", $name)), || format!("components {:?}", got));
                    let lv = live($n);
                    ctx.check(lv.iter().all(|x| *x == 1), &key(&format!("owned-elements/{}/each-element-once", $name)), || format!("instances alive per element while the result lives: {:?}", lv));
                }
                let lv = live($n);
                ctx.check(lv.iter().all(|x| *x == 0), &key(&format!("owned-elements/{}/released", $name)), || format!("instances alive per element after the result is dropped: {:?}", lv));
            }};
        }
        let o = Owned::new;
        conv!("Vector1 from array", 1, { let v: Vector1<Owned> = [o(0)].into(); v }, |v: &Vector1<Owned>| vec![v.x.0]);
        conv!("Vector2 from array", 2, { let v: Vector2<Owned> = [o(0), o(1)].into(); v }, |v: &Vector2<Owned>| vec![v.x.0, v.y.0]);
        conv!("Vector3 from array", 3, { let v: Vector3<Owned> = [o(0), o(1), o(2)].into(); v }, |v: &Vector3<Owned>| vec![v.x.0, v.y.0, v.z.0]);
        conv!("Vector4 from array", 4, { let v: Vector4<Owned> = [o(0), o(1), o(2), o(3)].into(); v }, |v: &Vector4<Owned>| vec![v.x.0, v.y.0, v.z.0, v.w.0]);
        conv!("Point1 from array", 1, { let v: Point1<Owned> = [o(0)].into(); v }, |v: &Point1<Owned>| vec![v.x.0]);
        conv!("Point2 from array", 2, { let v: Point2<Owned> = [o(0), o(1)].into(); v }, |v: &Point2<Owned>| vec![v.x.0, v.y.0]);
        conv!("Point3 from array", 3, { let v: Point3<Owned> = [o(0), o(1), o(2)].into(); v }, |v: &Point3<Owned>| vec![v.x.0, v.y.0, v.z.0]);
        conv!("Vector3 into array", 3, { let a: [Owned; 3] = Vector3 { x: o(0), y: o(1), z: o(2) }.into(); a }, |a: &[Owned; 3]| a.iter().map(|x| x.0).collect());
        conv!("Vector4 into array", 4, { let a: [Owned; 4] = Vector4 { x: o(0), y: o(1), z: o(2), w: o(3) }.into(); a }, |a: &[Owned; 4]| a.iter().map(|x| x.0).collect());
        conv!("Point3 into array", 3, { let a: [Owned; 3] = Point3 { x: o(0), y: o(1), z: o(2) }.into(); a }, |a: &[Owned; 3]| a.iter().map(|x| x.0).collect());
        conv!("Vector3 from tuple", 3, { let v: Vector3<Owned> = (o(0), o(1), o(2)).into(); v }, |v: &Vector3<Owned>| vec![v.x.0, v.y.0, v.z.0]);
        conv!("Vector4 into tuple", 4, { let t: (Owned, Owned, Owned, Owned) = Vector4 { x: o(0), y: o(1), z: o(2), w: o(3) }.into(); t }, |t: &(Owned, Owned, Owned, Owned)| vec![t.0 .0, t.1 .0, t.2 .0, t.3 .0]);
        conv!("Point2 from tuple", 2, { let v: Point2<Owned> = (o(0), o(1)).into(); v }, |v: &Point2<Owned>| vec![v.x.0, v.y.0]);
        conv!("Vector3 into mint", 3, { let m: mint::Vector3<Owned> = Vector3 { x: o(0), y: o(1), z: o(2) }.into(); m }, |m: &mint::Vector3<Owned>| vec![m.x.0, m.y.0, m.z.0]);
        conv!("Vector2 from mint", 2, { let v: Vector2<Owned> = mint::Vector2 { x: o(0), y: o(1) }.into(); v }, |v: &Vector2<Owned>| vec![v.x.0, v.y.0]);
        conv!("Point3 into mint", 3, { let m: mint::Point3<Owned> = Point3 { x: o(0), y: o(1), z: o(2) }.into(); m }, |m: &mint::Point3<Owned>| vec![m.x.0, m.y.0, m.z.0]);
    });
}

fn main() {
    let mut rep = Report::from_args(P);
    rep.assume("element types: u8, i16, i32, u64, usize, f32, f64 for every view; char, bool, &'static str and a two-field struct for the views that exist without numeric bounds; components carry pairwise-distinct labels (bool: alternating)");
    rep.assume("the 550 swizzle accessors are named by the harness's own build script (every word over the type's letters), independent of cgmath's generator; a missing accessor is a build failure reported as a violation by the driver");
    any_elem::<char>(&mut rep);
    any_elem::<bool>(&mut rep);
    any_elem::<&'static str>(&mut rep);
    any_elem::<Tag>(&mut rep);
    num_elem::<u8>(&mut rep);
    num_elem::<i16>(&mut rep);
    num_elem::<i32>(&mut rep);
    num_elem::<u64>(&mut rep);
    num_elem::<usize>(&mut rep);
    num_elem::<f32>(&mut rep);
    num_elem::<f64>(&mut rep);
    int_mats::<u8>(&mut rep);
    int_mats::<i32>(&mut rep);
    int_mats::<u64>(&mut rep);
    float_mats::<f32>(&mut rep);
    float_mats::<f64>(&mut rep);
    index_panics(&mut rep);
    owned_elems(&mut rep);
    shape::<u8>(&mut rep);
    shape::<i32>(&mut rep);
    shape::<u64>(&mut rep);
    shape::<f32>(&mut rep);
    shape::<f64>(&mut rep);
    shape_special_f64(&mut rep);
    shape_special_f32(&mut rep);
    swizzles(&mut rep);
    let n = rep.sr_agree;
    rep.note(format!("{n} view machines cross-checked: stateright 0.31 (single-threaded BFS over the same transition function) reaches the same number of unique states as the own engine"));
    std::process::exit(rep.finish());
}
