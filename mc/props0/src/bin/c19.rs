//! C19 — numeric cast of compound values is all-or-nothing and component-faithful.
use mc_props::*;
use num_traits::{NumCast, ToPrimitive};
use std::fmt::Debug;

const P: &str = "C19";
fn key(s: &str) -> String {
    format!("{P}/{s}")
}

/// one of the twelve primitive scalar types (all of them are cgmath scalars: `cast` may ask for that)
trait Prim: cgmath::BaseNum + NumCast + Copy + Debug + PartialEq + Send + Sync + 'static {
    const NAME: &'static str;
    const FLOAT: bool;
    fn alphabet() -> Vec<Self>;
    /// pairwise distinct values that every other primitive type can hold (position markers)
    fn marker(i: usize) -> Self;
    /// bit pattern (NaN canonicalised) used by the non-generic explorer
    fn bits(self) -> u128;
    fn from_bits_(b: u128) -> Self;
    fn show(b: u128) -> String {
        format!("{:?}", Self::from_bits_(b))
    }
}
macro_rules! prim_int {
    ($t:ty) => {
        impl Prim for $t {
            const NAME: &'static str = stringify!($t);
            const FLOAT: bool = false;
            fn alphabet() -> Vec<$t> {
                let cands: [i128; 28] = [
                    0, 1, -1, 2, 3, 127, 128, 255, 256, 32767, 32768, 65535, 65536, 1 << 31, (1 << 31) - 1, 1 << 32, 1 << 63, (1 << 63) - 1,
                    // not exactly representable in f32 / f64, and double-rounding witnesses (through f64 to f32)
                    (1 << 24) + 1, (1 << 53) + 1, (1 << 60) + (1 << 36) + 1, -((1 << 60) + (1 << 36) + 1), (1 << 60) + 3 * (1 << 36) - 1, -((1 << 53) + 1),
                    <$t>::MIN as i128, <$t>::MIN as i128 + 1, <$t>::MAX as i128 - 1, <$t>::MAX as i128,
                ];
                let mut v: Vec<$t> = cands.iter().filter_map(|c| <$t>::try_from(*c).ok()).collect();
                v.sort();
                v.dedup();
                v
            }
            fn marker(i: usize) -> $t {
                (10 + i) as $t
            }
            fn bits(self) -> u128 {
                self as i128 as u128
            }
            fn from_bits_(b: u128) -> $t {
                b as i128 as $t
            }
        }
    };
}
prim_int!(i8);
prim_int!(i16);
prim_int!(i32);
prim_int!(i64);
prim_int!(isize);
prim_int!(u8);
prim_int!(u16);
prim_int!(u32);
prim_int!(u64);
prim_int!(usize);
macro_rules! prim_float {
    ($t:ty) => {
        impl Prim for $t {
            const NAME: &'static str = stringify!($t);
            const FLOAT: bool = true;
            fn alphabet() -> Vec<$t> {
                let mut v: Vec<$t> = vec![
                    0.0, -0.0, 1.0, -1.0, 2.0, 3.0, 127.0, 128.0, 255.0, 256.0, 32767.0, 32768.0, 65535.0, 65536.0, 2147483648.0, 4294967296.0,
                    9223372036854775808.0, 0.5, -0.5, 1.5, -1.5, 1e10, 1e20, -1e20, <$t>::NAN, <$t>::INFINITY, <$t>::NEG_INFINITY, <$t>::MAX, <$t>::MIN,
                    <$t>::MIN_POSITIVE, -129.0, -32769.0,
                ];
                v.push(1e39f64 as $t);
                v
            }
            fn marker(i: usize) -> $t {
                (10 + i) as $t
            }
            fn bits(self) -> u128 {
                if self.is_nan() { <$t>::NAN.to_bits() as u128 } else { self.to_bits() as u128 }
            }
            fn from_bits_(b: u128) -> $t {
                <$t>::from_bits(b as _)
            }
        }
    };
}
prim_float!(f32);
prim_float!(f64);

/// a compound type with n scalar components, cast through its public cast()
trait Comp<S: Prim>: Sized {
    const NAME: &'static str;
    const N: usize;
    fn build(c: &[S]) -> Self;
    fn cast_flat<T: Prim>(&self) -> Option<Vec<T>>;
}
macro_rules! comp_vec {
    ($V:ident, $n:expr, [$($f:ident),+]) => {
        impl<S: Prim> Comp<S> for $V<S> {
            const NAME: &'static str = stringify!($V);
            const N: usize = $n;
            fn build(c: &[S]) -> Self {
                let mut i = 0;
                $( let $f = c[i]; i += 1; )+
                let _ = i;
                $V { $($f),+ }
            }
            fn cast_flat<T: Prim>(&self) -> Option<Vec<T>> {
                self.cast::<T>().map(|r| vec![$(r.$f),+])
            }
        }
    };
}
comp_vec!(Vector1, 1, [x]);
comp_vec!(Vector2, 2, [x, y]);
comp_vec!(Vector3, 3, [x, y, z]);
comp_vec!(Vector4, 4, [x, y, z, w]);
comp_vec!(Point1, 1, [x]);
comp_vec!(Point2, 2, [x, y]);
comp_vec!(Point3, 3, [x, y, z]);
impl<S: Prim> Comp<S> for Matrix2<S> {
    const NAME: &'static str = "Matrix2";
    const N: usize = 4;
    fn build(c: &[S]) -> Self {
        mk_m2([[c[0], c[1]], [c[2], c[3]]])
    }
    fn cast_flat<T: Prim>(&self) -> Option<Vec<T>> {
        self.cast::<T>().map(|r| flat_m(m2(r)))
    }
}
impl<S: Prim> Comp<S> for Matrix3<S> {
    const NAME: &'static str = "Matrix3";
    const N: usize = 9;
    fn build(c: &[S]) -> Self {
        mk_m3(std::array::from_fn(|i| std::array::from_fn(|j| c[i * 3 + j])))
    }
    fn cast_flat<T: Prim>(&self) -> Option<Vec<T>> {
        self.cast::<T>().map(|r| flat_m(m3(r)))
    }
}
impl<S: Prim> Comp<S> for Matrix4<S> {
    const NAME: &'static str = "Matrix4";
    const N: usize = 16;
    fn build(c: &[S]) -> Self {
        mk_m4(std::array::from_fn(|i| std::array::from_fn(|j| c[i * 4 + j])))
    }
    fn cast_flat<T: Prim>(&self) -> Option<Vec<T>> {
        self.cast::<T>().map(|r| flat_m(m4(r)))
    }
}

/// the only code instantiated per (source, target, compound type): build, cast, scalar casts
fn run_entry<S: Prim, T: Prim, C: Comp<S>>(bits: &[u128]) -> (Option<Vec<u128>>, Vec<Option<u128>>) {
    let comps: Vec<S> = bits.iter().map(|b| S::from_bits_(*b)).collect();
    let got = C::build(&comps).cast_flat::<T>().map(|r| r.iter().map(|x| x.bits()).collect());
    let scalar = comps.iter().map(|c| <T as NumCast>::from(*c).map(|x: T| x.bits())).collect();
    (got, scalar)
}
fn run_quat<S: Prim, T: Prim + cgmath::BaseFloat>(bits: &[u128]) -> (Option<Vec<u128>>, Vec<Option<u128>>) {
    let c: Vec<S> = bits.iter().map(|b| S::from_bits_(*b)).collect();
    let got = mk_q([c[0], c[1], c[2], c[3]]).cast::<T>().map(|r| qa(r).iter().map(|x| x.bits()).collect());
    let scalar = c.iter().map(|x| <T as NumCast>::from(*x).map(|y: T| y.bits())).collect();
    (got, scalar)
}

struct Entry {
    comp: &'static str,
    src: &'static str,
    dst: &'static str,
    n: usize,
    alpha: Vec<u128>,
    markers: Vec<u128>,
    run: fn(&[u128]) -> (Option<Vec<u128>>, Vec<Option<u128>>),
    show_src: fn(u128) -> String,
    show_dst: fn(u128) -> String,
    /// the source-type value nearest to an f64 (used for float sources only)
    from_f64: fn(f64) -> Option<u128>,
}
fn of_f64<S: Prim>(x: f64) -> Option<u128> {
    <S as NumCast>::from(x).map(|v: S| v.bits())
}
fn entry<S: Prim, T: Prim, C: Comp<S>>() -> Entry {
    Entry {
        comp: C::NAME,
        src: S::NAME,
        dst: T::NAME,
        n: C::N,
        alpha: S::alphabet().iter().map(|x| x.bits()).collect(),
        markers: (0..C::N).map(|i| S::marker(i).bits()).collect(),
        run: run_entry::<S, T, C>,
        show_src: S::show,
        show_dst: T::show,
        from_f64: of_f64::<S>,
    }
}
fn entry_quat<S: Prim, T: Prim + cgmath::BaseFloat>() -> Entry {
    Entry {
        comp: "Quaternion",
        src: S::NAME,
        dst: T::NAME,
        n: 4,
        alpha: S::alphabet().iter().map(|x| x.bits()).collect(),
        markers: (0..4).map(|i| S::marker(i).bits()).collect(),
        run: run_quat::<S, T>,
        show_src: S::show,
        show_dst: T::show,
        from_f64: of_f64::<S>,
    }
}
fn entries_for<S: Prim, T: Prim>(out: &mut Vec<Entry>) {
    out.push(entry::<S, T, Vector1<S>>());
    out.push(entry::<S, T, Vector2<S>>());
    out.push(entry::<S, T, Vector3<S>>());
    out.push(entry::<S, T, Vector4<S>>());
    out.push(entry::<S, T, Point1<S>>());
    out.push(entry::<S, T, Point2<S>>());
    out.push(entry::<S, T, Point3<S>>());
    out.push(entry::<S, T, Matrix2<S>>());
    out.push(entry::<S, T, Matrix3<S>>());
    out.push(entry::<S, T, Matrix4<S>>());
}

/// explore one table entry (non-generic)
fn explore(rep: &mut Report, e: &Entry) {
    let (n, al) = (e.n, e.alpha.len());
    let cap = rep.pick(2_000usize, 300_000);
    let full = al.checked_pow(n as u32).map_or(false, |x| x <= cap);
    let k = if n <= 4 { rep.pick(2, 3) } else { rep.pick(1, 2) };
    let dev = DevSpace::new(n, al, k);
    let total = if full { al.pow(n as u32) } else { dev.len() };
    let name = e.comp;
    rep.cases(
        &format!("{}/{}->{}", e.comp, e.src, e.dst),
        "I",
        &if full { format!("full product of the {al}-letter source alphabet over {n} components") } else { format!("castable marker base with <= {k} of {n} positions replaced by each of {al} alphabet values") },
        total,
        Guard::states(2).need("some", 1),
        |i, ctx| {
            let bits: Vec<u128> = if full {
                alphabet::decode(i, &vec![al; n]).iter().map(|&j| e.alpha[j]).collect()
            } else {
                let mut c = e.markers.clone();
                for (p, l) in dev.get(i) {
                    c[p] = e.alpha[l];
                }
                c
            };
            let show = |b: &[u128]| -> String { format!("[{}]", b.iter().map(|x| (e.show_src)(*x)).collect::<Vec<_>>().join(", ")) };
            ctx.describe(|| format!("{}<{}>{} -> {}", e.comp, e.src, show(&bits), e.dst));
            let (got, scalar) = (e.run)(&bits);
            // oracle: the scalar numeric cast, component by component
            let any_fail = scalar.iter().any(|c| c.is_none());
            ctx.branch(if any_fail { "none" } else { "some" });
            ctx.t();
            ctx.out(&(bits.clone(), got.is_some()));
            let shown = |r: &Vec<Option<u128>>| -> String { format!("{:?}", r.iter().map(|x| x.map(|b| (e.show_dst)(b))).collect::<Vec<_>>()) };
            match (&got, any_fail) {
                (None, true) => {}
                (Some(_), true) => ctx.fail(&key(&format!("{name}/none-iff-a-component-fails")), || format!("{name}<{}>{}.cast::<{}>() = Some(..) although a component does not convert: {}", e.src, show(&bits), e.dst, shown(&scalar))),
                (None, false) => ctx.fail(&key(&format!("{name}/none-iff-a-component-fails")), || format!("{name}<{}>{}.cast::<{}>() = None although every component converts", e.src, show(&bits), e.dst)),
                (Some(r), false) => {
                    let ok = r.len() == scalar.len() && r.iter().zip(&scalar).all(|(a, b)| Some(*a) == *b);
                    if !ok {
                        ctx.fail(&key(&format!("{name}/component-faithful")), || format!("{name}<{}>{}.cast::<{}>() = {:?}, scalar casts give {}", e.src, show(&bits), e.dst, r.iter().map(|b| (e.show_dst)(*b)).collect::<Vec<_>>(), shown(&scalar)));
                    }
                }
            }
        },
    );
}

// ------------------------------------------------------------------ reaching Quaternion::cast's None path
/// a source scalar whose conversion can be made to fail for marked values
#[derive(Clone, Copy, Debug, PartialEq)]
struct Maybe(f64, bool);
impl ToPrimitive for Maybe {
    fn to_i64(&self) -> Option<i64> {
        if self.1 { None } else { self.0.to_i64() }
    }
    fn to_u64(&self) -> Option<u64> {
        if self.1 { None } else { self.0.to_u64() }
    }
    fn to_f64(&self) -> Option<f64> {
        if self.1 { None } else { Some(self.0) }
    }
    fn to_f32(&self) -> Option<f32> {
        if self.1 { None } else { Some(self.0 as f32) }
    }
}
impl NumCast for Maybe {
    fn from<T: ToPrimitive>(n: T) -> Option<Maybe> {
        n.to_f64().map(|f| Maybe(f, false))
    }
}

fn failing_paths(rep: &mut Report) {
    // every subset of failing positions, for Quaternion and the 4-component vector; targets f64, f32 and the exact scalar
    rep.cases(
        "failing-source",
        "I",
        "Quaternion / Vector4 / Matrix2 over a source scalar whose conversion fails for marked components: all 16 subsets of failing positions x targets f64, f32",
        16,
        Guard::states(16).need("none", 15).need("some", 1),
        |i, ctx| {
            let c: Vec<Maybe> = (0..4).map(|j| Maybe(10.0 + j as f64, (i >> j) & 1 == 1)).collect();
            ctx.describe(|| format!("components (value, fails) = {:?}", c));
            ctx.out(&i);
            let want_none = i != 0;
            ctx.branch(if want_none { "none" } else { "some" });
            let chk = |ctx: &mut Ctx, name: &str, got: Option<Vec<f64>>| {
                ctx.t();
                match got {
                    None if want_none => {}
                    Some(r) if !want_none => {
                        if r != vec![10.0, 11.0, 12.0, 13.0] {
                            ctx.fail(&key(&format!("{name}/component-faithful")), || format!("{name} cast gives {:?}", r));
                        }
                    }
                    Some(r) => ctx.fail(&key(&format!("{name}/none-iff-a-component-fails")), || format!("{name}{:?} cast = Some({:?}) although a component fails", c, r)),
                    None => ctx.fail(&key(&format!("{name}/none-iff-a-component-fails")), || format!("{name} cast = None although every component converts")),
                }
            };
            let q = mk_q([c[0], c[1], c[2], c[3]]);
            chk(ctx, "Quaternion", q.cast::<f64>().map(|r| qa(r).to_vec()));
            chk(ctx, "Quaternion", q.cast::<f32>().map(|r| qa(r).iter().map(|x| *x as f64).collect()));
            let v = mk_v4([c[0], c[1], c[2], c[3]]);
            chk(ctx, "Vector4", v.cast::<f64>().map(|r| v4(r).to_vec()));
            let m = mk_m2([[c[0], c[1]], [c[2], c[3]]]);
            chk(ctx, "Matrix2", m.cast::<f64>().map(|r| flat_m(m2(r))));
            let p = mk_p3([c[0], c[1], c[2]]);
            if i < 8 {
                chk(ctx, "Point3", p.cast::<f64>().map(|r| {
                    let mut x = p3(r).to_vec();
                    x.push(13.0);
                    x
                }));
            }
        },
    );
    // float source -> exact rational target: NaN and infinities do not convert
    let vals: [f64; 5] = [1.5, f64::NAN, f64::INFINITY, f64::NEG_INFINITY, -2.0];
    rep.cases(
        "failing-target",
        "I",
        "Quaternion<f64> -> exact rational scalar: each of 4 positions x {1.5, NaN, +inf, -inf, -2}",
        4 * vals.len(),
        Guard::states(20).need("none", 12).need("some", 8),
        |i, ctx| {
            let (pos, v) = (i / vals.len(), vals[i % vals.len()]);
            let mut c = [10.0f64, 11.0, 12.0, 13.0];
            c[pos] = v;
            ctx.describe(|| format!("Quaternion<f64>(w,x,y,z)={:?} -> Ex", c));
            ctx.out(&i);
            let want_none = !v.is_finite();
            ctx.branch(if want_none { "none" } else { "some" });
            let got = mk_q(c).cast::<Ex>();
            ctx.t();
            match got {
                None if want_none => {}
                Some(r) if !want_none => {
                    let exp: Vec<Ex> = c.iter().map(|x| Ex::from_f64_exact(*x).unwrap()).collect();
                    if qa(r).to_vec() != exp {
                        ctx.fail(&key("Quaternion/component-faithful"), || format!("cast gives {:?}", r));
                    }
                }
                Some(r) => ctx.fail(&key("Quaternion/none-iff-a-component-fails"), || format!("Quaternion{:?}.cast::<Ex>() = Some({:?}) although component {pos} does not convert", c, r)),
                None => ctx.fail(&key("Quaternion/none-iff-a-component-fails"), || "cast = None although every component converts".to_string()),
            }
        },
    );
}

macro_rules! for_targets {
    ($S:ty, $v:expr) => {
        entries_for::<$S, i8>($v);
        entries_for::<$S, i16>($v);
        entries_for::<$S, i32>($v);
        entries_for::<$S, i64>($v);
        entries_for::<$S, isize>($v);
        entries_for::<$S, u8>($v);
        entries_for::<$S, u16>($v);
        entries_for::<$S, u32>($v);
        entries_for::<$S, u64>($v);
        entries_for::<$S, usize>($v);
        entries_for::<$S, f32>($v);
        entries_for::<$S, f64>($v);
        $v.push(entry_quat::<$S, f32>());
        $v.push(entry_quat::<$S, f64>());
    };
}

/// float sources: whole values of (nearly) unit length - unit quaternions, normalised vectors, orthonormal columns, and
/// the same scaled by 1 +- 2^-k: a cast that "repairs" the result (renormalises, re-orthogonalises) changes components
/// that every scalar cast leaves alone
fn near_unit(rep: &mut Report, e: &Entry) {
    let n = e.n;
    let mut scales: Vec<f64> = vec![1.0];
    for k in (8..=52).step_by(4) {
        scales.extend([1.0 + 2f64.powi(-k), 1.0 - 2f64.powi(-k)]);
    }
    let nb = 3;
    rep.cases(
        &format!("{}/{}->{}/near-unit", e.comp, e.src, e.dst),
        "I",
        &format!("3 generic values normalised to length 1 (rounded to the source type) x {} scales 1 +- 2^-k", scales.len()),
        nb * scales.len(),
        Guard::states(2),
        |i, ctx| {
            let (b, sc) = (i / scales.len(), scales[i % scales.len()]);
            let g: Vec<f64> = alphabet::generic(n, b).iter().map(|r| r.0 as f64 / r.1 as f64).collect();
            let norm = g.iter().map(|x| x * x).sum::<f64>().sqrt();
            let bits: Vec<u128> = g.iter().map(|x| (e.from_f64)(x / norm * sc).unwrap()).collect();
            ctx.describe(|| format!("{}<{}>[{}] -> {}", e.comp, e.src, bits.iter().map(|x| (e.show_src)(*x)).collect::<Vec<_>>().join(", "), e.dst));
            ctx.out(&bits);
            ctx.t();
            let (got, scalar) = (e.run)(&bits);
            let name = e.comp;
            match got {
                Some(r) if r.len() == scalar.len() && r.iter().zip(&scalar).all(|(a, b)| Some(*a) == *b) => {}
                Some(r) => ctx.fail(&key(&format!("{name}/component-faithful")), || format!("cast = {:?}, scalar casts give {:?}", r.iter().map(|b| (e.show_dst)(*b)).collect::<Vec<_>>(), scalar.iter().map(|x| x.map(|b| (e.show_dst)(b))).collect::<Vec<_>>())),
                None => { ctx.check(scalar.iter().any(|c| c.is_none()), &key(&format!("{name}/none-iff-a-component-fails")), || "cast = None although every component converts".to_string()); }
            }
        },
    );
}

fn main() {
    let mut rep = Report::from_args(P);
    rep.assume("oracle: num_traits::NumCast::from of the same crate version applied per component; with num-traits 0.2.19 no primitive -> f32/f64 conversion fails, so the None path of Quaternion::cast is reached with a failing custom source scalar and with the exact rational target");
    let mut table: Vec<Entry> = Vec::new();
    for_targets!(i8, &mut table);
    for_targets!(i16, &mut table);
    for_targets!(i32, &mut table);
    for_targets!(i64, &mut table);
    for_targets!(isize, &mut table);
    for_targets!(u8, &mut table);
    for_targets!(u16, &mut table);
    for_targets!(u32, &mut table);
    for_targets!(u64, &mut table);
    for_targets!(usize, &mut table);
    for_targets!(f32, &mut table);
    for_targets!(f64, &mut table);
    for e in &table {
        explore(&mut rep, e);
        if (e.src == "f32" || e.src == "f64") && (e.dst == "f32" || e.dst == "f64") {
            near_unit(&mut rep, e);
        }
    }
    failing_paths(&mut rep);
    std::process::exit(rep.finish());
}
